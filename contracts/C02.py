"""C02 - Environments stay inside their declared spaces with well-typed signals.

(a) type level, all inputs: for every built-in environment (5 classic control, 11 MuJoCo, 3 Unitree G1) and wrapper stacks over them, JAX's abstract
    evaluation of the REAL reset / step gives observation aval = observation_space shape (float32), reward f32[], terminal / truncated bool[], no effects;
(b) bounds, inductive, classic control: the environment is CONSTRUCTED inside the extracted program from symbolic parameters, so the bounds of the advertised
    space and the bounds applied by clip / terminal are the same symbols.  Inv(s) := observation(s) in observation_space.  Initiation from the assumed
    uniform ranges; consecution because every successor state is clip(y) (MountainCar, ContinuousMountainCar, Pendulum, Acrobot) or non-terminal (CartPole);
(c) observation wrappers map into the space they advertise; (d) sampled actions are members and accepted (type level);
(e) MuJoCo / G1 NaN-freeness along trajectories: bounded native rollouts (never counted as proved).
"""
from __future__ import annotations

import types
from fractions import Fraction

import equinox as eqx
import jax
import jax.numpy as jnp
import jax.random as jr
import numpy as np
import z3

from lerax.env import classic_control as CC
from lerax.space import Box, Discrete
from lerax import wrapper as W

from lvc import kit, ir, extract
from lvc.extract import run, sym
from lvc.generic import GenericEnv
from lvc.kit import Ctx, sand
from lvc.opaque import ocall

PROPERTY = "C02"
TRUSTED = ["A-RNG (uniform within [min, max])", "A-DIFFRAX: the ODE solve returns SOME real vector (only clip's postcondition is used)", "A-MJX", "A-XLA: jax.eval_shape is a typing proof valid for all values",
           "A-REAL with |sin|, |cos| <= 1", "induction over the episode (initiation + consecution discharged; step's auto-reset contract from C01)"]
ASSUMPTIONS = ["constructor preconditions: min_position < max_position, max_speed > 0, thresholds > 0, max velocities > 0 (true for the defaults, checked natively)"]
DROPS = ["D1 constructor options at their defaults for MuJoCo / G1"]
NOT_DECIDED = ["NaN-freeness and finiteness of MuJoCo / G1 observations and rewards along trajectories: values come out of mjx.step (external numeric engine) - bounded native rollouts only",
               "finiteness of classic-control rewards is vacuous under A-REAL (the formulas are polynomial / bounded in the clipped state)"]
sd = jax.ShapeDtypeStruct
f32 = jnp.float32
PI = ir.zreal(Fraction(float(np.float32(np.pi))))


def uniform_stub(key, shape=(), dtype=float, minval=0.0, maxval=1.0, **kw):
    shape = tuple(shape)
    return ocall("uniform", sd(shape, f32), key, jnp.broadcast_to(jnp.asarray(minval, f32), shape), jnp.broadcast_to(jnp.asarray(maxval, f32), shape))


def uniform_axioms(ctx):
    ax = []
    for c in ctx.calls:
        if c.name == "uniform":
            o, lo, hi = c.outputs[0], c.operands[1], c.operands[2]
            for i in o.indices():
                ax.append(z3.Implies(ir.zreal(lo.at(i)) <= ir.zreal(hi.at(i)), z3.And(o.at(i) >= ir.zreal(lo.at(i)), o.at(i) <= ir.zreal(hi.at(i)))))
    return ax


def in_box(obs, low, high):
    return sand(*[z3.And(ir.zreal(obs.at(i)) >= ir.zreal(low.at(i)), ir.zreal(obs.at(i)) <= ir.zreal(high.at(i))) for i in obs.indices()])


def F32(v):
    return ir.zreal(ir.const_float(np.float32(v)))


CLASSIC = {
    # name: (class, symbolic constructor parameters with their preconditions, state dim)
    "MountainCar": (CC.MountainCar, ("min_position", "max_position", "max_speed"), lambda p: [p["min_position"] < p["max_position"], p["max_speed"] > 0, p["min_position"] <= F32(-0.6), p["max_position"] >= F32(-0.4)], 2),
    "ContinuousMountainCar": (CC.ContinuousMountainCar, ("min_position", "max_position", "max_speed"), lambda p: [p["min_position"] < p["max_position"], p["max_speed"] > 0, p["min_position"] <= F32(-0.6), p["max_position"] >= F32(-0.4)], 2),
    "Pendulum": (CC.Pendulum, ("max_speed",), lambda p: [p["max_speed"] >= 1], 2),
    "Acrobot": (CC.Acrobot, ("max_vel_1", "max_vel_2"), lambda p: [p["max_vel_1"] >= F32(0.1), p["max_vel_2"] >= F32(0.1)], 4),
    "CartPole": (CC.CartPole, ("x_threshold", "theta_threshold_radians"), lambda p: [p["x_threshold"] >= F32(0.05), p["theta_threshold_radians"] >= F32(0.05)], 4),
}


def unit_classic(name):
    def unit(S):
        cls, pnames, pre, n = CLASSIC[name]
        fnp = f"lerax.env.classic_control:{name}"
        S.under_contract(f"{fnp}.__init__", f"{fnp}.clip", f"{fnp}.observation", f"{fnp}.initial", f"{fnp}.terminal", f"{fnp}.reward")
        import inspect
        sig = inspect.signature(cls.__init__)
        missing = [p for p in pnames if p not in sig.parameters]
        if missing:
            S.undecided("constructor-parameters", f"constructor has no parameters {missing}", function=f"{fnp}.__init__")
            return
        ctx = Ctx()
        ps = {p: kit.real_scalar(p) for p in pnames}
        pz = {p: ps[p][1] for p in pnames}
        hyp = pre(pz)
        y = sym(ctx, "y", sd((n,), f32))
        k, kc = kit.key_input("key")
        State = type(cls().initial(key=jax.random.key(0)))

        def prog(yy, kk, *pv):
            env = cls(**dict(zip(pnames, pv)))
            sp = env.observation_space
            obs_after_clip = env.observation(State(y=env.clip(yy), t=jnp.asarray(0.0)), key=kk)
            obs_raw = env.observation(State(y=yy, t=jnp.asarray(0.0)), key=kk)
            term_raw = env.terminal(State(y=yy, t=jnp.asarray(0.0)), key=kk)
            obs_init = env.observation(env.initial(key=kk), key=kk)
            rew = env.reward(State(y=env.clip(yy), t=jnp.asarray(0.0)), env.action_space.canonical(), State(y=env.clip(yy), t=jnp.asarray(0.0)), key=kk)
            return sp.low, sp.high, obs_after_clip, obs_raw, term_raw, obs_init, rew
        with extract.patched((jr, "uniform", uniform_stub)):
            low, high, obs_c, obs_r, term_r, obs_i, rew = run(ctx, prog, y, k, *[ps[p][0] for p in pnames])
        fin = [z3.And(y.at((i,)) > -ir.INF, y.at((i,)) < ir.INF) for i in range(n)]
        ax = uniform_axioms(ctx)
        shape_ok = tuple(obs_c.shape) == tuple(low.shape) == tuple(high.shape)
        S.fact(f"{name}/observation-shape-is-space-shape", shape_ok, function=f"{fnp}.observation", what="the observation has the shape of the declared space", detail=dict(obs=str(obs_c.shape), space=str(low.shape)))
        if not shape_ok:
            return
        S.prove(f"{name}/initiation", ctx, in_box(obs_i, low, high), hyps=hyp + ax, function=f"{fnp}.initial", replay=_native_replay(name),
                what="Inv(initial(k)): the reset observation is a member of the declared space for every key (A-RNG ranges)")
        if name == "CartPole":
            S.prove(f"{name}/consecution(non-terminal-states-are-in-space)", ctx, ir.simplies(ir.snot(term_r.scalar()), in_box(obs_r, low, high)), hyps=hyp + fin, function=f"{fnp}.terminal",
                    replay=_native_replay(name), what="every non-terminal state (the only states step carries on from; terminal ones are replaced by a reset state, C01) has its observation inside the declared space "
                                                      "(positions within the thresholds <= 2 x thresholds; velocities unbounded)")
        else:
            S.prove(f"{name}/consecution(clip-maps-into-space)", ctx, in_box(obs_c, low, high), hyps=hyp + fin, function=f"{fnp}.clip", replay=_native_replay(name), nl_budget_ms=6000,
                    what="for EVERY real vector y the solver may return, observation(clip(y)) is inside the declared space: the space bounds and the clip bounds are the same constructor symbols")
        S.fact(f"{name}/reward-is-float-scalar", rew.shape == () and rew.kind == "f", function=f"{fnp}.reward", what="the reward is a float scalar")
        if name == "CartPole":
            return
        # the transition itself, for every solver configuration the constructor accepts: whatever the ODE solve returns (uninterpreted: arbitrary reals), the successor state's
        # observation is inside the declared space - i.e. every path through `transition` ends in `clip`
        import types
        import diffrax

        def solve_stub(term, solver=None, t0=None, t1=None, dt0=None, y0=None, args=None, saveat=None, stepsize_controller=None, **kw):
            return types.SimpleNamespace(ys=ocall("SOLVE#", sd((1,) + tuple(y0.shape), f32), y0, t0, t1, *jax.tree.leaves(args)))
        S.under_contract("lerax.env.classic_control.base_classic_control:AbstractClassicControlEnv.transition")
        asp = cls().action_space
        for sname, skw in (("default-solver", {}), ("Euler", dict(solver=diffrax.Euler())), ("Heun+PID", dict(solver=diffrax.Heun(), stepsize_controller=diffrax.PIDController(rtol=1e-3, atol=1e-4)))):
            ctx2 = Ctx()
            ps2 = {p: kit.real_scalar(p) for p in pnames}
            hyp2 = pre({p: ps2[p][1] for p in pnames})
            y2 = sym(ctx2, "y", sd((n,), f32))
            t2 = sym(ctx2, "t", sd((), f32))
            a2 = sym(ctx2, "a", sd((), jnp.int32) if isinstance(asp, Discrete) else sd(tuple(asp.shape), f32))
            k2, _ = kit.key_input("key")

            def prog2(yy, tt, aa, kk, *pv, skw=skw):
                env = cls(**dict(zip(pnames, pv)), **skw)
                ns = env.transition(State(y=yy, t=tt), aa, key=kk)
                sp = env.observation_space
                return sp.low, sp.high, env.observation(ns, key=kk)
            try:
                with extract.patched((diffrax, "diffeqsolve", solve_stub)):
                    lo2, hi2, ob2 = run(ctx2, prog2, y2, t2, a2, k2, *[ps2[p][0] for p in pnames])
            except TypeError as e:
                S.undecided(f"{name}[{sname}]/transition-ends-in-clip", f"constructor does not accept this solver configuration: {e}"[:200], function=f"{fnp}.transition")
                continue
            act_ok = [z3.And(a2.scalar() >= 0, a2.scalar() < int(asp.n))] if isinstance(asp, Discrete) else [z3.And(a2.at(i) > -ir.INF, a2.at(i) < ir.INF) for i in a2.indices()]
            fin2 = [z3.And(y2.at((i,)) > -ir.INF, y2.at((i,)) < ir.INF) for i in range(n)] + [z3.And(t2.scalar() > -ir.INF, t2.scalar() < ir.INF)]
            S.prove(f"{name}[{sname}]/transition-ends-in-clip", ctx2, in_box(ob2, lo2, hi2), hyps=hyp2 + fin2 + act_ok + _finite_calls(ctx2, "SOLVE#"),
                    function="lerax.env.classic_control.base_classic_control:AbstractClassicControlEnv.transition", replay=_solver_rollout_replay(name), nl_budget_ms=6000,
                    what=f"solver configuration {sname}: for every state, action and every vector the ODE solve may return, the successor observation is inside the declared space "
                         "(every path through transition ends in clip)")
    return unit


def _finite_calls(ctx, cname):
    """the uninterpreted solver returns finite reals (A-REAL; NaN-freeness of the solve is not claimed, see not_decided)"""
    out = []
    for call in ctx.calls:
        if call.name == cname:
            for o in call.outputs:
                out += [z3.And(o.at(i) > -ir.INF, o.at(i) < ir.INF) for i in o.indices()]
    return out


def _solver_rollout_replay(name):
    """R1: native rollouts of the real environment built with each solver configuration (default, fixed-step Euler, adaptive Heun), constant bound-corner actions for up to 300 steps
    (the longest run-up to a bound), membership by the real contains()."""
    def replay(model):
        import diffrax
        cls = CLASSIC[name][0]
        for sname, skw in (("default-solver", {}), ("Euler", dict(solver=diffrax.Euler())), ("Heun+PID", dict(solver=diffrax.Heun(), stepsize_controller=diffrax.PIDController(rtol=1e-3, atol=1e-4)))):
            try:
                env = cls(**skw)
            except TypeError:
                continue
            sp = env.action_space
            acts = [jnp.asarray(0), jnp.asarray(int(sp.n) - 1)] if isinstance(sp, Discrete) else [sp.low * jnp.ones(sp.shape), sp.high * jnp.ones(sp.shape)]
            step = jax.jit(lambda s, a, k: env.step(s, a, key=k))
            for ai, a in enumerate(acts):
                key = jax.random.key(ai)
                s, o, _ = env.reset(key=key)
                for t in range(300):
                    if not bool(env.observation_space.contains(o)):
                        return dict(reproduced=True, route=f"R1 (real {name}({sname}), constant corner action)", inputs=dict(env=name, solver=sname, action=np.asarray(a).tolist(), step=t),
                                    observed=dict(observation=np.asarray(o).tolist(), low=np.asarray(env.observation_space.low).tolist(), high=np.asarray(env.observation_space.high).tolist()))
                    key, k2 = jax.random.split(key)
                    s, o, r, te, tr, _ = step(s, a, k2)
        return dict(reproduced=False, note="constant corner-action rollouts (300 steps, 3 solver configurations) stayed inside the space")
    return replay


def _native_replay(name):
    def replay(model):
        direct = _direct_replay(name, model)
        if direct is not None:
            return direct
        return _rollout_replay(name, model)
    return replay


def _direct_replay(name, model):
    """R1: the solver's counter-model (constructor parameters and the vector y) run through the REAL constructor, clip, observation and contains()."""
    cls, pnames, pre, n = CLASSIC[name]
    try:
        params = {p: kit.model_float(model, p, None) for p in pnames}
        if any(v is None for v in params.values()):
            return None
        env = cls(**params)
        y = jnp.asarray([kit.model_float(model, f"y[{i}]", 0.0) for i in range(n)], f32)
        State = type(env.initial(key=jax.random.key(0)))
        obs = env.observation(State(y=env.clip(y), t=jnp.asarray(0.0)), key=jax.random.key(0)) if name != "CartPole" else env.observation(State(y=y, t=jnp.asarray(0.0)), key=jax.random.key(0))
        if name == "CartPole" and bool(env.terminal(State(y=y, t=jnp.asarray(0.0)), key=jax.random.key(0))):
            return None
        if not bool(env.observation_space.contains(obs)):
            return dict(reproduced=True, route="R1 (counter-model replayed through the real constructor / clip / observation / contains)", inputs=dict(env=name, constructor=params, y=np.asarray(y).tolist()),
                        observed=dict(observation=np.asarray(obs).tolist(), low=np.asarray(env.observation_space.low).tolist(), high=np.asarray(env.observation_space.high).tolist()))
    except Exception:
        return None
    return None


def _rollout_replay(name, model):
    if True:
        """R1: native rollouts with bound-corner and random actions from random keys; membership evaluated with the real contains()."""
        cls = CLASSIC[name][0]
        env = cls()
        rng = np.random.RandomState(4)
        for ep in range(6):
            key = jax.random.key(int(rng.randint(1 << 30)))
            s, o, _ = env.reset(key=key)
            for t in range(200):
                if not bool(env.observation_space.contains(o)):
                    return dict(reproduced=True, route="R1", inputs=dict(env=name, episode=ep, step=t), observed=dict(observation=np.asarray(o).tolist(), low=np.asarray(env.observation_space.low).tolist(), high=np.asarray(env.observation_space.high).tolist()))
                sp = env.action_space
                if isinstance(sp, Discrete):
                    # energy pumping: push along the (last) velocity coordinate
                    a = jnp.asarray(int(np.sign(float(np.asarray(s.y)[-2 if name == "Acrobot" else -1])) + 1) % sp.n) if rng.rand() < 0.8 else jnp.asarray(int(rng.randint(sp.n)))
                else:
                    a = jnp.where(jnp.asarray(rng.rand() < 0.5), sp.low, sp.high) * jnp.ones(sp.shape)
                key, k2 = jax.random.split(key)
                s, o, r, te, tr, _ = env.step(s, a, key=k2)
        return dict(reproduced=False, note="native corner-action rollouts stayed inside the space")


def unit_types_classic(S):
    """type level for the classic-control environments under wrapper stacks (all values: abstract evaluation)"""
    stacks = {"plain": lambda e: e, "TimeLimit": lambda e: W.TimeLimit(e, 50), "Flatten(TimeLimit)": lambda e: W.FlattenObservation(W.TimeLimit(e, 50)),
              "ClipObservation": lambda e: W.ClipObservation(e), "RescaleObservation": lambda e: W.RescaleObservation(e) if bool(jnp.all(jnp.isfinite(e.observation_space.high))) else e}
    for name in ("CartPole", "MountainCar", "ContinuousMountainCar", "Acrobot", "Pendulum"):
        S.fact(f"{name}/construction-independent-of-earlier-instances", not _same_construction(getattr(CC, name)), function=f"lerax.env.classic_control:{name}.__init__",
               replay=_construction_replay(getattr(CC, name), name), what="a second construction in the same process yields the same environment (no Python-side state feeds observations, rewards or flags)")
        for sname, build in stacks.items():
            env = build(getattr(CC, name)())
            _type_obligations(S, f"{name}/{sname}", env, f"lerax.env.classic_control:{name}")
            if isinstance(env.action_space, Box) and sname == "plain":
                e2 = W.RescaleAction(W.ClipAction(env)) if False else W.ClipAction(env)
                _type_obligations(S, f"{name}/ClipAction", e2, f"lerax.env.classic_control:{name}")


def _type_obligations(S, tag, env, fn):
    S.under_contract(fn + ".{reset,step}")
    key = jax.random.key(0)
    try:
        jp = jax.make_jaxpr(lambda k: env.reset(key=k))(key)
        st, obs, info = jax.eval_shape(lambda k: env.reset(key=k), key)
        a = jax.eval_shape(lambda k: env.action_space.sample(key=k), key)
        jp2 = jax.make_jaxpr(lambda s, aa, k: env.step(s, aa, key=k))(st, a, key)
        nst, o2, r, te, tr, inf = jax.eval_shape(lambda s, aa, k: env.step(s, aa, key=k), st, a, key)
    except Exception as e:
        S.fact(f"{tag}/well-typed", False, function=fn, what="reset / step are traceable for every input", detail=f"{type(e).__name__}: {str(e)[:200]}")
        return
    sp = env.observation_space
    osh = tuple(sp.shape)
    ok_obs = tuple(obs.shape) == osh and tuple(o2.shape) == osh and obs.dtype == jnp.float32 and o2.dtype == jnp.float32
    ok_sig = r.shape == () and jnp.issubdtype(r.dtype, jnp.floating) and te.shape == () and te.dtype == jnp.bool_ and tr.shape == () and tr.dtype == jnp.bool_
    ok_act = tuple(a.shape) == tuple(env.action_space.shape)
    ok_state = jax.tree.structure(st) == jax.tree.structure(nst) and all(x.shape == y.shape and x.dtype == y.dtype for x, y in zip(jax.tree.leaves(st), jax.tree.leaves(nst)))
    eff = [str(e) for e in list(jp.effects) + list(jp2.effects)]
    S.fact(f"{tag}/well-typed", ok_obs and ok_sig and ok_act and ok_state and not eff, function=fn,
           what="for ALL states, actions and keys: observation has the declared shape and float32 dtype at reset and after a step, reward is a float scalar, terminal / truncated are boolean scalars, "
                "a sampled action has the action space's shape and is accepted, the state type is preserved, and reset / step have no effects (no Python-side state)",
           detail=dict(obs=str(obs), obs_step=str(o2), space=str(osh), reward=str(r), terminal=str(te), truncated=str(tr), effects=eff))


MUJOCO = ("Ant", "HalfCheetah", "Hopper", "Humanoid", "HumanoidStandup", "InvertedDoublePendulum", "InvertedPendulum", "Pusher", "Reacher", "Swimmer", "Walker2d")


def _same_construction(mk):
    """two constructions in the same process must give the same environment: same pytree structure (static fields included) and equal leaves"""
    e1, e2 = mk(), mk()
    l1, t1 = jax.tree.flatten(e1)
    l2, t2 = jax.tree.flatten(e2)
    diffs = []
    if t1 != t2:
        s1, s2 = str(t1), str(t2)
        k = next((i for i, (a, b) in enumerate(zip(s1, s2)) if a != b), min(len(s1), len(s2)))
        diffs.append(dict(what="static structure differs", first=s1[max(0, k - 80):k + 80], second=s2[max(0, k - 80):k + 80]))
    for i, (a, b) in enumerate(zip(l1, l2)):
        if hasattr(a, "shape") and hasattr(b, "shape"):
            if np.shape(a) != np.shape(b) or not np.array_equal(np.asarray(a), np.asarray(b), equal_nan=True):
                diffs.append(dict(what=f"leaf {i} differs", first=str(np.asarray(a))[:120], second=str(np.asarray(b))[:120]))
    return diffs


def _construction_replay(mk, label):
    def replay(model):
        d = _same_construction(mk)
        return dict(reproduced=bool(d), route="R1 (the real constructor called twice in one process)", inputs=dict(environment=label), observed=d[:3]) if d else dict(reproduced=False, note="second construction identical to the first")
    return replay


def unit_types_mujoco(name):
    def unit(S):
        from lerax.env import mujoco as MJ
        env = getattr(MJ, name)()
        S.fact(f"{name}/construction-independent-of-earlier-instances", not _same_construction(lambda: getattr(MJ, name)()), function=f"lerax.env.mujoco:{name}.__init__",
               replay=_construction_replay(lambda: getattr(MJ, name)(), name), what="a second construction in the same process yields the same environment (no Python-side state feeds observations, rewards or flags)")
        _type_obligations(S, f"{name}/plain", env, f"lerax.env.mujoco:{name}")
        _type_obligations(S, f"{name}/TimeLimit(ClipAction)", W.TimeLimit(W.ClipAction(env), 100), f"lerax.env.mujoco:{name}")
        if S.tier == "thorough":
            _bounded_rollout(S, name, env, 32)
    return unit


def unit_types_g1(kind):
    def unit(S):
        from lerax.env.unitree.g1 import locomotion, standing, standup
        cls = {"locomotion": locomotion.G1Locomotion, "standing": standing.G1Standing, "standup": standup.G1Standup}[kind]
        env = cls()
        S.fact(f"G1{kind}/construction-independent-of-earlier-instances", not _same_construction(cls), function=f"lerax.env.unitree.g1.{kind}:{cls.__name__}.__init__",
               replay=_construction_replay(cls, cls.__name__), what="a second construction in the same process yields the same environment (no Python-side state feeds observations, rewards or flags)")
        _type_obligations(S, f"G1{kind}/plain", env, f"lerax.env.unitree.g1.{kind}:{cls.__name__}")
        if S.tier == "thorough":
            _bounded_rollout(S, f"G1{kind}", env, 16)
    return unit


def _bounded_rollout(S, name, env, H):
    """bounded stand-in: H jitted steps with bound-corner / random actions; observation membership (not NaN) and finite reward natively"""
    key = jax.random.key(int(S.seed) + 3)

    def roll(k):
        s, o, _ = env.reset(key=k)

        def body(c, kk):
            s_, ok = c
            k1, k2, k3 = jax.random.split(kk, 3)
            sp = env.action_space
            a = jnp.where(jax.random.bernoulli(k1, 0.5, sp.shape), sp.low, sp.high)
            a = jnp.where(jax.random.bernoulli(k3, 0.3), sp.sample(key=k3), a)
            s2, o2, r, te, tr, _ = env.step(s_, a, key=k2)
            good = env.observation_space.contains(o2) & jnp.isfinite(r)
            return (s2, ok & good), good
        (_, ok), goods = jax.lax.scan(body, (s, env.observation_space.contains(o)), jax.random.split(k, H))
        return ok, goods
    ok, goods = jax.jit(roll)(key)
    S.bounded_check(f"{name}/rollout-in-space-finite-reward", bool(ok), bound=f"one native rollout of {H} steps with bound-corner / sampled actions (seeded)", function=f"{name}.step",
                    what="observations stay members of the declared space (not NaN) and rewards finite along the rollout", detail=dict(first_bad_step=int(np.argmin(np.asarray(goods))) if not bool(ok) else None))


def _clipobs_stack_replay(model):
    """R1: ClipObservation on top of an observation-transforming wrapper (RescaleObservation to a range that is not contained in the raw bounds), real classic-control environments,
    corner-action rollouts: every observation must be a member of the space the outer wrapper declares."""
    for cls in (CC.MountainCar, CC.Pendulum, CC.Acrobot):
        for lo_, hi_ in ((-1.0, 1.0), (-5.0, 5.0), (2.0, 3.0)):
            env = W.ClipObservation(W.RescaleObservation(cls(), min=jnp.asarray(lo_), max=jnp.asarray(hi_)))
            sp = env.action_space
            a = jnp.asarray(int(sp.n) - 1) if isinstance(sp, Discrete) else sp.high * jnp.ones(sp.shape)
            key = jax.random.key(0)
            s, o, _ = env.reset(key=key)
            for t in range(60):
                if not bool(env.observation_space.contains(o)):
                    return dict(reproduced=True, route="R1 (ClipObservation(RescaleObservation(real env)), constant corner action)", inputs=dict(env=cls.__name__, rescale_to=[lo_, hi_], step=t),
                                observed=dict(observation=np.asarray(o).tolist(), declared_low=np.asarray(env.observation_space.low).tolist(), declared_high=np.asarray(env.observation_space.high).tolist()))
                key, k2 = jax.random.split(key)
                s, o, r, te, tr, _ = env.step(s, a, key=k2)
    return dict(reproduced=False, note="ClipObservation over RescaleObservation: 9 stacks x 60 steps inside the declared space")


def unit_wrappers(S):
    """observation wrappers map into the space they advertise, for every inner observation"""
    fn = "lerax.wrapper.transform_observation"
    S.under_contract(fn + ":ClipObservation", fn + ":RescaleObservation", fn + ":FlattenObservation")
    ctx = Ctx()
    # the wrapped object is any environment-LIKE object (possibly a wrapper stack): its `unwrapped` is a different environment with other bounds of the same shape, so a wrapper
    # that declares or clips to `env.unwrapped`'s space where `env`'s is meant is visible
    from lvc.generic import GenericInnerEnv
    inner0 = GenericInnerEnv(Box(-jnp.ones((2,)), jnp.ones((2,))), observation_space=Box(jnp.array([-2.0, 0.0]), jnp.array([2.0, 5.0])),
                             decoy=GenericEnv(Box(-3 * jnp.ones((2,)), 3 * jnp.ones((2,))), tag="decoy", observation_space=Box(jnp.array([-0.5, 1.0]), jnp.array([0.5, 2.0]))))
    inner = sym(ctx, "env", inner0)
    o = sym(ctx, "o", sd((2,), f32))

    def prog(e, oo):
        w = W.ClipObservation(e)
        return w.observation_space.low, w.observation_space.high, w.func(oo)
    low, high, out = run(ctx, prog, inner, o)
    hyp = [inner.observation_space.low.at((i,)) <= inner.observation_space.high.at((i,)) for i in range(2)]
    S.prove("ClipObservation/into-advertised-space", ctx, in_box(out, low, high), hyps=hyp, function=fn + ":ClipObservation", replay=_clipobs_stack_replay, what="ClipObservation's observation lies in the space it advertises for EVERY inner observation (also out-of-space ones)")
    w = W.RescaleObservation(inner0)
    ctx2 = Ctx()
    o2 = sym(ctx2, "o", sd((2,), f32))
    out2 = run(ctx2, lambda oo: w.func(oo), o2)
    lo_i, hi_i = np.asarray(inner0.observation_space.low), np.asarray(inner0.observation_space.high)
    hyp2 = [z3.And(o2.at((i,)) >= ir.zreal(ir.const_float(lo_i[i])), o2.at((i,)) <= ir.zreal(ir.const_float(hi_i[i]))) for i in range(2)]
    eps = z3.RealVal("1/100000")
    S.prove("RescaleObservation/inner-box-into-advertised-box", ctx2, sand(*[z3.And(ir.zreal(out2.at((i,))) >= -1 - eps, ir.zreal(out2.at((i,))) <= 1 + eps) for i in range(2)]), hyps=hyp2,
            function=fn + ":RescaleObservation", what="RescaleObservation maps the inner box into the advertised box [-1, 1] (affine, monotone; tolerance 1e-5 for the float32 coefficients)")
    # wrapper-stack induction step for wrappers that do NOT declare an observation change: they advertise the observation space of the object they wrap (self.env - which may itself be
    # a wrapper stack; the generic inner object's `unwrapped` is a decoy with other spaces) and pass its observation through unchanged (C13 pass-through obligations), so membership
    # of the inner observation in the inner space carries over to the stack.  Likewise the action space for wrappers that do not declare an action change.
    from contracts import C13
    for name, (mk, build, changes) in C13.WRAPPERS.items():
        cls = name.split("/")[0]
        E0 = build(mk())
        same = lambda a, b: a is b or a == b
        if cls not in ("TransformObservation", "ClipObservation", "RescaleObservation", "FlattenObservation"):
            S.fact(f"stack-induction/{name}/observation-space-inherited", same(E0.observation_space, E0.env.observation_space), function=f"lerax.wrapper:{cls}.observation_space",
                   replay=C13._space_replay(cls, "observation_space"), what="declared observation space = the wrapped object's, so its observations (passed through unchanged) stay members")
        if cls not in ("TransformAction", "ClipAction", "RescaleAction"):
            S.fact(f"stack-induction/{name}/action-space-inherited", same(E0.action_space, E0.env.action_space), function=f"lerax.wrapper:{cls}.action_space",
                   replay=C13._space_replay(cls, "action_space"), what="declared action space = the wrapped object's, so sampled actions are accepted by the wrapped object")
    # action wrappers: every member of the DECLARED action space is forwarded as a member of the wrapped object's action space (so sampled actions are accepted):
    # rescale_box on arbitrary finite ordered bounds, the inverse map RescaleAction uses; ClipAction by clipping
    from lerax.wrapper.utils import rescale_box
    from lvc.extract import fork_paths, eval_traced
    ctx3 = Ctx()
    low, high, mn, mx, x = [sym(ctx3, nm, sd((2,), f32)) for nm in ("low", "high", "min", "max", "x")]
    with extract.patched((jnp, "isfinite", lambda a: np.ones(jnp.shape(a), bool))):
        paths = [p for p in fork_paths(lambda lo_, hi_, mn_, mx_, x_: rescale_box(Box(lo_, hi_), mn_, mx_).backward(x_), (low, high, mn, mx, x), raises=(AssertionError,)) if p[0] is not None]
    if len(paths) == 1:
        conds, bx = eval_traced(ctx3, paths[0][0], paths[0][1])
        pc = [ir.seq(c_.scalar(), d_) for c_, d_ in zip(conds, paths[0][2])]
        strict = [z3.And(low.at((i,)) < high.at((i,)), mn.at((i,)) < mx.at((i,))) for i in range(2)]
        member = [z3.And(x.at((i,)) >= mn.at((i,)), x.at((i,)) <= mx.at((i,))) for i in range(2)]
        S.prove("RescaleAction/declared-actions-forwarded-into-the-inner-space", ctx3, sand(*[z3.And(ir.zreal(bx.at((i,))) >= ir.zreal(low.at((i,))), ir.zreal(bx.at((i,))) <= ir.zreal(high.at((i,)))) for i in range(2)]),
                hyps=pc + strict + member, function="lerax.wrapper.utils:rescale_box", nl_budget_ms=5000, replay=C13.native_rescale_replay,
                what="for all finite low < high, min < max: every x in [min, max] (the space RescaleAction declares) is forwarded to backward(x) in [low, high] (the wrapped action space)")
    else:
        S.fact("RescaleAction/declared-actions-forwarded-into-the-inner-space", False, function="lerax.wrapper.utils:rescale_box", what="rescale_box has exactly one accepting path", detail=len(paths))
    # one-sided target ranges (RescaleObservation(env, min=-inf, max=c) etc.): observations forwarded into the declared box, per-dimension finiteness patterns
    C13.rescale_onesided_obligations(S, "lerax.wrapper.utils:rescale_box")
    wf = W.FlattenObservation(inner0)
    S.fact("FlattenObservation/shape", tuple(wf.observation_space.shape) == (inner0.observation_space.flat_size,), function=fn + ":FlattenObservation", what="the flattened observation has flat_size entries, the advertised shape")


UNITS = [(f"classic:{n}", unit_classic(n)) for n in CLASSIC] + [("types:classic", unit_types_classic), ("wrappers", unit_wrappers)] + \
        [(f"types:mujoco:{n}", unit_types_mujoco(n)) for n in MUJOCO] + [(f"types:g1:{k}", unit_types_g1(k)) for k in ("locomotion", "standing", "standup")]
