"""C20 - Unitree G1 episodes are randomised within range and gait phase stays coherent.

Under contract: randomize_friction, randomize_friction_loss, randomize_armature, randomize_body_mass, randomize_model;
advance_gait_phase, initial_gait_phase, desired_foot_height; AbstractG1Env.transition (phase update);
initial / sample_command of G1Locomotion, G1Standing, G1Standup; _snap_to_ground.
The real G1 mjx.Model is used: the four randomised fields (and the nominal values, ranges) are symbolic, mjx.forward / mjx.step /
jax.random.uniform are uninterpreted with assumed contracts.
"""
from __future__ import annotations

import itertools
from fractions import Fraction

import equinox as eqx
import jax
import jax.numpy as jnp
import jax.random as jr
import numpy as np
import z3
from mujoco import mjx

from lerax.env.unitree.g1 import randomize as RZ
from lerax.env.unitree.g1 import gait as GT
from lerax.env.unitree.g1 import base_g1 as BG

from lvc import kit, ir, extract, opaque
from lvc.extract import run, sym
from lvc.kit import Ctx, sand
from lvc.opaque import ocall

PROPERTY = "C20"
TRUSTED = ["A-RNG: uniform(k, shape, min, max) in [min, max] (min <= max); bernoulli boolean", "A-MJX: mjx.forward / mjx.step / mjx.make_data are deterministic functions of (model, data)",
           "A-REAL incl. float fmod (x - y*trunc(x/y)) and the float32 literal of pi (an exact rational)", "induction over the step history for the gait-phase invariant (initiation + consecution discharged)"]
ASSUMPTIONS = ["nominal friction loss / armature / body masses >= 0; ranges lo <= hi; gait frequency * dt >= 0"]
DROPS = ["D1 task flags (push_enable, relative_actions, unactuated_steps) at their defaults"]
NOT_DECIDED = []
sd = jax.ShapeDtypeStruct
f32 = jnp.float32
PI = Fraction(float(np.float32(np.pi)))


def uniform_stub(key, shape=(), dtype=float, minval=0.0, maxval=1.0, **kw):
    shape = tuple(shape)
    return ocall("uniform", sd(shape, f32), key, jnp.broadcast_to(jnp.asarray(minval, f32), shape), jnp.broadcast_to(jnp.asarray(maxval, f32), shape))


def bernoulli_stub(key, p=0.5, shape=None, **kw):
    return ocall("bernoulli", sd(tuple(shape or ()), jnp.bool_), key)


def uniform_axioms(ctx, at=None):
    """A-RNG for every uniform call: lo <= hi => lo <= u <= hi (instantiated at the given indices, or all indices of small arrays)."""
    ax = []
    for c in ctx.calls:
        if c.name != "uniform":
            continue
        o, lo, hi = c.outputs[0], c.operands[1], c.operands[2]
        idxs = list(o.indices()) if o.concrete() and int(np.prod(o.shape or (1,))) <= 64 else []
        for i in idxs + list(at or []):
            if len(i) != len(o.shape):
                continue
            ax.append(z3.Implies(ir.zreal(lo.at(i)) <= ir.zreal(hi.at(i)), z3.And(o.at(i) >= ir.zreal(lo.at(i)), o.at(i) <= ir.zreal(hi.at(i)))))
    return ax


_ENV = {}


_COMMON = dict(friction_range=(0.3, 0.9), friction_loss_scale_range=(0.6, 1.8), armature_scale_range=(1.0, 1.2), mass_scale_range=(0.8, 1.25), torso_offset_range=(0.5, 2.0),
               push_interval_range=(4.0, 9.0), push_magnitude_range=(0.2, 1.7))
_LOCO = dict(lin_vel_x_range=(-0.8, 1.2), lin_vel_y_range=(-0.4, 0.3), ang_vel_yaw_range=(-0.6, 0.7), gait_frequency_range=(1.1, 1.6))


def configured(kind, name=None):
    """the constructor arguments the contracts' environments are built with.  Obligations compare against THESE values (what the user configured), never against attributes read
    back from the environment object: an `__init__` that stores a range under the wrong name is a defect, not the specification."""
    kw = dict(_COMMON, **(_LOCO if kind == "locomotion" else {}))
    return kw if name is None else jnp.asarray(kw[name], f32)


def env_of(kind):
    if kind not in _ENV:
        from lerax.env.unitree.g1 import locomotion, standing, standup
        # NON-default ranges: a call site that forgets to forward a configured range falls back to randomize_model's defaults and is caught
        # ... and every configurable range differs from every other one, so that a range used in the wrong place (copy-paste of a bound) is visible
        _ENV[kind] = {"locomotion": locomotion.G1Locomotion, "standing": standing.G1Standing, "standup": standup.G1Standup}[kind](**configured(kind))
    return _ENV[kind]


FIELDS = ("pair_friction", "dof_frictionloss", "dof_armature", "body_mass")


def sym_model(ctx, base):
    """the real G1 model with the four randomisable fields symbolic (every other leaf keeps its nominal concrete value)"""
    repl = {f: sym(ctx, f"model.{f}", sd(getattr(base, f).shape, f32)) for f in FIELDS}
    others = {}
    return base, repl


def _model_with(base, repl):
    return base.tree_replace(dict(repl))


def _frame_ok(out_model, in_model_leaves_by_field, base):
    """every leaf other than the four fields is the nominal leaf (same object / same concrete array)"""
    bad = []
    import dataclasses
    for f in dataclasses.fields(base):
        if f.name in FIELDS:
            continue
        a, b = getattr(out_model, f.name), getattr(base, f.name)
        la, lb = jax.tree.leaves(a, is_leaf=kit.is_sarr), jax.tree.leaves(b)
        if len(la) != len(lb):
            bad.append(f.name)
            continue
        for x, y in zip(la, lb):
            if kit.is_sarr(x):
                # constant-folded pass-through: must be the nominal constant at every index
                yy = np.asarray(y)
                if tuple(x.shape) != tuple(yy.shape):
                    bad.append(f.name)
                    break
                idxs = list(itertools.islice(x.indices(), 0, 50)) if x.concrete() else []
                for ix in idxs:
                    v = x.at(ix)
                    if ir.is_z3(v) or (v != (ir.const_float(yy[ix]) if yy.dtype.kind == "f" else (bool(yy[ix]) if yy.dtype.kind == "b" else int(yy[ix])))):
                        bad.append(f.name)
                        break
            elif x is not y and not (isinstance(x, (int, float, str, bool, tuple)) and x == y) and not (hasattr(x, "shape") and np.array_equal(np.asarray(x), np.asarray(y))):
                bad.append(f.name)
    return sorted(set(bad))


def native_randomize_replay(name):
    """R1: the real randomize_* function on the real G1 model for 4096 keys (vmapped) and several configured ranges (default and non-default, incl. offsets far from 0 and scale
    ranges away from 1): every randomized entry lies in its configured range around the NOMINAL value; untouched entries keep their value."""
    def replay(model):
        env = env_of("locomotion")
        base = env.base_model
        tid = int(env.torso_body_id)
        keys = jr.split(jr.key(123), 4096)
        tol = 1e-5
        if name == "randomize_friction":
            for r in ((0.4, 1.0), (0.1, 0.2), (1.5, 3.0), (0.0, 1.0)):
                pf = np.asarray(jax.vmap(lambda k_: RZ.randomize_friction(base, key=k_, friction_range=r).pair_friction)(keys))
                blk = pf[:, 0:2, 0:2]
                if not np.all(np.isfinite(blk)) or blk.min() < r[0] - tol or blk.max() > r[1] + tol:
                    return dict(reproduced=True, route="R1 (real randomize_friction, 4096 keys)", inputs=dict(friction_range=r), observed=dict(min=float(blk.min()), max=float(blk.max())))
            return dict(reproduced=False, note="3 ranges x 4096 keys within range")
        if name in ("randomize_friction_loss", "randomize_armature"):
            nomv = env.nominal_friction_loss if name == "randomize_friction_loss" else env.nominal_armature
            field = "dof_frictionloss" if name == "randomize_friction_loss" else "dof_armature"
            kw = "nominal_friction_loss" if name == "randomize_friction_loss" else "nominal_armature"
            for r in ((0.5, 2.0), (1.0, 1.05), (1.2, 1.3), (0.7, 0.8), (0.0, 2.0), (0.0, 0.0)):
                out = np.asarray(jax.vmap(lambda k_: getattr(getattr(RZ, name)(base, key=k_, scale_range=r, **{kw: nomv}), field))(keys), np.float64)
                nom64 = np.asarray(nomv, np.float64)
                lo_, hi_ = nom64 * r[0], nom64 * r[1]
                v = out[:, 6:]
                if not np.all(np.isfinite(v)) or np.any(v < lo_ - tol * (1 + np.abs(lo_))) or np.any(v > hi_ + tol * (1 + np.abs(hi_))) or not np.array_equal(out[:, :6], np.broadcast_to(np.asarray(getattr(base, field))[:6], out[:, :6].shape)):
                    w = np.argwhere(~np.isfinite(v) | (v < lo_ - tol * (1 + np.abs(lo_))) | (v > hi_ + tol * (1 + np.abs(hi_))))
                    return dict(reproduced=True, route=f"R1 (real {name}, 4096 keys)", inputs=dict(scale_range=r), observed=dict(first_offending=[int(x) for x in w[0]] if len(w) else None,
                                value=float(v[tuple(w[0])]) if len(w) else None, allowed=[float(lo_[w[0][1]]), float(hi_[w[0][1]])] if len(w) else None))
            return dict(reproduced=False, note="4 ranges x 4096 keys within nominal*[lo, hi]; free-joint DOFs untouched")
        nom64 = np.asarray(env.nominal_body_mass, np.float64)
        for r, o in (((0.9, 1.1), (-1.0, 1.0)), ((1.0, 1.3), (2.0, 3.0)), ((0.5, 0.9), (1.0, 2.0)), ((1.0, 1.0), (0.0, 0.0)), ((0.8, 1.2), (-0.5, -0.25)), ((0.0, 1.0), (0.0, 1.0))):
            out = np.asarray(jax.vmap(lambda k_: RZ.randomize_body_mass(base, key=k_, nominal_body_mass=env.nominal_body_mass, scale_range=r, torso_body_id=tid, torso_offset_range=o).body_mass)(keys), np.float64)
            lo_, hi_ = nom64 * r[0], nom64 * r[1]
            lo_[tid] += o[0]
            hi_[tid] += o[1]
            badm = ~np.isfinite(out) | (out < lo_ - tol * (1 + np.abs(lo_))) | (out > hi_ + tol * (1 + np.abs(hi_)))
            if badm.any():
                w = np.argwhere(badm)[0]
                return dict(reproduced=True, route="R1 (real randomize_body_mass on the G1 model, 4096 keys)", inputs=dict(scale_range=r, torso_offset_range=o, key_index=int(w[0]), body=int(w[1]), torso_body_id=tid),
                            observed=dict(mass=float(out[w[0], w[1]]), allowed=[float(lo_[w[1]]), float(hi_[w[1]])], offending_keys=int(badm.any(axis=1).sum())))
        return dict(reproduced=False, note="5 (scale, offset) range pairs x 4096 keys: every mass within nominal*[lo, hi] (+ offset range for the torso)")
    return replay


def unit_randomize(S):
    env = env_of("locomotion")
    base = env.base_model
    F = "lerax.env.unitree.g1.randomize:{}"
    nA = int(env.nominal_friction_loss.shape[0])
    nB = int(base.nbody)
    tid = int(env.torso_body_id)
    cases = {
        "randomize_friction": lambda m, k, r: RZ.randomize_friction(m, key=k, friction_range=(r[0], r[1])),
        "randomize_friction_loss": lambda m, k, r, nom: RZ.randomize_friction_loss(m, key=k, nominal_friction_loss=nom, scale_range=(r[0], r[1])),
        "randomize_armature": lambda m, k, r, nom: RZ.randomize_armature(m, key=k, nominal_armature=nom, scale_range=(r[0], r[1])),
        "randomize_body_mass": lambda m, k, r, nom, o: RZ.randomize_body_mass(m, key=k, nominal_body_mass=nom, scale_range=(r[0], r[1]), torso_body_id=tid, torso_offset_range=(o[0], o[1])),
    }
    for name, fn in cases.items():
        S.under_contract(F.format(name))
        # floats are reals in the encoding (A-REAL): NaN / inf produced for legal boundary ranges (a lower bound of exactly 0, a degenerate range) are invisible to the
        # obligations below, so the native battery - which includes such ranges - also runs as a bounded check on every run
        rnat = native_randomize_replay(name)(None)
        S.bounded_check(f"{name}/native-ranges-incl-zero-lower-bound", not rnat.get("reproduced"), bound="4096 keys x several configured ranges incl. lower bound 0 and degenerate ranges, real G1 model",
                        function=F.format(name), what="every randomised entry is finite and within its configured range around the nominal value", detail=rnat, replay=lambda m, rnat=rnat: rnat)
        ctx = Ctx()
        _, repl = sym_model(ctx, base)
        rng = sym(ctx, "range", sd((2,), f32))
        off = sym(ctx, "offset_range", sd((2,), f32))
        k, kc = kit.key_input("key")
        nom_shape = {"randomize_friction_loss": (nA,), "randomize_armature": (nA,), "randomize_body_mass": (nB,)}.get(name)
        nom = sym(ctx, "nominal", sd(nom_shape, f32)) if nom_shape else None
        args = [rng] + ([nom] if nom is not None else []) + ([off] if name == "randomize_body_mass" else [])
        with extract.patched((jr, "uniform", uniform_stub)):
            out = run(ctx, lambda rp, kk, *a: fn(_model_with(base, rp), kk, *a), repl, k, *args)
        lo, hi = rng.at((0,)), rng.at((1,))
        i, j = z3.Ints("i j")
        hyp = [lo <= hi, off.at((0,)) <= off.at((1,))]
        field = {"randomize_friction": "pair_friction", "randomize_friction_loss": "dof_frictionloss", "randomize_armature": "dof_armature", "randomize_body_mass": "body_mass"}[name]
        new, old = getattr(out, field), repl[field]
        if name == "randomize_friction":
            touched = z3.And(i >= 0, i < 2, j >= 0, j < 2)
            rngi = [i >= 0, i < new.shape[0], j >= 0, j < new.shape[1]]
            ax = uniform_axioms(ctx)
            S.prove(f"{name}/within-range", ctx, z3.Implies(touched, z3.And(new.at((i, j)) >= lo, new.at((i, j)) <= hi)), hyps=hyp + rngi + ax, function=F.format(name),
                    what="contact friction of the two foot-floor pairs (block [0:2, 0:2]) lies in [friction_lo, friction_hi]", replay=native_randomize_replay(name))
            S.prove(f"{name}/untouched-entries", ctx, z3.Implies(z3.Not(touched), new.at((i, j)) == old.at((i, j))), hyps=hyp + rngi, function=F.format(name),
                    what="every other entry of pair_friction is the input entry")
        else:
            n = new.shape[0]
            start = 0 if name == "randomize_body_mass" else 6
            nomi = lambda t: nom.at((t - start,))
            ax = uniform_axioms(ctx, at=[(i - start,), (i,)]) + uniform_axioms(ctx)
            nonneg = [nomi(i) >= 0]
            inr = [i >= start, i < n]
            if name == "randomize_body_mass":
                goal = z3.If(i == tid, z3.And(new.at((i,)) >= nomi(i) * lo + off.at((0,)), new.at((i,)) <= nomi(i) * hi + off.at((1,))),
                             z3.And(new.at((i,)) >= nomi(i) * lo, new.at((i,)) <= nomi(i) * hi))
                what = "every body mass lies in nominal*[lo, hi]; the torso additionally +[off_lo, off_hi]"
            else:
                goal = z3.And(new.at((i,)) >= nomi(i) * lo, new.at((i,)) <= nomi(i) * hi)
                what = "every actuated DOF (index >= 6) lies in nominal*[lo, hi] around the NOMINAL value"
            S.prove(f"{name}/within-range", ctx, goal, hyps=hyp + inr + nonneg + ax + [lo >= 0], function=F.format(name), what=what, replay=native_randomize_replay(name))
            if start:
                S.prove(f"{name}/untouched-entries", ctx, new.at((i,)) == old.at((i,)), hyps=[i >= 0, i < start], function=F.format(name), what="the 6 free-joint DOFs keep their input value")
        others = [f for f in FIELDS if f != field]
        same = all(getattr(out, f).fn is repl[f].fn for f in others)
        bad = _frame_ok(out, repl, base)
        S.fact(f"{name}/frame", same and not bad, function=F.format(name), what="frame: every other model parameter is the input parameter (the other randomisable fields are the very same arrays; all remaining leaves are the nominal ones)",
               detail=dict(changed=bad, other_fields_identical=same))
    # randomize_model = composition with the configured ranges
    S.under_contract(F.format("randomize_model"))
    ctx = Ctx()
    _, repl = sym_model(ctx, base)
    k, kc = kit.key_input("key")
    rs = {n: sym(ctx, n, sd((2,), f32)) for n in ("friction", "floss", "arm", "mass", "off")}
    nfl, narm, nbm = sym(ctx, "nom_floss", sd((nA,), f32)), sym(ctx, "nom_arm", sd((nA,), f32)), sym(ctx, "nom_mass", sd((nB,), f32))
    with extract.patched((jr, "uniform", uniform_stub)):
        out = run(ctx, lambda rp, kk, a, b, c, r1, r2, r3, r4, r5: RZ.randomize_model(_model_with(base, rp), key=kk, nominal_friction_loss=a, nominal_armature=b, nominal_body_mass=c,
                                                                                  torso_body_id=tid, friction_range=(r1[0], r1[1]), friction_loss_scale_range=(r2[0], r2[1]),
                                                                                  armature_scale_range=(r3[0], r3[1]), mass_scale_range=(r4[0], r4[1]), torso_offset_range=(r5[0], r5[1])),
                  repl, k, nfl, narm, nbm, rs["friction"], rs["floss"], rs["arm"], rs["mass"], rs["off"])
    i, j = z3.Ints("i j")
    hyp = [r.at((0,)) <= r.at((1,)) for r in rs.values()] + [rs["floss"].at((0,)) >= 0, rs["arm"].at((0,)) >= 0, rs["mass"].at((0,)) >= 0]
    ax = uniform_axioms(ctx, at=[(i - 6,), (i,)]) + uniform_axioms(ctx)
    g1 = z3.Implies(z3.And(i >= 0, i < 2, j >= 0, j < 2), z3.And(out.pair_friction.at((i, j)) >= rs["friction"].at((0,)), out.pair_friction.at((i, j)) <= rs["friction"].at((1,))))
    g2 = z3.Implies(z3.And(i >= 6, i < 6 + nA, nfl.at((i - 6,)) >= 0), z3.And(out.dof_frictionloss.at((i,)) >= nfl.at((i - 6,)) * rs["floss"].at((0,)), out.dof_frictionloss.at((i,)) <= nfl.at((i - 6,)) * rs["floss"].at((1,))))
    g3 = z3.Implies(z3.And(i >= 6, i < 6 + nA, narm.at((i - 6,)) >= 0), z3.And(out.dof_armature.at((i,)) >= narm.at((i - 6,)) * rs["arm"].at((0,)), out.dof_armature.at((i,)) <= narm.at((i - 6,)) * rs["arm"].at((1,))))
    g4 = z3.Implies(z3.And(i >= 0, i < nB, i != tid, nbm.at((i,)) >= 0), z3.And(out.body_mass.at((i,)) >= nbm.at((i,)) * rs["mass"].at((0,)), out.body_mass.at((i,)) <= nbm.at((i,)) * rs["mass"].at((1,))))
    for nm, g in (("contact-friction", g1), ("friction-loss", g2), ("armature", g3), ("body-mass", g4)):
        S.prove(f"randomize_model/{nm}-within-range", ctx, g, hyps=hyp + ax, function=F.format("randomize_model"),
                what=f"after the full randomisation the {nm} lies within its configured range around the NOMINAL model (not the already-randomised one)")
    bad = _frame_ok(out, repl, base)
    S.fact("randomize_model/frame", not bad, function=F.format("randomize_model"), what="every other model parameter equals the nominal one", detail=bad)


def native_foot_height_replay(model):
    """R1: the real desired_foot_height on the counter-model's phase / swing height, then on a dense grid of phases in [-pi, pi] (both feet) for several swing heights."""
    cands = []
    try:
        x = kit.model_float(model, "phase[0]", None)
        h = kit.model_float(model, "swing_height", None)
        if model is not None and x is not None and h is not None:
            cands.append((np.array([x, 0.0]), h))
    except Exception:
        pass
    grid = np.linspace(-np.pi, np.pi, 721)
    for h in (0.15, 0.09, 1.0):
        for a in grid:
            cands.append((np.array([a, -a]), h))
    worst = None
    for ph, h in cands:
        out = np.asarray(GT.desired_foot_height(jnp.asarray(ph, f32), jnp.asarray(h, f32)), np.float64)
        lo, hi = out.min(), out.max()
        if lo < -1e-6 * (1 + h) or hi > h * (1 + 1e-6) + 1e-7:
            if worst is None or max(-lo, hi - h) > worst[0]:
                worst = (max(-lo, hi - h), ph.tolist(), h, out.tolist())
    if worst:
        return dict(reproduced=True, route="R1 (real desired_foot_height)", inputs=dict(phase=worst[1], swing_height=worst[2]), observed=dict(desired_heights=worst[3], allowed=[0.0, worst[2]]))
    return dict(reproduced=False, note=f"{len(cands)} (phase, swing height) pairs: heights within [0, swing height]")


def unit_gait(S):
    F = "lerax.env.unitree.g1.gait:{}"
    S.under_contract(F.format("advance_gait_phase"), F.format("initial_gait_phase"), F.format("desired_foot_height"))
    pi = z3.RealVal(f"{PI.numerator}/{PI.denominator}")
    ctx = Ctx()
    ph = sym(ctx, "phase", sd((2,), f32))
    fr, frc = kit.real_scalar("frequency")
    dt, dtc = kit.real_scalar("dt")
    out = run(ctx, GT.advance_gait_phase, ph, fr, dt)
    hyp = [ph.at((0,)) >= -pi, ph.at((0,)) <= pi, ph.at((1,)) >= -pi, ph.at((1,)) <= pi, frc * dtc >= 0]
    S.prove("advance_gait_phase/stays-in-range", ctx, sand(*[z3.And(out.at((i,)) >= -pi, out.at((i,)) < pi) for i in range(2)]), hyps=hyp, function=F.format("advance_gait_phase"),
            what="phases stay within [-pi, pi) for every frequency*dt >= 0 (arbitrarily many wraps)")
    ks = [z3.Int(f"k{i}") for i in range(2)]
    S.prove("advance_gait_phase/advances-by-2pi-f-dt-mod-2pi", ctx, z3.Exists(ks, z3.And(*[out.at((i,)) == ph.at((i,)) + 2 * pi * frc * dtc - 2 * pi * z3.ToReal(ks[i]) for i in range(2)])),
            hyps=hyp, function=F.format("advance_gait_phase"), what="each phase advances by 2*pi*frequency*dt modulo 2*pi")
    _ = [out.at((i,)) for i in range(2)]
    q1, q2 = ctx.fmod_quotients[0], ctx.fmod_quotients[1]  # the integer quotients introduced by the fmod rule for the two phases
    base = ph.at((0,)) - ph.at((1,))
    diff = out.at((0,)) - out.at((1,))
    S.prove("advance_gait_phase/half-cycle-apart-preserved", ctx, z3.Or(diff == base + 2 * pi * z3.ToReal(q1 - q2), diff == base + 2 * pi * z3.ToReal(q2 - q1)), hyps=hyp,
            function=F.format("advance_gait_phase"), what="the difference of the two phases is preserved modulo 2*pi: the feet stay half a cycle apart")
    ctx2 = Ctx()
    p0 = run(ctx2, GT.initial_gait_phase)
    S.prove("initial_gait_phase/zero-and-pi", ctx2, sand(ir.seq(p0.at((0,)), 0), ir.seq(p0.at((1,)), PI)), function=F.format("initial_gait_phase"), what="episodes start with phases [0, pi]: half a cycle apart, within [-pi, pi]")
    ctx3 = Ctx()
    ph3 = sym(ctx3, "phase", sd((2,), f32))
    h, hc = kit.real_scalar("swing_height")
    fh = run(ctx3, GT.desired_foot_height, ph3, h)
    x = ph3.at((0,))
    hy = [x >= -pi, x <= pi, hc >= 0]
    S.prove("desired_foot_height/within-zero-and-swing-height", ctx3, z3.And(fh.at((0,)) >= 0, fh.at((0,)) <= hc), hyps=hy, replay=native_foot_height_replay, function=F.format("desired_foot_height"),
            what="desired foot height stays within [0, swing height] for every phase in [-pi, pi]", nl_budget_ms=15000)
    S.prove("desired_foot_height/zero-at-minus-pi", ctx3, fh.at((0,)) == 0, hyps=[x == -pi, hc >= 0], replay=native_foot_height_replay, function=F.format("desired_foot_height"), what="vanishes at phase -pi")
    S.prove("desired_foot_height/peak-at-zero", ctx3, fh.at((0,)) == hc, hyps=[x == 0, hc >= 0], replay=native_foot_height_replay, function=F.format("desired_foot_height"), what="peaks (= swing height) at phase 0")


def _fwd_stub(model, data):
    """mjx.forward as an uninterpreted function: derived kinematics (xpos, site positions, sensor data) are functions of the configuration"""
    xpos = ocall("mjx.forward.xpos", sd(data.xpos.shape, f32), data.qpos, data.qvel)
    sens = ocall("mjx.forward.sensordata", sd(data.sensordata.shape, f32), data.qpos, data.qvel)
    return data.replace(xpos=xpos, sensordata=sens)


def native_initial_replay(kind):
    """R1: the real (jitted) env.initial of an environment constructed with distinctive, mutually disjoint randomisation ranges; the episode model's randomised
    fields must lie in the intervals implied by the CONFIGURED ranges and the nominal values."""
    def replay(model):
        from lerax.env.unitree.g1 import locomotion, standing, standup
        cls = {"locomotion": locomotion.G1Locomotion, "standing": standing.G1Standing, "standup": standup.G1Standup}[kind]
        cfg = dict(friction_range=(0.31, 0.32), friction_loss_scale_range=(3.0, 3.1), armature_scale_range=(2.0, 2.1), mass_scale_range=(1.5, 1.6), torso_offset_range=(40.0, 41.0))
        env = cls(**cfg)
        init = jax.jit(lambda k: env.initial(key=k))
        tb = int(env.torso_body_id)
        for seed in (0, 1):
            m = init(jax.random.key(seed)).model
            nom_fl, nom_ar, nom_bm = np.asarray(env.nominal_friction_loss, np.float64), np.asarray(env.nominal_armature, np.float64), np.asarray(env.nominal_body_mass, np.float64)
            pf = np.asarray(m.pair_friction, np.float64)[0:2, 0:2]
            fl, ar, bm = np.asarray(m.dof_frictionloss, np.float64)[6:], np.asarray(m.dof_armature, np.float64)[6:], np.asarray(m.body_mass, np.float64)
            eps = 1e-4

            def within(x, nom, rng):
                lo, hi = np.minimum(nom * rng[0], nom * rng[1]), np.maximum(nom * rng[0], nom * rng[1])
                return bool(np.all(x >= lo - eps * (1 + np.abs(lo))) and np.all(x <= hi + eps * (1 + np.abs(hi))))
            others = np.arange(bm.shape[0]) != tb
            checks = dict(pair_friction=bool(np.all(pf >= cfg["friction_range"][0] - eps) and np.all(pf <= cfg["friction_range"][1] + eps)),
                          dof_frictionloss=within(fl, nom_fl, cfg["friction_loss_scale_range"]), dof_armature=within(ar, nom_ar, cfg["armature_scale_range"]),
                          body_mass=within(bm[others], nom_bm[others], cfg["mass_scale_range"]),
                          torso_mass=bool(nom_bm[tb] * 1.5 + 40.0 - 1e-3 <= bm[tb] <= nom_bm[tb] * 1.6 + 41.0 + 1e-3))
            if not all(checks.values()):
                return dict(reproduced=True, route=f"R1 (real jitted {cls.__name__}.initial, real mjx, real randomize_model)", inputs=dict(constructor=cfg, key_seed=seed),
                            observed=dict(within_configured_range=checks, torso_mass=float(bm[tb]), nominal_torso_mass=float(nom_bm[tb]), pair_friction=pf.tolist()))
        return dict(reproduced=False, note="2 episodes: every randomised field within the configured ranges")
    return replay


def unit_initial(kind):
    def unit(S):
        env = env_of(kind)
        cls = type(env).__name__
        fn = f"lerax.env.unitree.g1.{kind}:{cls}.initial"
        S.under_contract(fn, f"lerax.env.unitree.g1.{kind}:{cls}.sample_command", "lerax.env.unitree.g1.base_g1:AbstractG1Env._snap_to_ground")
        ctx = Ctx()
        k, kc = kit.key_input("key")
        recorded = {}

        import inspect
        defaults = {n: p.default for n, p in inspect.signature(RZ.randomize_model).parameters.items() if p.default is not inspect.Parameter.empty}

        def rm_stub(model, *, key, **kw):
            kw = {**defaults, **kw}  # same defaults as the real function
            tag = ocall("RM#", sd((), f32), key, kw["nominal_friction_loss"], kw["nominal_armature"], kw["nominal_body_mass"], jnp.asarray(kw["friction_range"], f32),
                        jnp.asarray(kw["friction_loss_scale_range"], f32), jnp.asarray(kw["armature_scale_range"], f32), jnp.asarray(kw["mass_scale_range"], f32),
                        jnp.asarray(kw["torso_offset_range"], f32))
            recorded["torso_body_id"] = kw["torso_body_id"]
            recorded["model_is_base"] = model is env.base_model
            return model.tree_replace({"body_mass": model.body_mass * tag})
        base_data = mjx.make_data(env.base_model)
        mod = __import__(type(env).__module__, fromlist=["mjx"])
        with extract.patched((jr, "uniform", uniform_stub), (jr, "bernoulli", bernoulli_stub), (mod.randomize, "randomize_model", rm_stub), (mod.mjx, "forward", _fwd_stub),
                             (BG.mjx, "forward", _fwd_stub), (mod.mjx, "make_data", lambda m: base_data)):
            st = run(ctx, lambda kk: env.initial(key=kk), k)
        rm = [c for c in ctx.calls if c.name == "RM#"]
        S.fact(f"{kind}.initial/randomises-the-nominal-model-once", len(rm) == 1 and recorded.get("model_is_base") and recorded.get("torso_body_id") == env.torso_body_id, shape=False, function=fn,
               what="the episode's model is randomize_model applied once to the NOMINAL (base) model")
        if len(rm) == 1:
            c = rm[0]
            exp = [env.nominal_friction_loss, env.nominal_armature, env.nominal_body_mass, configured(kind, "friction_range"), configured(kind, "friction_loss_scale_range"),
                   configured(kind, "armature_scale_range"), configured(kind, "mass_scale_range"), configured(kind, "torso_offset_range")]
            ok = True
            for a, e in zip(c.operands[1:], exp):
                e = np.asarray(e)
                for ix in a.indices():
                    v = a.at(ix)
                    if ir.is_z3(v) or v != ir.const_float(e[ix]):
                        ok = False
            from lvc.vc import term_contains
            S.fact(f"{kind}.initial/randomisation-uses-configured-ranges-and-nominals", ok and term_contains(c.operands[0].scalar(), kc), function=fn, replay=native_initial_replay(kind),
                   what="randomize_model receives the environment's nominal values and configured ranges, with a key derived from the episode key")
            tagv = c.outputs[0].scalar()
            i = z3.Int("i")
            bm = np.asarray(env.base_model.body_mass)
            S.prove(f"{kind}.initial/state-carries-the-randomised-model", ctx, sand(*[ir.seq(st.model.body_mass.at((b,)), ir.zreal(ir.const_float(bm[b])) * tagv) for b in range(0, bm.shape[0], 7)]),
                    function=fn, what="the state's model is the randomised model (not the nominal one)")
        # derived kinematics consistent with the joint configuration: xpos = forward(qpos, qvel) of the FINAL configuration
        data = st.sim_state
        spec = run(ctx, lambda q, v: ocall("mjx.forward.xpos", sd(tuple(data.xpos.shape), f32), q, v), data.qpos, data.qvel)
        S.prove(f"{kind}.initial/kinematics-consistent-with-configuration", ctx, sand(*[ir.seq(data.xpos.at((b, c_)), spec.at((b, c_))) for b in (0, 1, 16, 30) for c_ in range(3)]), function=fn,
                what="the state's derived kinematics are mjx.forward of its OWN (snapped, sampled) joint configuration and velocities")
        pi = z3.RealVal(f"{PI.numerator}/{PI.denominator}")
        S.prove(f"{kind}.initial/gait-phase", ctx, sand(ir.seq(st.gait_phase.at((0,)), 0), ir.seq(st.gait_phase.at((1,)), PI)), function=fn, what="gait phases start at [0, pi]")
        ax = uniform_axioms(ctx)
        if kind == "locomotion":
            rngs = [configured(kind, n_) for n_ in ("lin_vel_x_range", "lin_vel_y_range", "ang_vel_yaw_range")]
            goal = sand(*[z3.Or(st.command.at((i_,)) == 0, z3.And(st.command.at((i_,)) >= ir.zreal(ir.const_float(np.float32(r[0]))), st.command.at((i_,)) <= ir.zreal(ir.const_float(np.float32(r[1])))))
                          for i_, r in enumerate(rngs)])
            S.prove(f"{kind}.initial/command-within-range", ctx, goal, hyps=ax, function=fn, replay=native_command_replay, what="the velocity command lies within its configured ranges (or is the zero command)")
            gf = configured(kind, "gait_frequency_range")
            S.prove(f"{kind}.initial/gait-frequency-within-range", ctx, z3.And(st.gait_frequency.scalar() >= ir.zreal(ir.const_float(np.float32(gf[0]))),
                                                                                st.gait_frequency.scalar() <= ir.zreal(ir.const_float(np.float32(gf[1])))), hyps=ax, function=fn,
                    what="the gait frequency lies within its configured range")
        else:
            S.prove(f"{kind}.initial/zero-command", ctx, sand(*[ir.seq(st.command.at((i_,)), 0) for i_ in range(3)]), function=fn, what="standing tasks start with the zero command")
            gfs = st.gait_frequency.scalar()
            if hasattr(env, "gait_frequency_range") and not ir.is_const(gfs):
                gf = configured(kind, "gait_frequency_range")
                S.prove(f"{kind}.initial/gait-frequency-within-range", ctx, z3.And(gfs >= ir.zreal(ir.const_float(np.float32(gf[0]))), gfs <= ir.zreal(ir.const_float(np.float32(gf[1])))),
                        hyps=ax, function=fn, what="the gait frequency lies within its configured range")
            else:
                S.fact(f"{kind}.initial/gait-frequency-constant", ir.is_const(gfs), function=fn, what="the gait frequency is a fixed constant for this task", detail=str(gfs))
    return unit


def native_command_replay(model):
    """R1: 2048 real sample_command draws (vmapped over keys) of a G1Locomotion whose command / frequency ranges are pairwise different: every component within ITS range or the zero command."""
    env = env_of("locomotion")
    keys = jax.random.split(jax.random.key(0), 2048)
    out = jax.jit(jax.vmap(lambda k: env.sample_command(key=k)))(keys)
    cmd = np.asarray(out[0] if isinstance(out, tuple) else out, np.float64)
    rngs = [configured("locomotion", n_) for n_ in ("lin_vel_x_range", "lin_vel_y_range", "ang_vel_yaw_range")]
    bad = {}
    for i, (lo, hi) in enumerate(rngs):
        col = cmd[:, i]
        viol = (col != 0) & ((col < lo - 1e-6) | (col > hi + 1e-6))
        if viol.any():
            bad[["lin_vel_x", "lin_vel_y", "ang_vel_yaw"][i]] = dict(configured_range=[float(lo), float(hi)], out_of_range=int(viol.sum()), min=float(col.min()), max=float(col.max()))
    if bad:
        return dict(reproduced=True, route="R1 (real G1Locomotion.sample_command, 2048 keys)", inputs=dict(ranges=[[float(x) for x in r] for r in rngs], key_seed=0), observed=bad)
    return dict(reproduced=False, note="2048 commands: each component within its own configured range (or zero)")


def native_phase_replay(kind):
    """R1: one real (jitted) control step of the real environment from a reset state whose command / gait frequency are set to the counter-model's values (then to a zero command
    and to a generic command): the new gait phase must be wrap(phase + 2*pi*frequency*dt) and frequency / command must be carried."""
    def replay(model):
        env = env_of(kind)
        st0 = jax.jit(lambda k: env.initial(key=k))(jax.random.key(0))
        step = jax.jit(lambda s, a, k: env.transition(s, a, key=k))
        cands = []
        try:
            cm = [kit.model_float(model, f"command[{i}]", None) for i in range(3)]
            gf = kit.model_float(model, "gait_frequency", None)
            if model is not None and gf is not None:
                cands.append(([0.0 if v is None else v for v in cm], gf))
        except Exception:
            pass
        cands += [([0.0, 0.0, 0.0], 1.5), ([0.4, -0.2, 0.1], 1.25), ([0.005, 0.0, 0.0], 2.0)]
        dt = float(env.dt)
        for cmd, gf in cands:
            s = eqx.tree_at(lambda s_: (s_.command, s_.gait_frequency), st0, (jnp.asarray(cmd, f32), jnp.asarray(gf, f32)))
            ns = step(s, jnp.zeros((29,), f32), jax.random.key(1))
            ph0 = np.asarray(s.gait_phase, np.float64)
            exp = (ph0 + 2 * np.pi * gf * dt + np.pi) % (2 * np.pi) - np.pi
            got = np.asarray(ns.gait_phase, np.float64)
            d = np.abs(((got - exp) + np.pi) % (2 * np.pi) - np.pi)
            if np.max(d) > 1e-4 or abs(float(ns.gait_frequency) - gf) > 1e-6 or not np.allclose(np.asarray(ns.command), np.asarray(cmd, np.float32)):
                return dict(reproduced=True, route=f"R1 (real jitted {type(env).__name__}.transition, real mjx physics, one control step from a reset state)",
                            inputs=dict(command=cmd, gait_frequency=gf, dt=dt, gait_phase=ph0.tolist()), observed=dict(new_gait_phase=got.tolist(), expected=exp.tolist(),
                                                                                                                      new_frequency=float(ns.gait_frequency), new_command=np.asarray(ns.command).tolist()))
        return dict(reproduced=False, note=f"{len(cands)} (command, frequency) cases: phase advances by 2*pi*frequency*dt, frequency and command carried")
    return replay


def unit_transition_kind(kind):
    def unit(S):
        _transition(S, (kind,), lemma=(kind == "locomotion"))
    return unit


def _transition(S, kinds, lemma=True):
    """transition: gait_phase' = advance_gait_phase(gait_phase, gait_frequency, dt) exactly once per control step; frequency, command and the
    per-episode model are carried unchanged."""
    fn = "lerax.env.unitree.g1.base_g1:AbstractG1Env.transition"
    S.under_contract(fn)
    for kind in kinds:
        env = env_of(kind)
        ctx = Ctx()
        # a state of the right structure (abstractly evaluated initial(); array contents are irrelevant to the obligations below)
        concrete = jax.tree.map(lambda s_: jnp.ones(s_.shape, s_.dtype) if hasattr(s_, "shape") else s_, jax.eval_shape(lambda kk: env.initial(key=kk), jax.random.key(0)))
        # symbolic: gait phase / frequency / command / body masses of the per-episode model; everything else concrete
        gp = sym(ctx, "gait_phase", sd((2,), f32))
        gf, gfc = kit.real_scalar("gait_frequency")
        cmd = sym(ctx, "command", sd((3,), f32))
        bm = sym(ctx, "body_mass", sd(tuple(concrete.model.body_mass.shape), f32))
        act = sym(ctx, "action", sd((29,), f32))
        k, kc = kit.key_input("key")
        calls = {"n": 0}

        def agp_stub(phase, frequency, dt):
            calls["n"] += 1
            return ocall("AGP#", sd((2,), f32), phase, frequency, dt)

        def step_stub(model, data):
            return data.replace(time=data.time + ocall("mjx.step#", sd((), f32), model.body_mass[:2], data.time, data.ctrl[:2]))

        def build(g, f, c, b, a, kk):
            s = eqx.tree_at(lambda s_: (s_.gait_phase, s_.gait_frequency, s_.command, s_.model.body_mass), concrete, (g, f, c, b))
            return env.transition(s, a, key=kk)
        with extract.patched((GT, "advance_gait_phase", agp_stub), (BG.mjx, "step", step_stub), (jr, "uniform", uniform_stub)):
            ns = run(ctx, build, gp, gf, cmd, bm, act, k)
        rp = native_phase_replay(kind)
        agp = [c for c in ctx.calls if c.name == "AGP#"]
        S.fact(f"{kind}.transition/phase-advanced-once-per-control-step", len(agp) == 1 and calls["n"] == 1, shape=False, function=fn, what="advance_gait_phase is applied exactly once per control step (not per physics sub-step)",
               detail=dict(calls=calls["n"]))
        if len(agp) == 1:
            c = agp[0]
            dtv = ir.const_float(np.float32(env.dt))
            S.prove(f"{kind}.transition/phase-update-arguments", ctx, sand(kit.arr_eq_at(c.operands[0], gp, ()), ir.seq(c.operands[1].scalar(), gfc), ir.seq(c.operands[2].scalar(), dtv),
                                                                           kit.arr_eq_at(ns.gait_phase, c.outputs[0], ())), function=fn, replay=rp,
                    what="gait_phase' = advance_gait_phase(gait_phase, gait_frequency, dt) with the state's frequency and the control time step")
        S.prove(f"{kind}.transition/frequency-command-carried", ctx, sand(ir.seq(ns.gait_frequency.scalar(), gfc), kit.arr_eq_at(ns.command, cmd, ())), function=fn, replay=rp,
                what="gait frequency and velocity command are carried unchanged through the episode")
        S.prove(f"{kind}.transition/model-carried", ctx, sand(*[ir.seq(ns.model.body_mass.at((b,)), bm.at((b,))) for b in range(0, bm.shape[0], 5)]), function=fn,
                what="the per-episode randomised model is carried unchanged")
        steps = [c for c in ctx.calls if c.name == "mjx.step#"]
        S.fact(f"{kind}.transition/frame_skip-physics-steps", len(steps) == env.frame_skip or len(ctx.scans) == 1, function=fn, what="physics is stepped frame_skip times per control step with the per-episode model",
               detail=dict(step_calls=len(steps), frame_skip=env.frame_skip))
    if not lemma:
        return
    # loop rule over the episode: Inv: phases in [-pi, pi], difference = pi modulo 2*pi
    pi = z3.RealVal(f"{PI.numerator}/{PI.denominator}")
    a, b, a2, b2 = z3.Reals("phi0 phi1 phi0n phi1n")
    m, k0, k1 = z3.Ints("m k0 k1")
    inc = z3.Real("inc")
    S.prove("episode/phase-invariant-consecution", Ctx(), z3.And(a2 >= -pi, a2 <= pi, b2 >= -pi, b2 <= pi, a2 - b2 == pi + 2 * pi * z3.ToReal(m - k0 + k1)),
            hyps=[a >= -pi, a <= pi, b >= -pi, b <= pi, a - b == pi + 2 * pi * z3.ToReal(m), a2 >= -pi, a2 < pi, b2 >= -pi, b2 < pi, a2 == a + inc - 2 * pi * z3.ToReal(k0), b2 == b + inc - 2 * pi * z3.ToReal(k1)],
            function=fn, what="Inv and advance_gait_phase's contract => Inv: along any episode both phases stay in [-pi, pi] and remain half a cycle apart (mod 2*pi)")
    S.prove("episode/phase-invariant-initiation", Ctx(), z3.And(z3.RealVal(0) - pi == pi + 2 * pi * z3.ToReal(z3.IntVal(-1)), pi <= pi, 0 >= -pi), function=fn, what="Inv holds for the initial phases [0, pi]")


UNITS = [("randomize", unit_randomize), ("gait", unit_gait), ("initial:locomotion", unit_initial("locomotion")), ("initial:standing", unit_initial("standing")),
         ("initial:standup", unit_initial("standup")), ("transition:locomotion", unit_transition_kind("locomotion")), ("transition:standing", unit_transition_kind("standing"))]
