"""C08 - On-policy losses equal the published objectives (PPO clip, A2C, REINFORCE).

Under contract: PPO.ppo_loss, PPO.train_batch, PPO.__init__ (optimiser), A2C.a2c_loss, A2C.train, A2C.__init__,
REINFORCE.reinforce_loss, REINFORCE.train, REINFORCE.__init__, and the three *_loss_grad wrappers.
Batch size B is symbolic; the policy is generic (evaluate_action uninterpreted and differentiable); coefficients real.
The top-level postcondition is the property's formula written as a spec function (jax.numpy) and compared with the real
function's result for ALL inputs; means over the symbolic batch are matched by the congruence rule for reductions.
"""
from __future__ import annotations

import equinox as eqx
import jax
import jax.numpy as jnp
import numpy as np
import optax
import z3

from lerax.algorithm import PPO, A2C, REINFORCE
from lerax.buffer import RolloutBuffer
from lerax.space import Box, Discrete

from lvc import kit, ir, extract, opaque
from lvc.extract import run, sym, symbolic_dims
from lvc.generic import GenericActorCriticPolicy, GPState
from lvc.kit import Ctx, sand

PROPERTY = "C08"
TRUSTED = ["A-PURE (policy.evaluate_action is a function of its arguments)", "A-REAL", "A-XLA incl. reverse-mode autodiff of jax (the gradient handed to the optimiser is jax's gradient of the loss proved here)",
           "A-OPTAX: chain(a, b).update = b.update o a.update; clip_by_global_norm(c) scales by min(1, c/||g||); apply_updates(p, u) = p + u",
           "reduction congruence: sums over the symbolic batch with point-wise equal summands are equal (side obligations discharged per pair)",
           "eqx.error_if guards are identities on finite values (D2)"]
ASSUMPTIONS = ["batch size B >= 1 symbolic; generic actor-critic policy with parameters theta"]
DROPS = ["D1: normalize_advantages / clip_value_loss enumerated", "D2: error_if raising paths dropped (precondition: evaluate_action returns finite values)"]
NOT_DECIDED = []
sd = jax.ShapeDtypeStruct
f32 = jnp.float32

F_PPO = "lerax.algorithm.ppo:PPO.ppo_loss"
F_A2C = "lerax.algorithm.a2c:A2C.a2c_loss"
F_RF = "lerax.algorithm.reinforce:REINFORCE.reinforce_loss"


def buffer_struct(B):
    def mk(obs, act, rew, don, lp, val, h, ret, adv):
        return RolloutBuffer(obs, act, rew, don, lp, val, GPState(h), None, ret, adv)
    return jax.eval_shape(mk, sd((B, 2), f32), sd((B, 2), f32), sd((B,), f32), sd((B,), jnp.bool_), sd((B,), f32), sd((B,), f32), sd((B, 1), f32), sd((B,), f32), sd((B,), f32))


def _evaluate(policy, buf):
    _, v, lp, ent = jax.vmap(policy.evaluate_action)(buf.states, buf.observations, buf.actions, action_mask=buf.action_masks)
    return v, lp, ent


def _adv(buf, normalize):
    A = buf.advantages
    if normalize:
        A = (A - jnp.mean(A)) / (jnp.std(A) + jnp.finfo(A.dtype).eps)
    return A


def spec_ppo(policy, buf, normalize, eps, clip_value, c_v, c_e):
    """PPO objective as published (Schulman et al. 2017; PPO2 value clipping)."""
    v, lp, H = _evaluate(policy, buf)
    rho = jnp.exp(lp - buf.log_probs)
    A = _adv(buf, normalize)
    policy_loss = -jnp.mean(jnp.minimum(rho * A, jnp.clip(rho, 1 - eps, 1 + eps) * A))
    if clip_value:
        v_clip = buf.values + jnp.clip(v - buf.values, -eps, eps)
        value_loss = jnp.mean(jnp.maximum(jnp.square(v - buf.returns), jnp.square(v_clip - buf.returns))) / 2
    else:
        value_loss = jnp.mean(jnp.square(v - buf.returns)) / 2
    entropy_loss = -jnp.mean(H)
    loss = policy_loss + c_v * value_loss + c_e * entropy_loss
    log_rho = lp - buf.log_probs
    approx_kl = jnp.mean(rho - log_rho) - 1
    return dict(loss=loss, policy_loss=policy_loss, value_loss=value_loss, entropy_loss=entropy_loss, approx_kl=approx_kl)


def spec_pg(policy, buf, normalize, c_v, c_e):
    """A2C / REINFORCE: -E[log pi * A] + c_v * (1/2) E[(v - R)^2] (+ c_e * (-E[H]))."""
    v, lp, H = _evaluate(policy, buf)
    A = _adv(buf, normalize)
    policy_loss = -jnp.mean(lp * A)
    value_loss = jnp.mean(jnp.square(v - buf.returns)) / 2
    entropy_loss = -jnp.mean(H)
    loss = policy_loss + c_v * value_loss + (c_e * entropy_loss if c_e is not None else 0.0)
    return dict(loss=loss, policy_loss=policy_loss, value_loss=value_loss, entropy_loss=entropy_loss)


def _setup(ctx):
    (B,) = symbolic_dims("B")
    space = Box(-jnp.ones((2,)), jnp.ones((2,)))
    pol0 = GenericActorCriticPolicy(space, Box(-jnp.inf, jnp.inf, (2,)))
    pol = sym(ctx, "pi", pol0)
    buf = sym(ctx, "buf", buffer_struct(B))
    return B, pol, buf


def native_ppo_replay(flags):
    normalize, clip_value = flags

    def replay(model):
        """R1: real ppo_loss on a concrete MLP policy and random buffers vs the published formula evaluated in numpy."""
        from lerax.policy import MLPActorCriticPolicy
        from lvc.generic import GenericEnv
        rng = np.random.RandomState(5)
        E = GenericEnv(Box(-jnp.ones((2,)), jnp.ones((2,))))
        pol = MLPActorCriticPolicy(E, feature_size=4, feature_width=8, value_width=8, action_width=8, key=jax.random.key(0))
        for trial in range(6):
            B = int(rng.randint(2, 7))
            obs, act = jnp.asarray(rng.randn(B, 2), f32), jnp.asarray(rng.randn(B, 2), f32)
            _, v, lp, H = jax.vmap(pol.evaluate_action)(None, obs, act)
            old_lp = lp + jnp.asarray(rng.randn(B) * 0.5, f32)
            old_v = v + jnp.asarray(rng.randn(B) * 2.0, f32)
            ret = v + jnp.asarray(rng.randn(B) * 2.0, f32)
            adv = jnp.asarray(rng.randn(B), f32)
            buf = RolloutBuffer(obs, act, jnp.zeros(B), jnp.zeros(B, bool), old_lp, old_v, None, None, ret, adv)
            # coefficients of both signs and zero (a negative entropy coefficient is an entropy penalty); the counter-model's own values on the last trial
            eps, cv, ce = [(0.2, 0.5, 0.01), (0.1, 0.25, -0.01), (0.3, 1.0, 0.0), (0.2, 0.5, -0.5), (0.2, 0.0, 0.3), (0.2, -0.5, 0.01)][trial]
            if trial == 5 and model is not None:
                eps = kit.model_float(model, "clip_eps", eps) or eps
                cv, ce = kit.model_float(model, "c_value", cv), kit.model_float(model, "c_entropy", ce)
            loss, stats = PPO.ppo_loss(pol, buf, normalize, eps, clip_value, cv, ce)
            sp = spec_ppo(pol, buf, normalize, eps, clip_value, cv, ce)
            got = dict(loss=float(loss), policy_loss=float(stats.policy_loss), value_loss=float(stats.value_loss), entropy_loss=float(stats.entropy_loss), approx_kl=float(stats.approx_kl))
            exp = {k: float(x) for k, x in sp.items()}
            if any(abs(got[k] - exp[k]) > 1e-4 * (1 + abs(exp[k])) for k in got):
                return dict(reproduced=True, route="R1", inputs=dict(B=B, normalize_advantages=normalize, clip_value_loss=clip_value, clip_coefficient=eps, value_loss_coefficient=cv, entropy_loss_coefficient=ce,
                                                                    returns=np.asarray(ret).tolist(), old_values=np.asarray(old_v).tolist(), values=np.asarray(v).tolist()),
                            observed=dict(real=got, published_objective=exp))
        return dict(reproduced=False, note="6 random native batches agree with the published objective")
    return replay


def unit_ppo(normalize, clip_value):
    def unit(S):
        S.under_contract(F_PPO)
        ctx = Ctx()
        B, pol, buf = _setup(ctx)
        eps, epsc = kit.real_scalar("clip_eps")
        cv, cvc = kit.real_scalar("c_value")
        ce, cec = kit.real_scalar("c_entropy")
        loss, stats = run(ctx, lambda p, b, e, a, c: PPO.ppo_loss(p, b, normalize, e, clip_value, a, c), pol, buf, eps, cv, ce)
        sp = run(ctx, lambda p, b, e, a, c: spec_ppo(p, b, normalize, e, clip_value, a, c), pol, buf, eps, cv, ce)
        Bz = ctx.dim(B)
        hyp = [Bz >= 1, epsc >= 0]
        tag = f"ppo[normalize={normalize},clip_value={clip_value}]"
        rp = native_ppo_replay((normalize, clip_value))
        for nm, real in (("policy_loss", stats.policy_loss), ("value_loss", stats.value_loss), ("entropy_loss", stats.entropy_loss),
                         ("approx_kl", stats.approx_kl), ("loss", loss), ("reported-total", stats.total_loss)):
            target = sp["loss"] if nm == "reported-total" else sp[nm]
            S.prove(f"{tag}/{nm}", ctx, ir.seq(real.scalar(), target.scalar()), hyps=hyp, function=F_PPO, replay=rp,
                    what={"policy_loss": "policy term = -mean(min(rho*A, clip(rho,1-eps,1+eps)*A)), rho = exp(lp - old lp), A optionally normalised",
                          "value_loss": "value term = mean(max((v-R)^2, (v_clip-R)^2))/2 with clipping on, mean((v-R)^2)/2 otherwise (PPO2)",
                          "entropy_loss": "entropy term = -mean(H)", "approx_kl": "approx_kl = mean(rho - 1 - log rho)",
                          "loss": "loss = policy + c_v*value + c_e*entropy", "reported-total": "reported total loss is the minimised loss"}[nm])
        S.samples.append(dict(config=tag, reductions=len(ctx.reductions), batch="B symbolic"))
    return unit


def unit_ppo_lemmas(S):
    """Lemmas over the PPO contract (the formula itself): no-gradient region and on-policy data."""
    S.under_contract(F_PPO)
    ctx = Ctx()
    r1, r2, A, eps = z3.Reals("rho1 rho2 A eps")
    term = lambda r: z3.If(r * A <= z3.If(r < 1 - eps, 1 - eps, z3.If(r > 1 + eps, 1 + eps, r)) * A, r * A,
                           z3.If(r < 1 - eps, 1 - eps, z3.If(r > 1 + eps, 1 + eps, r)) * A)
    S.prove("lemma/no-policy-gradient-outside-clip(A>0)", ctx, term(r1) == term(r2), hyps=[eps >= 0, eps < 1, A > 0, r1 > 1 + eps, r2 > 1 + eps], function=F_PPO,
            what="A > 0 and rho > 1+eps: the per-sample surrogate is constant in rho (= (1+eps)A), so the sample contributes no policy gradient")
    S.prove("lemma/no-policy-gradient-outside-clip(A<0)", ctx, term(r1) == term(r2), hyps=[eps >= 0, eps < 1, A < 0, r1 < 1 - eps, r2 < 1 - eps, r1 > 0, r2 > 0], function=F_PPO,
            what="A < 0 and rho < 1-eps: the per-sample surrogate is constant in rho")
    S.prove("lemma/gradient-flows-inside(A>0)", ctx, z3.Implies(z3.And(r1 < r2), term(r1) < term(r2)), hyps=[eps > 0, eps < 1, A > 0, r1 > 1 - eps, r2 < 1 + eps, r1 > 0], function=F_PPO,
            what="sanity (non-vacuity): inside the clip interval the surrogate is strictly increasing in rho for A > 0")
    # on-policy data: lp = old lp for every sample => every ratio is 1 and approx_kl = 0 (from the real function)
    ctx = Ctx()
    B, pol, buf = _setup(ctx)
    v, lp, H = run(ctx, _evaluate, pol, buf)
    buf_on = eqx.tree_at(lambda b: b.log_probs, buf, lp)  # data collected by the current policy
    loss, stats = run(ctx, lambda p, b: PPO.ppo_loss(p, b, False, 0.2, False, 0.5, 0.0), pol, buf_on)
    Bz = ctx.dim(B)
    S.prove("lemma/on-policy-data-kl-zero", ctx, ir.seq(stats.approx_kl.scalar(), 0), hyps=[Bz >= 1], function=F_PPO,
            what="on data collected by the current policy every ratio is exp(0) = 1 and approx_kl = mean(1 - 0) - 1 = 0 (real ppo_loss, symbolic batch)")
    Asum = run(ctx, lambda b: -jnp.mean(b.advantages), buf_on)
    S.prove("lemma/on-policy-data-ratio-one", ctx, ir.seq(stats.policy_loss.scalar(), Asum.scalar()), hyps=[Bz >= 1], function=F_PPO,
            what="with every ratio 1 (inside the clip interval) the policy term is -mean(A)")


def native_pg_replay(cls, normalize):
    """R1: the real a2c_loss / reinforce_loss on a concrete MLP policy vs the published objective, on random batches AND degenerate ones (all advantages equal, a single
    sample, all-zero advantages) where advantage normalisation divides by (almost) nothing."""
    def replay(model):
        from lerax.policy import MLPActorCriticPolicy
        from lvc.generic import GenericEnv
        rng = np.random.RandomState(6)
        E = GenericEnv(Box(-jnp.ones((2,)), jnp.ones((2,))))
        pol = MLPActorCriticPolicy(E, feature_size=4, feature_width=8, value_width=8, action_width=8, key=jax.random.key(0))
        cases = [("random", int(rng.randint(2, 7)), None) for _ in range(4)] + [("all advantages equal", 4, 1.7), ("single sample", 1, None), ("all advantages zero", 3, 0.0), ("all advantages equal (negative)", 5, -0.3)]
        for label, B, const in cases:
            obs, act = jnp.asarray(rng.randn(B, 2), f32), jnp.asarray(rng.randn(B, 2), f32)
            _, v, lp, H = jax.vmap(pol.evaluate_action)(None, obs, act)
            ret = v + jnp.asarray(rng.randn(B) * 2.0, f32)
            adv = jnp.asarray(rng.randn(B), f32) if const is None else jnp.full((B,), const, f32)
            buf = RolloutBuffer(obs, act, jnp.zeros(B), jnp.zeros(B, bool), lp, v, None, None, ret, adv)
            cv, ce = 0.5, 0.01
            if cls is A2C:
                loss, stats = A2C.a2c_loss(pol, buf, normalize, cv, ce)
                sp = spec_pg(pol, buf, normalize, cv, ce)
            else:
                loss, stats = REINFORCE.reinforce_loss(pol, buf, normalize, cv)
                sp = spec_pg(pol, buf, normalize, cv, None)
            got = dict(loss=float(loss), policy_loss=float(stats.policy_loss), value_loss=float(stats.value_loss))
            exp = {k: float(sp[k]) for k in got}
            if any(not (abs(got[k] - exp[k]) <= 1e-4 * (1 + abs(exp[k]))) for k in got):
                return dict(reproduced=True, route=f"R1 (real {cls.__name__} loss on a real MLPActorCriticPolicy)", inputs=dict(case=label, B=B, normalize_advantages=normalize, advantages=np.asarray(adv).tolist()),
                            observed=dict(real=got, published_objective=exp))
        return dict(reproduced=False, note=f"{len(cases)} batches incl. degenerate advantage vectors agree with the published objective")
    return replay


def unit_pg(S):
    for cls, fnname, F in ((A2C, "a2c_loss", F_A2C), (REINFORCE, "reinforce_loss", F_RF)):
        S.under_contract(F)
        for normalize in (False, True):
            ctx = Ctx()
            B, pol, buf = _setup(ctx)
            cv, cvc = kit.real_scalar("c_value")
            ce, cec = kit.real_scalar("c_entropy")
            if cls is A2C:
                loss, stats = run(ctx, lambda p, b, a, c: A2C.a2c_loss(p, b, normalize, a, c), pol, buf, cv, ce)
                sp = run(ctx, lambda p, b, a, c: spec_pg(p, b, normalize, a, c), pol, buf, cv, ce)
            else:
                loss, stats = run(ctx, lambda p, b, a: REINFORCE.reinforce_loss(p, b, normalize, a), pol, buf, cv)
                sp = run(ctx, lambda p, b, a: spec_pg(p, b, normalize, a, None), pol, buf, cv)
            Bz = ctx.dim(B)
            tag = f"{cls.__name__}[normalize={normalize}]"
            rp_pg = native_pg_replay(cls, normalize)
            pairs = [("policy_loss", stats.policy_loss), ("value_loss", stats.value_loss), ("loss", loss), ("reported-total", stats.total_loss)]
            if cls is A2C:
                pairs.append(("entropy_loss", stats.entropy_loss))
            for nm, real in pairs:
                target = sp["loss"] if nm == "reported-total" else sp[nm]
                S.prove(f"{tag}/{nm}", ctx, ir.seq(real.scalar(), target.scalar()), hyps=[Bz >= 1], function=F, replay=rp_pg,
                        what=f"{nm}: -mean(log pi * A) + c_v * mean((v-R)^2)/2" + (" + c_e * (-mean H)" if cls is A2C else ""))


class RecOpt:
    """recording stand-ins for the optax factories (A-OPTAX)"""
    log = []


def unit_optimizer(S):
    """Constructors configure chain(clip_by_global_norm(max_grad_norm), adam(lr)); train_batch / train apply
    optimizer.update(grad of the loss, opt_state, params) with eqx.apply_updates."""
    for cls, kwargs, gradname, lossname in ((PPO, dict(num_envs=1, num_steps=4, num_batches=1), "ppo_loss_grad", "ppo_loss"), (A2C, dict(num_envs=1, num_steps=4), "a2c_loss_grad", "a2c_loss"),
                                            (REINFORCE, dict(num_envs=1, num_steps=4), "reinforce_loss_grad", "reinforce_loss")):
        name = cls.__name__
        fn_init = f"lerax.algorithm:{name}.__init__"
        fn_train = f"lerax.algorithm:{name}.{'train_batch' if cls is PPO else 'train'}"
        S.under_contract(fn_init, fn_train, f"lerax.algorithm:{name}.{gradname}")
        log = []
        mod = __import__(cls.__module__, fromlist=["optax"])
        real = mod.optax

        class FakeOptax:
            ScalarOrSchedule = real.ScalarOrSchedule
            GradientTransformation = real.GradientTransformation
            OptState = real.OptState

            @staticmethod
            def adam(*a, **k):
                log.append(("adam", a, k))
                return ("adam",)

            @staticmethod
            def inject_hyperparams(f):
                log.append(("inject_hyperparams", f))
                return lambda *a, **k: ("inject", f(*a, **k), a, k)

            @staticmethod
            def clip_by_global_norm(c):
                log.append(("clip_by_global_norm", c))
                return ("clip", c)

            @staticmethod
            def chain(*ts):
                log.append(("chain", ts))
                return ("chain", ts)

        with extract.patched((mod, "optax", FakeOptax)):
            algo = cls(max_grad_norm=0.37, learning_rate=1e-3, **kwargs)
        opt = algo.optimizer
        ok = (isinstance(opt, tuple) and opt[0] == "chain" and len(opt[1]) == 2 and opt[1][0] == ("clip", 0.37) and opt[1][1][0] == "inject"
              and opt[1][1][1] == ("adam",) and opt[1][1][2] == (1e-3,))
        S.fact(f"{name}.__init__/optimizer", ok, function=fn_init, what="optimizer = chain(clip_by_global_norm(max_grad_norm), inject_hyperparams(adam)(learning_rate)): gradients are clipped by global norm, then Adam",
               detail=str(opt)[:300])
        g = getattr(cls, gradname)
        inner = getattr(g, "__wrapped__", None)
        S.fact(f"{name}.{gradname}/is-value-and-grad-of-the-loss", type(g).__name__ == "_ValueAndGradWrapper" and getattr(g._fun, "__func__", g._fun) is getattr(cls, lossname) and g._has_aux is True and not g._gradkwargs,
               function=f"lerax.algorithm:{name}.{gradname}", what=f"{gradname} = eqx.filter_value_and_grad({lossname}, has_aux=True): jax's gradient of the loss proved above w.r.t. the policy's inexact arrays",
               detail=dict(type=type(g).__name__))
        # train step: policy' = apply_updates(policy, OPT.update(grads, opt_state, params)[0])
        ctx = Ctx()
        (B,) = symbolic_dims("B")
        space = Box(-jnp.ones((2,)), jnp.ones((2,)))
        pol0 = GenericActorCriticPolicy(space, Box(-jnp.inf, jnp.inf, (2,)))
        pol = sym(ctx, "pi", pol0)
        buf = sym(ctx, "buf", buffer_struct(B))
        ost = sym(ctx, "opt_state", sd((3,), f32))
        pstruct = jax.tree.map(lambda x: sd(x.shape, x.dtype), eqx.filter(pol0, eqx.is_inexact_array))

        def grad_stub(policy, buffer, *rest, **kw):
            loss, gtheta = opaque.ocall("LOSSGRAD#", (sd((), f32), sd((2,), f32)), policy.theta, buffer.advantages[0])
            grads = eqx.tree_at(lambda p: p.theta, jax.tree.map(lambda x: jnp.zeros_like(x), eqx.filter(policy, eqx.is_inexact_array)), gtheta)
            nstats = {PPO: 5, A2C: 4, REINFORCE: 3}[cls]
            statcls = {PPO: "PPOStats", A2C: "A2CStats", REINFORCE: "REINFORCEStats"}[cls]
            st = getattr(mod, statcls)(*([loss] * nstats))
            return (loss, st), grads

        class GenericOpt:
            def update(self, grads, state, params=None):
                upd, nst = opaque.ocall("OPT.update#", (sd((2,), f32), sd((3,), f32)), grads.theta, state, params.theta)
                return eqx.tree_at(lambda p: p.theta, grads, upd), nst

        algo2 = cls(**kwargs)
        algo2 = eqx.tree_at(lambda a: a.optimizer, algo2, GenericOpt())
        with extract.patched((cls, gradname, staticmethod(grad_stub))):
            if cls is PPO:
                newp, nost, _ = run(ctx, lambda a, p, o, b: a.train_batch(p, o, b), algo2, pol, ost, buf)
            else:
                newp, nost, _ = run(ctx, lambda a, p, o, b: a.train(p, o, b, key=jax.random.key(0)), algo2, pol, ost, buf)
        lg = [c for c in ctx.calls if c.name == "LOSSGRAD#"]
        up = [c for c in ctx.calls if c.name == "OPT.update#"]
        S.fact(f"{name}.train/one-gradient-one-update", len(lg) == 1 and len(up) == 1, function=fn_train, what="one loss gradient and one optimiser update per (mini)batch")
        if len(lg) == 1 and len(up) == 1:
            g_out = lg[0].outputs[1]
            S.prove(f"{name}.train/update-uses-loss-gradient-state-params", ctx, sand(kit.arr_eq_at(up[0].operands[0], g_out, ()), kit.arr_eq_at(up[0].operands[1], ost, ()),
                                                                                  kit.arr_eq_at(up[0].operands[2], pol.theta, ())), function=fn_train,
                    what="optimizer.update receives the loss gradient, the current optimiser state and the policy's parameters")
            S.prove(f"{name}.train/apply-updates", ctx, sand(*[ir.seq(newp.theta.at(i), ir.zreal(pol.theta.at(i)) + ir.zreal(up[0].outputs[0].at(i))) for i in range(2)],
                                                             kit.arr_eq_at(nost, up[0].outputs[1], ())), function=fn_train,
                    what="new parameters = parameters + updates (eqx.apply_updates); new optimiser state is the optimiser's")


def _collected_data(cfg):
    """'on data collected by the current policy every ratio is 1': the rollout stores, next to each action, the policy's own log-probability of exactly that stored action (the
    on-policy step contract stated in C04: stored-sample-reevaluates); with ppo/ratio = exp(new log-prob - stored log-prob) (units ppo:*) the first ratio is 1 and approx_kl is 0"""
    def unit(S):
        from contracts import C04
        C04.unit_step(cfg)(S)
    return unit


def _ctor_unit():
    from contracts import _ctor
    from lerax.algorithm import REINFORCE
    return _ctor.unit_constructor([(PPO, {}, ("clip_coefficient", "entropy_loss_coefficient", "value_loss_coefficient", "max_grad_norm")),
                                   (A2C, {}, ("entropy_loss_coefficient", "value_loss_coefficient", "max_grad_norm")), (REINFORCE, {}, ("value_loss_coefficient", "max_grad_norm"))])


UNITS = [("constructor", _ctor_unit())] + [(f"collected-data:{c}", _collected_data(c)) for c in ("PPO/box", "PPO/discrete-masked", "A2C/box")] + [(f"ppo:{n}:{c}", unit_ppo(n, c)) for n in (False, True) for c in (False, True)] + [("ppo-lemmas", unit_ppo_lemmas), ("a2c-reinforce", unit_pg), ("optimizer", unit_optimizer)]
