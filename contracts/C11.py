"""C11 - Training is reproducible, pure, and unaffected by observers.

Frame / dependency clauses on the real reset / iteration / step / learn of the algorithm families:
 (a) function of its inputs: the extracted programs are closed (re-extraction yields the identical jaxpr), carry no io_callback and no donated
     buffers, and no lerax function writes to module-level state (AST frame check over the whole package) - with A-XLA this is bit-reproducibility;
 (b) observers: with generic (uninterpreted) callbacks, no callback result reaches the policy, optimiser state, environment state, policy state,
     buffers or rollout - callback results flow only into callback state (term-level dependency analysis on the translated programs).
"""
from __future__ import annotations

import ast
import json
import os

import equinox as eqx
import jax
import jax.numpy as jnp
import numpy as np
import z3

from lerax.algorithm import PPO, A2C, REINFORCE, DQN, SAC
from lerax.algorithm.base_algorithm import AbstractAlgorithm
from lerax.algorithm.on_policy import AbstractOnPolicyState, AbstractOnPolicyStepState, AbstractOnPolicyAlgorithm
from lerax.algorithm.off_policy import AbstractOffPolicyAlgorithm, AbstractOffPolicyState, AbstractOffPolicyStepState
from lerax.buffer import ReplayBuffer
from lerax.callback import CallbackList
from lerax.space import Box, Discrete

from lvc import kit, ir, extract
from lvc.extract import run, sym
from lvc.generic import GenericEnv, GenericActorCriticPolicy, GenericQPolicy, GenericPolicy, GPState, GState, SimpleCallback, GCbStep, GCbState
from lvc.kit import Ctx, sand, uf_names_of
from lvc.opaque import ocall

PROPERTY = "C11"
TRUSTED = ["A-XLA: a closed jaxpr executes deterministically on CPU (bit-reproducibility of equal programs on equal inputs)", "A-PURE",
           "equinox modules are immutable; jax arrays are immutable (the policy passed in cannot be modified without donation)"]
ASSUMPTIONS = ["generic callbacks stand for every observer that is a function of its context and key; LoggingCallback / ProgressBarCallback are covered by the effect inventory"]
DROPS = ["D1: num_envs == 1 resolved per configuration"]
NOT_DECIDED = ["'different keys yield different runs' for ALL keys: an inequality between results of uninterpreted computations; symbolically only that the result DEPENDS on the key is shown, plus a bounded native check on four keys"]
sd = jax.ShapeDtypeStruct
f32 = jnp.float32
OBS = Box(-jnp.ones((2,)), jnp.ones((2,)))
PKG = os.path.join(os.environ.get("LVC_REPO", "/repo"), "src", "lerax")      # LVC_REPO: developer tools only (a scratch worktree); registered commands check /repo


def _is_set_expr(e):
    if isinstance(e, (ast.Set, ast.SetComp)) or (isinstance(e, ast.Call) and isinstance(e.func, ast.Name) and e.func.id in ("set", "frozenset")):
        return True
    # set algebra: a & b, a | b, a - b, a ^ b where an operand is a set or a dict view (.keys() / .items()); s.intersection(...), s.union(...), ...
    view = lambda x: isinstance(x, ast.Call) and isinstance(x.func, ast.Attribute) and x.func.attr in ("keys", "items") and not x.args
    if isinstance(e, ast.BinOp) and isinstance(e.op, (ast.BitAnd, ast.BitOr, ast.Sub, ast.BitXor)):
        return any(view(x) or _is_set_expr(x) for x in (e.left, e.right))
    if isinstance(e, ast.Call) and isinstance(e.func, ast.Attribute) and e.func.attr in ("intersection", "union", "difference", "symmetric_difference"):
        return view(e.func.value) or _is_set_expr(e.func.value)
    return False


def _dotted(node):
    parts = []
    while isinstance(node, ast.Attribute):
        parts.append(node.attr)
        node = node.value
    if isinstance(node, ast.Name):
        parts.append(node.id)
        return ".".join(reversed(parts))
    return None


def _const_kind(e, bound=None):
    """'str' / 'int' / None: what the hash of expression e certainly depends on.  str / bytes constants (and containers of them) hash with the per-process salt; int / bool / None
    constants (and tuples of them) hash identically in every process.  Names are resolved through `bound` (loop / comprehension targets over literal sequences)."""
    if isinstance(e, ast.Constant):
        return "str" if isinstance(e.value, (str, bytes)) else ("int" if isinstance(e.value, (int, bool, type(None))) else None)
    if isinstance(e, ast.JoinedStr):
        return "str"
    if isinstance(e, (ast.Tuple, ast.List, ast.Set)) and e.elts:
        kinds = {_const_kind(x, bound) for x in e.elts}
        return "str" if "str" in kinds else ("int" if kinds == {"int"} else None)
    if isinstance(e, ast.Name) and bound and e.id in bound:
        return bound[e.id]
    if isinstance(e, ast.BinOp):
        kinds = {_const_kind(e.left, bound), _const_kind(e.right, bound)}
        return "str" if "str" in kinds else ("int" if kinds == {"int"} else None)
    return None


def _loop_bindings(fnode):
    """names bound by `for x in <literal sequence>` / comprehension generators over literal sequences, with the kind of the elements"""
    out = {}
    for n in ast.walk(fnode):
        gens = n.generators if isinstance(n, (ast.ListComp, ast.SetComp, ast.DictComp, ast.GeneratorExp)) else ([n] if isinstance(n, ast.For) else [])
        for g in gens:
            if isinstance(g.target, ast.Name) and isinstance(g.iter, (ast.Tuple, ast.List, ast.Set)):
                k = _const_kind(g.iter)
                if k:
                    out[g.target.id] = k
    return out


def _set_elem_kind(e, setdefs, bound):
    if isinstance(e, ast.Name) and e.id in setdefs:
        e = setdefs[e.id]
    if isinstance(e, ast.Set):
        return _const_kind(e, bound)
    if isinstance(e, ast.Call) and e.args:
        return _const_kind(e.args[0], bound)
    return None


SOFT = "[needs a native witness] "


def python_state_offenders():
    """AST scan of the lerax sources for process-level state: returns (offenders, number of files, number of functions)"""
    MUT = {"append", "extend", "insert", "pop", "remove", "clear", "update", "setdefault", "add", "discard", "popitem", "sort", "reverse", "__setitem__"}
    offenders, nfiles, nfuncs = [], 0, 0
    for root, _, files in os.walk(PKG):
        if "/render" in root or "/export" in root:
            continue
        for f in files:
            if not f.endswith(".py"):
                continue
            path = os.path.join(root, f)
            tree = ast.parse(open(path).read())
            nfiles += 1
            modlevel = set()
            for node in tree.body:
                targets = []
                if isinstance(node, ast.Assign):
                    targets = node.targets
                    val = node.value
                elif isinstance(node, ast.AnnAssign) and node.value is not None:
                    targets = [node.target]
                    val = node.value
                else:
                    continue
                mutable = isinstance(val, (ast.Dict, ast.List, ast.Set, ast.DictComp, ast.ListComp, ast.SetComp)) or (
                    isinstance(val, ast.Call) and isinstance(val.func, ast.Name) and val.func.id in ("dict", "list", "set", "defaultdict", "OrderedDict", "deque"))
                for t in targets:
                    if isinstance(t, ast.Name) and mutable and t.id != "__all__":
                        modlevel.add(t.id)
            for fnode in ast.walk(tree):
                if not isinstance(fnode, (ast.FunctionDef, ast.AsyncFunctionDef, ast.Lambda)):
                    continue
                nfuncs += 1
                # mutable default arguments that the function mutates: state shared by all calls in the process
                a_ = fnode.args
                pos = a_.posonlyargs + a_.args
                defaults = list(zip(pos[len(pos) - len(a_.defaults):], a_.defaults)) + [(p, d) for p, d in zip(a_.kwonlyargs, a_.kw_defaults) if d is not None]
                for p, d in defaults:
                    is_mut = isinstance(d, (ast.Dict, ast.List, ast.Set, ast.DictComp, ast.ListComp, ast.SetComp)) or (
                        isinstance(d, ast.Call) and isinstance(d.func, ast.Name) and d.func.id in ("dict", "list", "set", "defaultdict", "OrderedDict", "deque"))
                    if not is_mut:
                        continue
                    for n in ast.walk(fnode):
                        hit = (isinstance(n, ast.Call) and isinstance(n.func, ast.Attribute) and isinstance(n.func.value, ast.Name) and n.func.value.id == p.arg and n.func.attr in MUT) or (
                            isinstance(n, (ast.Assign, ast.AugAssign)) and any(isinstance(t, ast.Subscript) and isinstance(t.value, ast.Name) and t.value.id == p.arg
                                                                               for t in (n.targets if isinstance(n, ast.Assign) else [n.target]))) or (
                            isinstance(n, ast.AugAssign) and isinstance(n.target, ast.Name) and n.target.id == p.arg)
                        if hit:
                            offenders.append(f"{path}:{n.lineno} mutates its mutable default argument `{p.arg}` (shared across calls)")
                            break
                # iteration over a set: the order of a set of strings is salted per process (PYTHONHASHSEED) - a hidden input of everything derived from that order
                setnames, setdefs = set(), {}
                bound = _loop_bindings(fnode)
                for n in ast.walk(fnode):
                    if isinstance(n, ast.Assign) and len(n.targets) == 1 and isinstance(n.targets[0], ast.Name) and _is_set_expr(n.value):
                        setnames.add(n.targets[0].id)
                        setdefs[n.targets[0].id] = n.value
                is_set = lambda e: _is_set_expr(e) or (isinstance(e, ast.Name) and e.id in setnames)
                for n in ast.walk(fnode):
                    iters = []
                    # only forms whose RESULT is ordered (a plain `for` over a set used for order-insensitive work, or a set comprehension, is harmless)
                    if isinstance(n, (ast.ListComp, ast.DictComp, ast.GeneratorExp)):
                        iters += [g.iter for g in n.generators]
                    if isinstance(n, ast.Call) and isinstance(n.func, ast.Name) and n.func.id in ("zip", "list", "tuple", "enumerate", "iter", "next", "dict", "map"):
                        iters += list(n.args)
                    if isinstance(n, ast.Starred):
                        iters.append(n.value)
                    for it in iters:
                        if is_set(it):
                            kind = _set_elem_kind(it, setdefs, bound)
                            if kind == "int":
                                continue        # integers hash to themselves: the order is the same in every process
                            offenders.append(("" if kind == "str" else SOFT) + f"{path}:{getattr(n, 'lineno', 0)} iterates over a set (order depends on the per-process hash salt): {ast.unparse(it)[:60]}")
                # values that differ from one interpreter process to the next: builtin hash() (salted for str/bytes, address-based for objects; `__hash__`/`__eq__` bodies implement
                # the protocol and are exempt), id(), the process id, wall-clock time, OS entropy, the process-global `random` / `numpy.random` generators
                if not (isinstance(fnode, ast.FunctionDef) and fnode.name in ("__hash__", "__eq__")):
                    for n in ast.walk(fnode):
                        if not isinstance(n, ast.Call):
                            continue
                        d = _dotted(n.func) or ""
                        if d == "id":
                            offenders.append(f"{path}:{n.lineno} uses builtin id() (object addresses differ between interpreter processes): {ast.unparse(n)[:60]}")
                        elif d == "hash":
                            kind = _const_kind(n.args[0], _loop_bindings(fnode)) if n.args else None
                            if kind == "int":
                                continue        # hash of integers / tuples of integers is the same in every process
                            offenders.append(("" if kind == "str" else SOFT) + f"{path}:{n.lineno} uses builtin hash() (salted per interpreter process for str / bytes, address-based for plain objects): {ast.unparse(n)[:60]}")
                        elif d in ("os.getpid", "os.urandom", "time.time", "time.time_ns", "time.perf_counter", "time.monotonic", "uuid.uuid1", "uuid.uuid4") or d.startswith(("secrets.", "np.random.", "numpy.random.", "random.")):
                            if "/callback/" in path and d.startswith("time."):
                                continue        # observers may read the clock (rates, progress bars): that observers do not change training is the with/without-observer obligations
                            offenders.append(f"{path}:{n.lineno} reads a process-dependent value ({d}): a hidden input")
                for n in ast.walk(fnode):
                    if isinstance(n, ast.Global):
                        offenders.append(f"{path}:{n.lineno} global {','.join(n.names)}")
                    # process-wide JAX configuration (jax.config.update(...), jax.config.<flag> = ...): numerics of every later computation in the process change
                    if isinstance(n, ast.Call) and isinstance(n.func, ast.Attribute) and n.func.attr == "update" and _dotted(n.func.value) in ("jax.config", "config", "jax._src.config.config"):
                        offenders.append(f"{path}:{n.lineno} changes the process-wide JAX configuration ({ast.unparse(n)[:80]})")
                    if isinstance(n, (ast.Assign, ast.AugAssign)):
                        for t in (n.targets if isinstance(n, ast.Assign) else [n.target]):
                            if isinstance(t, ast.Attribute) and _dotted(t.value) == "jax.config":
                                offenders.append(f"{path}:{n.lineno} assigns the process-wide JAX configuration flag {t.attr}")
                    if isinstance(n, (ast.Assign, ast.AugAssign)):
                        tg = n.targets if isinstance(n, ast.Assign) else [n.target]
                        for t in tg:
                            if isinstance(t, ast.Subscript) and isinstance(t.value, ast.Name) and t.value.id in modlevel:
                                offenders.append(f"{path}:{n.lineno} writes module-level {t.value.id}[...]")
                    if isinstance(n, ast.Call) and isinstance(n.func, ast.Attribute) and isinstance(n.func.value, ast.Name) and n.func.value.id in modlevel and n.func.attr in MUT:
                        offenders.append(f"{path}:{n.lineno} mutates module-level {n.func.value.id}.{n.func.attr}()")
            # import-time changes of the process-wide JAX configuration (module level, outside any function)
            for n in ast.walk(tree):
                if isinstance(n, ast.Call) and isinstance(n.func, ast.Attribute) and n.func.attr == "update" and _dotted(n.func.value) in ("jax.config", "config", "jax._src.config.config"):
                    msg = f"{path}:{n.lineno} changes the process-wide JAX configuration ({ast.unparse(n)[:80]})"
                    if msg not in offenders:
                        offenders.append(msg)
    return offenders, nfiles, nfuncs


def native_process_replay(model):
    """R1: three fresh interpreters with different string-hash salts (PYTHONHASHSEED=1 / 2 / 3 - what separately launched python processes get by default) run reset, one iteration and
    a short learn of PPO (array and Dict observations), DQN and SAC from the same keys and print a digest of every array in the result; the digests must agree."""
    import subprocess
    import sys
    prog = r"""
import hashlib, json, jax, numpy as np
import equinox as eqx
from jax import random as jr
from lerax.algorithm import PPO, A2C, REINFORCE, DQN, SAC
from lerax.env.classic_control import CartPole, Pendulum
from lerax.policy import MLPActorCriticPolicy, MLPQPolicy, MLPSACPolicy
from lerax.callback import EmptyCallback
def digest(t):
    h = hashlib.sha256()
    for l in jax.tree.leaves(eqx.filter(t, eqx.is_array)):
        if jax.dtypes.issubdtype(l.dtype, jax.dtypes.prng_key):
            l = jr.key_data(l)
        h.update(np.asarray(l).tobytes())
    return h.hexdigest()[:16]
out = {}
cp, pd = CartPole(), Pendulum()
from collections import OrderedDict
from lerax.space import Box, Dict
from lerax.wrapper import TransformObservation
names = ("cart_position", "cart_velocity", "pole_angle", "pole_angular_velocity")
lo, hi = cp.observation_space.low, cp.observation_space.high
dcp = TransformObservation(cp, lambda o: OrderedDict((n, o[i:i + 1]) for i, n in enumerate(names)), Dict(OrderedDict((n, Box(lo[i:i + 1], hi[i:i + 1])) for i, n in enumerate(names))))
for name, algo, env, pol in (
    ("PPO/dict-observation", PPO(num_envs=1, num_steps=4, num_batches=1, num_epochs=1), dcp, MLPActorCriticPolicy(dcp, key=jr.key(0))),
    ("PPO", PPO(num_envs=1, num_steps=4, num_batches=1, num_epochs=1), cp, MLPActorCriticPolicy(cp, key=jr.key(0))),
    ("DQN", DQN(num_envs=1, buffer_size=16, learning_starts=2, batch_size=2, num_steps=2), cp, MLPQPolicy(cp, width_size=4, depth=1, key=jr.key(0))),
    ("SAC", SAC(num_envs=1, buffer_size=16, learning_starts=2, batch_size=2, num_steps=2, q_width_size=4, q_depth=1), pd, MLPSACPolicy(pd, feature_size=4, width_size=4, depth=1, key=jr.key(0)))):
    try:
        cb = None
        import lerax.callback as C
        for cand in ("EmptyCallback", "CallbackList"):
            try:
                cb = getattr(C, cand)() if cand == "EmptyCallback" else getattr(C, cand)([])
                break
            except Exception:
                cb = None
        st = algo.reset(env, pol, key=jr.key(1), callback=cb)
        out[name + ".reset"] = digest(st)
        st = algo.iteration(st, key=jr.key(2), callback=cb)
        out[name + ".iteration"] = digest(st)
        out[name + ".learn"] = digest(algo.learn(env, pol, total_timesteps=8, key=jr.key(3)))
    except Exception as e:
        out[name + ".error"] = type(e).__name__ + ": " + str(e)[:100]
print("DIGEST " + json.dumps(out, sort_keys=True))
"""
    outs = []
    procs = [subprocess.Popen([sys.executable, "-c", prog], stdout=subprocess.PIPE, stderr=subprocess.PIPE, text=True, env=dict(os.environ, JAX_PLATFORMS="cpu", PYTHONHASHSEED=s)) for s in ("1", "2", "3")]
    for p in procs:
        so, se = p.communicate(timeout=900)
        line = [l for l in so.splitlines() if l.startswith("DIGEST ")]
        if not line:
            return dict(reproduced=False, note="fresh interpreter failed: " + se[-300:])
        outs.append(json.loads(line[-1][7:]))
    diff = {k_: [o.get(k_) for o in outs] for k_ in sorted(set().union(*outs)) if len({o.get(k_) for o in outs}) > 1 and not k_.endswith(".error")}
    errs = {k_: v for k_, v in outs[0].items() if k_.endswith(".error")}
    if diff:
        return dict(reproduced=True, route="R1 (three fresh interpreters, PYTHONHASHSEED=1 / 2 / 3, same key / environment / policy / hyper-parameters)", inputs=dict(PYTHONHASHSEED=["1", "2", "3"]),
                    observed=dict(state_digests_that_differ=diff))
    return dict(reproduced=False, note="digests of the state after reset and one iteration and of the policy returned by learn agree across interpreters with different hash salts", errors=errs or None, digests=outs[0])


def native_config_replay(model):
    """R1: two fresh interpreters - one importing only jax, one importing jax and then every lerax sub-package - print the JAX configuration values that change numerics or random streams;
    importing lerax must leave them as they are."""
    import subprocess
    import sys
    flags = ["jax_enable_x64", "jax_default_prng_impl", "jax_threefry_partitionable", "jax_default_matmul_precision", "jax_numpy_dtype_promotion", "jax_numpy_rank_promotion", "jax_disable_jit"]
    prog = "import jax, json\n{imp}\nprint(json.dumps({{f: str(getattr(jax.config, f, None)) for f in %r}}))" % (flags,)
    imp = "import lerax, lerax.algorithm, lerax.env, lerax.policy, lerax.distribution, lerax.space, lerax.buffer, lerax.wrapper, lerax.callback, lerax.benchmark"
    env = dict(os.environ, JAX_PLATFORMS="cpu")
    outs = []
    for code in (prog.format(imp=""), prog.format(imp=imp)):
        r = subprocess.run([sys.executable, "-c", code], capture_output=True, text=True, env=env, timeout=600)
        line = [l for l in r.stdout.splitlines() if l.startswith("{")]
        if not line:
            return dict(reproduced=False, note="could not read the configuration from a fresh interpreter: " + r.stderr[-200:])
        outs.append(json.loads(line[-1]))
    diff = {k_: [outs[0][k_], outs[1][k_]] for k_ in flags if outs[0][k_] != outs[1][k_]}
    if diff:
        return dict(reproduced=True, route="R1 (fresh interpreters: `import jax` vs `import jax` + every lerax sub-package)", inputs=dict(flags=flags), observed=dict(changed_by_importing_lerax=diff))
    return dict(reproduced=False, note="importing lerax leaves the JAX configuration untouched")


def unit_frame_ast(S):
    """No function in lerax writes module-level state (global statements, or mutation of module-level mutable containers)."""
    fn = "lerax/** (AST frame check)"
    S.under_contract(fn)
    offenders, nfiles, nfuncs = python_state_offenders()
    hard = [o for o in offenders if not o.startswith(SOFT)]
    soft = [o[len(SOFT):] for o in offenders if o.startswith(SOFT)]
    nat = native_config_replay(None) if any("JAX configuration" in o for o in hard) else None
    if not (nat and nat.get("reproduced")) and (soft or any("interpreter process" in o or "process-dependent" in o or "hash salt" in o for o in hard)):
        nat = native_process_replay(None)
    natr = bool(nat and nat.get("reproduced"))
    what = (f"none of the {nfuncs} functions in {nfiles} lerax source files (render/export excluded) declares `global`, mutates a module-level mutable container or a mutable default, changes the JAX "
            "configuration, derives an order from a set of strings, or reads a per-process value (hash() of strings / id() outside __hash__/__eq__, pid, clock, OS entropy, global RNGs): results cannot "
            "depend on what was constructed or run earlier in the process, nor on which process runs them")
    if soft and not hard and not natr:
        # hash() / set order over values whose type the scan cannot see (hash of integers is process-independent): a verdict needs the native witness
        S.undecided("frame/no-writes-to-module-level-state", "the scan found hash() / set-order uses whose argument types it cannot see, and the two-interpreter replay (different hash salts) "
                    "shows no difference: " + "; ".join(soft[:4]), function=fn, what=what)
    else:
        S.fact("frame/no-writes-to-module-level-state", not hard and not (soft and natr) and nfiles > 50, function=fn, what=what, shape=False,
               detail=(hard + soft)[:10], replay=lambda m: (nat if natr else dict(reproduced=bool(hard), route="static (AST)", observed=hard[:10])))
    if S.tier == "thorough":
        r = native_process_replay(None)
        S.bounded_check("process/state-digests-agree-across-hash-salts", not r.get("reproduced") and not r.get("errors") and "digests" in r, bound="PPO (array and Dict observation spaces), DQN, SAC: reset + one iteration + learn(total_timesteps=8), three fresh interpreters with PYTHONHASHSEED=1 / 2 / 3",
                        function=fn, what="the state after reset and one iteration is bit-identical in two interpreter processes with different string-hash salts", detail=r, replay=lambda m: r)
    l = AbstractAlgorithm.learn
    S.fact("learn/no-buffer-donation", getattr(l, "donate_first", None) is False and getattr(l, "donate_rest", None) is False, function="lerax.algorithm.base_algorithm:AbstractAlgorithm.learn",
           what="learn is jitted without donating its arguments: the policy (and environment) passed in are left untouched")
    # behavioural fingerprint: an algorithm built after another one with different hyper-parameters uses ITS OWN configuration
    bad = []
    for cls, kw in ((PPO, dict(num_envs=1, num_steps=4, num_batches=1)), (A2C, dict(num_envs=1, num_steps=4)), (REINFORCE, dict(num_envs=1, num_steps=4)), (DQN, dict(num_envs=1, buffer_size=8, learning_starts=1, batch_size=1))):
        cls(max_grad_norm=0.125, learning_rate=1e-3, **kw)
        b = cls(max_grad_norm=0.375, learning_rate=1e-3, **kw)
        params = {"w": jnp.ones((3,))}
        txt = str(jax.make_jaxpr(lambda g, p: b.optimizer.update(g, b.optimizer.init(p), p))(params, params))
        if "0.375" not in txt or "0.125" in txt:
            bad.append(cls.__name__)
    S.fact("construction/independent-of-earlier-instances", not bad, function="lerax.algorithm:*.__init__",
           what="the optimiser of an algorithm instance clips at ITS max_grad_norm even when another instance with the same learning rate was built first (no hidden sharing between instances)", detail=bad,
           replay=lambda m: dict(reproduced=bool(bad), route="R1", observed=bad))


def _on_state(env0, pol0, cbstate_struct, cb_struct, lanes=None):
    L = () if lanes is None else (lanes,)
    mk = lambda c, x, h, th, o: AbstractOnPolicyState(c, AbstractOnPolicyStepState(GState(x), GPState(h), None), env0, eqx.tree_at(lambda p: p.theta, pol0, th), o, None)
    st = jax.eval_shape(mk, sd((), jnp.int32), sd(L + (2,), f32), sd(L + (1,), f32), sd((2,), f32), sd((3,), f32))
    return st


def _cb_leaves(tree):
    return kit.leaves(tree)


def native_observer_replay(algo_name):
    """R1: real learn() on a real environment with callback=None vs an attached (effect-free) observer and vs an observer list, same key; compared under both settings of
    jax_threefry_partitionable (the property must not hinge on prefix-stability of jax.random.split, which JAX does not promise)."""
    def replay(model):
        from lerax.env.classic_control import CartPole
        from lerax.policy import MLPActorCriticPolicy, MLPQPolicy
        env = CartPole()
        old = jax.config.jax_threefry_partitionable
        try:
            for flag in (old, not old):
                jax.config.update("jax_threefry_partitionable", flag)
                if algo_name == "DQN":
                    algo = DQN(num_envs=1, buffer_size=32, learning_starts=4, num_steps=2, batch_size=4)
                    pol = MLPQPolicy(env, width_size=4, depth=1, key=jax.random.key(0))
                else:
                    algo = {"PPO": lambda: PPO(num_envs=1, num_steps=8, num_batches=2, num_epochs=1), "A2C": lambda: A2C(num_envs=1, num_steps=8)}[algo_name]()
                    pol = MLPActorCriticPolicy(env, feature_size=4, feature_width=4, feature_depth=1, value_width=4, value_depth=1, action_width=4, action_depth=1, key=jax.random.key(0))
                key = jax.random.key(3)
                outs = {}
                for nm, cb in (("none", None), ("observer", SimpleCallback("cb")), ("list", [SimpleCallback("cb1"), SimpleCallback("cb2")])):
                    outs[nm] = algo.learn(env, pol, 24, key=key, callback=cb)
                ref = jax.tree.leaves(eqx.filter(outs["none"], eqx.is_inexact_array))
                for nm in ("observer", "list"):
                    pairs = [(np.asarray(a, np.float64), np.asarray(b, np.float64)) for a, b in zip(ref, jax.tree.leaves(eqx.filter(outs[nm], eqx.is_inexact_array)))]
                    d = max([float(np.nanmax(np.abs(a - b))) if a.size and not np.all(np.isnan(a - b)) else 0.0 for a, b in pairs] + [0.0])
                    if d > 0 or any(not np.array_equal(np.isnan(a), np.isnan(b)) for a, b in pairs):
                        return dict(reproduced=True, route=f"R1 (real {algo_name}.learn on CartPole, 24 timesteps, same key, callback=None vs attached observer)",
                                    inputs=dict(jax_threefry_partitionable=flag, observer=nm, key=3), observed=dict(max_abs_parameter_difference=d))
        finally:
            jax.config.update("jax_threefry_partitionable", old)
        return dict(reproduced=False, note="trained parameters identical with and without observers under both PRNG split implementations")
    return replay


def unit_observers_on_policy(S):
    """PPO.iteration with real collection (num_steps = 2, unrolled), generic env / policy, training abstracted (TRAIN# sees the whole rollout):
    nothing a callback returns reaches the new policy, optimiser state, env/policy state or the rollout."""
    fn = "lerax.algorithm.on_policy:AbstractOnPolicyAlgorithm.iteration"
    S.under_contract(fn, "lerax.algorithm.on_policy:AbstractActorCriticOnPolicyAlgorithm.step", "lerax.callback.list:CallbackList")
    for cbname, mkcb in (("generic", lambda: SimpleCallback("cb")), ("CallbackList[generic,generic]", lambda: CallbackList([SimpleCallback("cb1"), SimpleCallback("cb2")]))):
        ctx = Ctx()
        algo = PPO(num_envs=1, num_steps=2, num_batches=1)
        env0 = GenericEnv(Discrete(3), observation_space=OBS)
        pol0 = GenericActorCriticPolicy(env0.action_space, OBS)
        cb = mkcb()
        k, kc = kit.key_input("key")
        env, pol = sym(ctx, "env", env0), sym(ctx, "pi", pol0)

        def train_stub(self, policy_, opt_state, buffer, *, key):
            th, o = ocall("TRAIN#", (sd((2,), f32), sd((3,), f32)), policy_.theta, opt_state, key, jax.tree.leaves(buffer))
            return eqx.tree_at(lambda p: p.theta, policy_, th), o, {"loss": jnp.sum(th)}
        with extract.patched((PPO, "train", train_stub)):
            st0 = run(ctx, lambda a, e, p, kk: a.reset(e, p, key=kk, callback=cb), algo, env, pol, k)
            k2, kc2 = kit.key_input("key2")
            st1 = run(ctx, lambda a, s, kk: a.iteration(s, key=kk, callback=cb), algo, st0, k2)
        tag = f"PPO[{cbname}]"
        prot = dict(policy=kit.leaves(st1.policy), opt_state=kit.leaves(st1.opt_state), env_state=kit.leaves(st1.step_state.env_state), policy_state=kit.leaves(st1.step_state.policy_state),
                    iteration_count=[st1.iteration_count])
        leaked = {}
        for nm, ls in prot.items():
            names = uf_names_of(ls, ctx)
            bad = sorted(n for n in names if n.startswith("cb"))
            if bad:
                leaked[nm] = bad
        S.fact(f"{tag}/callback-results-do-not-reach-training-state", not leaked, function=fn,
               what="new policy, optimiser state, environment state, policy state and counter do not depend on anything a callback returned (reset, step or iteration hooks)", detail=leaked)
        cbl = kit.leaves(st1.step_state.callback_state) + kit.leaves(st1.callback_state)
        names_cb = uf_names_of(cbl, ctx)
        S.fact(f"{tag}/callback-state-threads-callback-results", any(n.startswith("cb") for n in names_cb), function=fn, what="non-vacuity: callback results do flow into the callback state")
        names_pol = uf_names_of(prot["policy"], ctx)
        S.fact(f"{tag}/policy-depends-on-training-and-key", any(n.startswith("TRAIN#") for n in names_pol) and any("split" in n for n in names_pol), function=fn,
               what="the new policy is the training update, and depends on the PRNG key (necessary for different keys to give different runs)")
        # the training update sees a rollout free of callback influence
        tr = [c for c in ctx.calls if c.name == "TRAIN#"]
        if tr:
            nb = uf_names_of(tr[-1].operands, ctx)
            S.fact(f"{tag}/rollout-independent-of-callbacks", not any(n.startswith("cb") for n in nb), function=fn, what="the rollout and keys handed to training do not depend on callback results")
        effs = [e for e in ctx.effects]
        S.fact(f"{tag}/no-host-effects-with-pure-callbacks", not effs, function=fn, what="with effect-free callbacks the iteration has no host effects at all (no io_callback, no debug callback)", detail=[e[0] for e in effs])

    # relational: the SAME run with no observer (the empty CallbackList that learn(callback=None) builds), with one observer and with an observer list: every protected output is the same term
    for algo_name, mk in (("PPO", lambda: PPO(num_envs=1, num_steps=2, num_batches=1)), ("A2C", lambda: A2C(num_envs=1, num_steps=2))):
        ctx = Ctx()
        algo = mk()
        env0 = GenericEnv(Discrete(3), observation_space=OBS)
        pol0 = GenericActorCriticPolicy(env0.action_space, OBS)
        k, kc = kit.key_input("key")
        k2, kc2 = kit.key_input("key2")
        env, pol = sym(ctx, "env", env0), sym(ctx, "pi", pol0)

        def train_stub(self, policy_, opt_state, buffer, *, key):
            th, o = ocall("TRAIN#", (sd((2,), f32), sd((3,), f32)), policy_.theta, opt_state, key, jax.tree.leaves(buffer))
            return eqx.tree_at(lambda p: p.theta, policy_, th), o, {"loss": jnp.sum(th)}
        runs = {}
        with extract.patched((type(algo), "train", train_stub)):
            for nm, cb in (("none", algo.consolidate_callbacks(None)), ("observer", SimpleCallback("cb")), ("list", algo.consolidate_callbacks([SimpleCallback("cb1"), SimpleCallback("cb2")]))):
                s0 = run(ctx, lambda a, e, p, kk, cb=cb: a.reset(e, p, key=kk, callback=cb), algo, env, pol, k)
                runs[nm] = run(ctx, lambda a, s, kk, cb=cb: a.iteration(s, key=kk, callback=cb), algo, s0, k2)
        prot = lambda s: (s.policy, s.opt_state, s.step_state.env_state, s.step_state.policy_state, s.iteration_count)
        for nm in ("observer", "list"):
            S.prove(f"{algo_name}/with-{nm}-equals-without-observer", ctx, kit.tree_eq(prot(runs[nm]), prot(runs["none"])), function=fn, replay=native_observer_replay(algo_name),
                    what="reset + iteration with an attached observer yields the same policy, optimiser state, environment / policy state and counter as the run without observers "
                         "(same keys; jax.random.split(k, n)[i] modelled as an uninterpreted function of (k, n, i): no reliance on prefix stability)")


def unit_observers_off_policy(S):
    fn = "lerax.algorithm.off_policy:AbstractOffPolicyAlgorithm.iteration"
    S.under_contract(fn, "lerax.algorithm.off_policy:AbstractOffPolicyAlgorithm.step", "lerax.algorithm.off_policy:AbstractOffPolicyAlgorithm.reset")
    for cbname, mkcb in (("generic", lambda: SimpleCallback("cb")), ("CallbackList[generic,generic]", lambda: CallbackList([SimpleCallback("cb1"), SimpleCallback("cb2")]))):
        ctx = Ctx()
        algo = DQN(num_envs=1, buffer_size=3, learning_starts=1, num_steps=2, batch_size=1)
        env0 = GenericEnv(Discrete(3), observation_space=OBS)
        pol0 = GenericQPolicy(env0.action_space, OBS, epsilon=0.0)
        cb = mkcb()
        k, kc = kit.key_input("key")
        env, pol = sym(ctx, "env", env0), sym(ctx, "q", pol0)

        def train_stub(self, policy_, opt_state, buffer, target_policy, *, key):
            th, o = ocall("TRAIN#", (sd((2,), f32), sd((3,), f32)), policy_.theta, opt_state, key, [l for l in jax.tree.leaves(buffer) if hasattr(l, "shape")])
            return eqx.tree_at(lambda p: p.theta, policy_, th), o, {"loss": jnp.sum(th)}
        with extract.patched((DQN, "dqn_train", train_stub), *_dx_patch()):
            st0 = run(ctx, lambda a, e, p, kk: a.reset(e, p, key=kk, callback=cb), algo, env, pol, k)
            k2, kc2 = kit.key_input("key2")
            st1 = run(ctx, lambda a, s, kk: a.iteration(s, key=kk, callback=cb), algo, st0, k2)
        tag = f"DQN[{cbname}]"
        prot = dict(policy=kit.leaves(st1.policy), opt_state=kit.leaves(st1.opt_state), env_state=kit.leaves(st1.step_state.env_state), policy_state=kit.leaves(st1.step_state.policy_state),
                    replay_buffer=kit.leaves(st1.step_state.buffer), target=kit.leaves(st1.target_policy))
        leaked = {}
        for nm, ls in prot.items():
            bad = sorted(n for n in uf_names_of(ls, ctx) if n.startswith("cb"))
            if bad:
                leaked[nm] = bad
        S.fact(f"{tag}/callback-results-do-not-reach-training-state", not leaked, function=fn,
               what="new policy, target network, optimiser state, environment / policy state and the replay buffer do not depend on anything a callback returned", detail=leaked)
        S.fact(f"{tag}/callback-state-threads-callback-results", any(n.startswith("cb") for n in uf_names_of(kit.leaves(st1.step_state.callback_state) + kit.leaves(st1.callback_state), ctx)), function=fn,
               what="non-vacuity: callback results do flow into the callback state")

    # relational: no observer vs observer vs observer list (same keys)
    ctx = Ctx()
    algo = DQN(num_envs=1, buffer_size=3, learning_starts=1, num_steps=2, batch_size=1)
    env0 = GenericEnv(Discrete(3), observation_space=OBS)
    pol0 = GenericQPolicy(env0.action_space, OBS, epsilon=0.0)
    k, kc = kit.key_input("key")
    k2, kc2 = kit.key_input("key2")
    env, pol = sym(ctx, "env", env0), sym(ctx, "q", pol0)

    def train_stub2(self, policy_, opt_state, buffer, target_policy, *, key):
        th, o = ocall("TRAIN#", (sd((2,), f32), sd((3,), f32)), policy_.theta, opt_state, key, [l for l in jax.tree.leaves(buffer) if hasattr(l, "shape")])
        return eqx.tree_at(lambda p: p.theta, policy_, th), o, {"loss": jnp.sum(th)}
    runs = {}
    with extract.patched((DQN, "dqn_train", train_stub2), *_dx_patch()):
        for nm, cb in (("none", algo.consolidate_callbacks(None)), ("observer", SimpleCallback("cb")), ("list", algo.consolidate_callbacks([SimpleCallback("cb1"), SimpleCallback("cb2")]))):
            s0 = run(ctx, lambda a, e, p, kk, cb=cb: a.reset(e, p, key=kk, callback=cb), algo, env, pol, k)
            runs[nm] = run(ctx, lambda a, s, kk, cb=cb: a.iteration(s, key=kk, callback=cb), algo, s0, k2)
    prot = lambda s: (s.policy, s.target_policy, s.opt_state, s.step_state.env_state, s.step_state.policy_state, s.step_state.buffer, s.iteration_count)
    for nm in ("observer", "list"):
        S.prove(f"DQN/with-{nm}-equals-without-observer", ctx, kit.tree_eq(prot(runs[nm]), prot(runs["none"])), function=fn, replay=native_observer_replay("DQN"),
                what="reset (incl. warm-up) + iteration with an attached observer yields the same policy, target network, optimiser state, environment / policy state, replay buffer and counter as the run without observers")


def _dx_patch():
    from contracts import _dx
    return _dx.patches()


def native_keys_replay(model):
    """R1: the real PPO.learn (tiny budget) from the same environment, policy and hyper-parameters under four keys - typed keys 1 and 2, the legacy raw-uint32 keys PRNGKey(1) and
    PRNGKey(2): different keys give different trained policies, and a legacy key gives the run of its typed equivalent."""
    import hashlib
    from lerax.env.classic_control import CartPole
    from lerax.policy import MLPActorCriticPolicy

    def digest(t):
        h = hashlib.sha256()
        for l in jax.tree.leaves(eqx.filter(t, eqx.is_array)):
            h.update(np.asarray(l).tobytes())
        return h.hexdigest()[:16]
    env = CartPole()
    pol = MLPActorCriticPolicy(env, key=jax.random.key(0))
    algo = PPO(num_envs=1, num_steps=4, num_batches=1, num_epochs=1)
    out = {}
    for name, k in (("key(1)", jax.random.key(1)), ("key(2)", jax.random.key(2)), ("PRNGKey(1)", jax.random.PRNGKey(1)), ("PRNGKey(2)", jax.random.PRNGKey(2)), ("key(1) again", jax.random.key(1))):
        try:
            out[name] = digest(algo.learn(env, pol, total_timesteps=8, key=k))
        except Exception as e:          # legacy keys rejected loudly: not a silent collapse of runs
            out[name] = f"raised {type(e).__name__}"
    problems = []
    if out["key(1)"] == out["key(2)"]:
        problems.append("typed keys 1 and 2 give the same trained policy")
    if out["key(1)"] != out["key(1) again"]:
        problems.append("the same key gives two different trained policies")
    if not out["PRNGKey(1)"].startswith("raised"):
        if out["PRNGKey(1)"] == out["PRNGKey(2)"]:
            problems.append("legacy keys PRNGKey(1) and PRNGKey(2) give the same trained policy")
        if out["PRNGKey(1)"] != out["key(1)"]:
            problems.append("legacy key PRNGKey(1) does not give the run of its typed equivalent key(1)")
    if problems:
        return dict(reproduced=True, route="R1 (real PPO.learn, total_timesteps=8, CartPole, same policy and hyper-parameters)", inputs=dict(keys=list(out)), observed=dict(problems=problems, policy_digests=out))
    return dict(reproduced=False, note="different keys give different runs (typed and legacy), equal keys equal runs", digests=out)


def unit_reproducible(S):
    """Re-extraction of reset + iteration on the same inputs yields the identical program (no dependence on Python-side state between calls)."""
    rk = native_keys_replay(None)
    S.bounded_check("keys/different-keys-different-runs", not rk.get("reproduced"), bound="PPO.learn with total_timesteps=8 on CartPole under typed keys 1, 2 and legacy keys PRNGKey(1), PRNGKey(2)",
                    function="lerax.algorithm.base_algorithm:AbstractAlgorithm.learn", what="different keys yield different trained policies, the same key the same one, and a legacy raw key the run of its typed equivalent",
                    detail=rk, replay=lambda m: rk)
    fn = "lerax.algorithm:{reset,iteration}"
    S.under_contract(fn)
    for name, mk_algo, mk_pol in (("PPO", lambda: PPO(num_envs=2, num_steps=3, num_batches=1), lambda e: GenericActorCriticPolicy(e.action_space, OBS)),
                                  ("A2C", lambda: A2C(num_envs=1, num_steps=3), lambda e: GenericActorCriticPolicy(e.action_space, OBS)),
                                  ("DQN", lambda: DQN(num_envs=2, buffer_size=6, learning_starts=1, num_steps=2, batch_size=1), lambda e: GenericQPolicy(e.action_space, OBS))):
        from contracts import _dx
        env0 = GenericEnv(Discrete(3), observation_space=OBS)
        texts = []
        for rep in range(2):
            algo, pol0, cb = mk_algo(), mk_pol(env0), SimpleCallback("cb")

            def prog(theta, kk):
                p = eqx.tree_at(lambda q: q.theta, pol0, theta)
                st = algo.reset(env0, p, key=kk, callback=cb)
                st = algo.iteration(st, key=kk, callback=cb)
                return [l for l in jax.tree.leaves(st) if hasattr(l, "shape")]
            with _dx.cut():
                jp = jax.make_jaxpr(prog)(jnp.zeros((2,)), jax.random.key(0))
            import re
            texts.append(re.sub(r"0x[0-9a-f]+", "0x", str(jp)))
            effects = sorted(str(e) for e in jp.effects)
        S.fact(f"{name}/re-extraction-identical", texts[0] == texts[1] and len(texts[0]) > 1000, function=fn,
               what="two independent constructions and extractions of reset + iteration (real optimiser, real training step) give the identical closed program: with A-XLA, equal inputs give bit-identical parameters",
               detail=dict(chars=len(texts[0])))
        S.fact(f"{name}/no-host-effects", not effects, function=fn, what="the program has no host effects with effect-free callbacks (no io_callback; nothing outside the returned state)", detail=effects)


UNITS = [("frame", unit_frame_ast), ("observers-on-policy", unit_observers_on_policy), ("observers-off-policy", unit_observers_off_policy), ("reproducible", unit_reproducible)]
