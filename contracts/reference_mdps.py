"""Reference MDPs (A-GYM): the classic-control formulas of the installed Gymnasium (1.3.0) transcribed once as spec functions over the
same symbols lerax uses.  `validate_against_gymnasium` runs the transcription against the REAL installed Gymnasium natively on
seeded random states (a bounded check of the transcription itself), so the only thing left to trust is that sampling.

Conventions: state vectors are jnp arrays; parameters are taken from a `p` namespace (the lerax environment object or any object with
the same attribute names) so the spec is stated over the SAME symbols as the code under contract.
"""
from __future__ import annotations

import jax.numpy as jnp
import numpy as np


# ---- CartPole-v1 -------------------------------------------------------------------------------------------------------

def cartpole_field(p, y, action):
    """gymnasium/envs/classic_control/cartpole.py: step() - the accelerations used by the Euler update"""
    _, x_dot, theta, theta_dot = y[0], y[1], y[2], y[3]
    force = jnp.where(action == 1, p.force_mag, -p.force_mag)
    costheta, sintheta = jnp.cos(theta), jnp.sin(theta)
    temp = (force + p.polemass_length * jnp.square(theta_dot) * sintheta) / p.total_mass
    thetaacc = (p.gravity * sintheta - costheta * temp) / (p.length * (4.0 / 3.0 - p.pole_mass * jnp.square(costheta) / p.total_mass))
    xacc = temp - p.polemass_length * thetaacc * costheta / p.total_mass
    return jnp.array([x_dot, xacc, theta_dot, thetaacc])


def cartpole_euler_step(p, y, action):
    """kinematics_integrator == 'euler': every coordinate advanced with the OLD derivatives"""
    return y + p.dt * cartpole_field(p, y, action)


def cartpole_terminated(p, y):
    x, theta = y[0], y[2]
    return (x < -p.x_threshold) | (x > p.x_threshold) | (theta < -p.theta_threshold_radians) | (theta > p.theta_threshold_radians)


def cartpole_reward(p, y, action, ny):
    return jnp.asarray(1.0)  # v1 (sutton_barto_reward=False): +1 for every step taken, including the terminating one


CARTPOLE_INIT = (-0.05, 0.05)


# ---- MountainCar-v0 / MountainCarContinuous-v0 -------------------------------------------------------------------------

def mountaincar_field(p, y, action):
    """velocity += (action - 1) * force + cos(3 * position) * (-gravity); position += velocity"""
    x, v = y[0], y[1]
    return jnp.array([v, (action - 1) * p.force + jnp.cos(3 * x) * (-p.gravity)])


def mountaincar_limits(p, y):
    """clip velocity, clip position, inelastic left wall: position == min_position and velocity < 0 => velocity = 0"""
    x, v = y[0], y[1]
    v = jnp.clip(v, -p.max_speed, p.max_speed)
    x = jnp.clip(x, p.min_position, p.max_position)
    v = jnp.where((x == p.min_position) & (v < 0), 0.0, v)
    return jnp.array([x, v])


def mountaincar_terminated(p, y):
    return (y[0] >= p.goal_position) & (y[1] >= p.goal_velocity)


def mountaincar_reward(p, y, action, ny):
    return jnp.asarray(-1.0)


def cmountaincar_field(p, y, action):
    """force = clip(action, min_action, max_action); velocity += force * power - 0.0025 * cos(3 * position)"""
    x, v = y[0], y[1]
    force = jnp.minimum(jnp.maximum(action, p.min_action), p.max_action)
    return jnp.array([v, force * p.power - 0.0025 * jnp.cos(3 * x)])


cmountaincar_limits = mountaincar_limits
cmountaincar_terminated = mountaincar_terminated


def cmountaincar_reward(p, y, action, ny):
    """reward = 100 if the NEW state is terminal, minus 0.1 * action^2 (in-range actions: clipping is the identity)"""
    return 100.0 * cmountaincar_terminated(p, ny).astype(float) - 0.1 * jnp.square(action)


MOUNTAINCAR_INIT = (-0.6, -0.4)


# ---- Acrobot-v1 --------------------------------------------------------------------------------------------------------

def acrobot_field(p, y, action):
    """gymnasium/envs/classic_control/acrobot.py: _dsdt() with book_or_nips == 'book'"""
    m1, m2, l1, lc1, lc2, I1, I2, g = p.link_mass_1, p.link_mass_2, p.link_length_1, p.link_com_pos_1, p.link_com_pos_2, p.link_moi, p.link_moi, p.gravity
    a = p.torques[action]
    theta1, theta2, dtheta1, dtheta2 = y[0], y[1], y[2], y[3]
    d1 = m1 * lc1**2 + m2 * (l1**2 + lc2**2 + 2 * l1 * lc2 * jnp.cos(theta2)) + I1 + I2
    d2 = m2 * (lc2**2 + l1 * lc2 * jnp.cos(theta2)) + I2
    phi2 = m2 * lc2 * g * jnp.cos(theta1 + theta2 - jnp.pi / 2.0)
    phi1 = -m2 * l1 * lc2 * dtheta2**2 * jnp.sin(theta2) - 2 * m2 * l1 * lc2 * dtheta2 * dtheta1 * jnp.sin(theta2) + (m1 * lc1 + m2 * l1) * g * jnp.cos(theta1 - jnp.pi / 2) + phi2
    ddtheta2 = (a + d2 / d1 * phi1 - m2 * l1 * lc2 * dtheta1**2 * jnp.sin(theta2) - phi2) / (m2 * lc2**2 + I2 - d2**2 / d1)
    ddtheta1 = -(d2 * ddtheta2 + phi1) / d1
    return jnp.array([dtheta1, dtheta2, ddtheta1, ddtheta2])


def acrobot_limits_velocities(p, y):
    """bound(ns[2], -MAX_VEL_1, MAX_VEL_1); bound(ns[3], -MAX_VEL_2, MAX_VEL_2)   (MAX_VEL_1 = 4 pi, MAX_VEL_2 = 9 pi)"""
    return jnp.array([jnp.clip(y[2], -4 * jnp.pi, 4 * jnp.pi), jnp.clip(y[3], -9 * jnp.pi, 9 * jnp.pi)])


def acrobot_terminated(p, y):
    return -jnp.cos(y[0]) - jnp.cos(y[1] + y[0]) > 1.0


def acrobot_reward(p, y, action, ny):
    return jnp.where(acrobot_terminated(p, ny), 0.0, -1.0)


ACROBOT_INIT = (-0.1, 0.1)


# ---- validation of the transcription against the installed Gymnasium ---------------------------------------------------

class _NS:
    def __init__(self, **kw):
        self.__dict__.update(kw)


def validate_against_gymnasium(seed=0, n=200):
    """Returns a list of discrepancies between this transcription and the REAL Gymnasium code (empty list = agreement)."""
    import gymnasium
    from gymnasium.envs.classic_control import acrobot as GA
    rng = np.random.RandomState(seed)
    bad = []
    # CartPole: one real gym step (euler) vs the transcription
    env = gymnasium.make("CartPole-v1").unwrapped
    env.reset(seed=0)
    p = _NS(force_mag=env.force_mag, polemass_length=env.polemass_length, total_mass=env.total_mass, gravity=env.gravity, length=env.length, pole_mass=env.masspole, dt=env.tau,
            x_threshold=env.x_threshold, theta_threshold_radians=env.theta_threshold_radians)
    for _ in range(n):
        y = rng.uniform([-3, -3, -0.4, -3], [3, 3, 0.4, 3])
        a = int(rng.randint(2))
        env.state = np.array(y, dtype=np.float64)
        obs, r, term, _, _ = env.step(a)
        ny = np.asarray(cartpole_euler_step(p, jnp.asarray(y, jnp.float32), a))
        if not np.allclose(ny, env.state, atol=2e-4) or bool(cartpole_terminated(p, jnp.asarray(env.state, jnp.float32))) != term or float(r) != 1.0:
            if abs(abs(env.state[0]) - 2.4) > 1e-3 and abs(abs(env.state[2]) - env.theta_threshold_radians) > 1e-3:
                bad.append(("CartPole", y.tolist(), a))
        env.steps_beyond_terminated = None
    # MountainCar
    env = gymnasium.make("MountainCar-v0").unwrapped
    env.reset(seed=0)
    p = _NS(force=env.force, gravity=env.gravity, max_speed=env.max_speed, min_position=env.min_position, max_position=env.max_position, goal_position=env.goal_position, goal_velocity=env.goal_velocity)
    for _ in range(n):
        y = np.array([rng.uniform(-1.25, 0.65), rng.uniform(-0.08, 0.08)])
        if rng.rand() < 0.2:
            y[0] = -1.2 + 1e-4
        a = int(rng.randint(3))
        env.state = (float(y[0]), float(y[1]))
        obs, r, term, _, _ = env.step(a)
        f = np.asarray(mountaincar_field(p, jnp.asarray(y, jnp.float32), a))
        v2 = y[1] + f[1]
        ny = np.asarray(mountaincar_limits(p, jnp.asarray([y[0] + np.clip(v2, -0.07, 0.07), v2], jnp.float32)))
        if not np.allclose(ny, obs, atol=1e-5) or bool(mountaincar_terminated(p, jnp.asarray(obs))) != term or r != -1.0:
            bad.append(("MountainCar", y.tolist(), a, ny.tolist(), obs.tolist()))
    # MountainCarContinuous
    env = gymnasium.make("MountainCarContinuous-v0").unwrapped
    env.reset(seed=0)
    p = _NS(power=env.power, max_speed=env.max_speed, min_position=env.min_position, max_position=env.max_position, goal_position=env.goal_position, goal_velocity=env.goal_velocity,
            min_action=env.min_action, max_action=env.max_action)
    for _ in range(n):
        y = np.array([rng.uniform(-1.25, 0.65), rng.uniform(-0.08, 0.08)])
        if rng.rand() < 0.25:
            y = np.array([0.449, 0.06])
        a = float(rng.uniform(-1, 1))
        env.state = np.array(y)
        obs, r, term, _, _ = env.step(np.array([a]))
        f = np.asarray(cmountaincar_field(p, jnp.asarray(y, jnp.float32), a))
        v2 = y[1] + f[1]
        ny = np.asarray(cmountaincar_limits(p, jnp.asarray([y[0] + np.clip(v2, -0.07, 0.07), v2], jnp.float32)))
        rr = float(cmountaincar_reward(p, jnp.asarray(y, jnp.float32), a, jnp.asarray(obs)))
        if not np.allclose(ny, obs, atol=1e-5) or bool(cmountaincar_terminated(p, jnp.asarray(obs))) != term or abs(rr - r) > 1e-4:
            bad.append(("MountainCarContinuous", y.tolist(), a, rr, float(r)))
    # Acrobot: the real _dsdt and the real bound()
    env = gymnasium.make("Acrobot-v1").unwrapped
    env.reset(seed=0)
    p = _NS(link_mass_1=env.LINK_MASS_1, link_mass_2=env.LINK_MASS_2, link_length_1=env.LINK_LENGTH_1, link_com_pos_1=env.LINK_COM_POS_1, link_com_pos_2=env.LINK_COM_POS_2, link_moi=env.LINK_MOI,
            gravity=9.8, torques=jnp.asarray(env.AVAIL_TORQUE, jnp.float32))
    for _ in range(n):
        y = rng.uniform([-np.pi, -np.pi, -13, -29], [np.pi, np.pi, 13, 29])
        a = int(rng.randint(3))
        ref = np.array(env._dsdt(np.append(y, env.AVAIL_TORQUE[a]))[:4])
        got = np.asarray(acrobot_field(p, jnp.asarray(y, jnp.float32), a))
        if not np.allclose(got, ref, rtol=2e-3, atol=2e-3):
            bad.append(("Acrobot.field", y.tolist(), a, got.tolist(), ref.tolist()))
        lim = np.asarray(acrobot_limits_velocities(p, jnp.asarray(y, jnp.float32)))
        if not np.allclose(lim, [GA.bound(y[2], -env.MAX_VEL_1, env.MAX_VEL_1), GA.bound(y[3], -env.MAX_VEL_2, env.MAX_VEL_2)], atol=1e-5):
            bad.append(("Acrobot.limits", y.tolist()))
        env.state = y
        if bool(acrobot_terminated(p, jnp.asarray(y, jnp.float32))) != bool(env._terminal()):
            bad.append(("Acrobot.terminal", y.tolist()))
    return bad
