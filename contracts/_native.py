"""Native (concrete, eager-or-jitted) harnesses of the REAL lerax code with REAL networks, used only by replay routes (R1):
they turn a failed obligation into a failing concrete input, or report that none was found."""
from __future__ import annotations

import equinox as eqx
import jax
import jax.numpy as jnp
import numpy as np

f32 = jnp.float32


def sac_fixture(*, num_steps=1, policy_frequency=2, autotune=True, batch_size=4, seed=0, gamma=0.9):
    """A real SAC with real MLPSACPolicy / SoftQNetwork networks, its optimiser states built as SAC.reset builds them, and a full replay buffer of random transitions
    covering all four (done, timeout) combinations."""
    from lerax.algorithm import SAC
    from lerax.algorithm.sac import SoftQNetwork
    from lerax.buffer import ReplayBuffer
    from lerax.policy import MLPSACPolicy
    from lerax.space import Box
    from lvc.generic import GenericEnv
    OBS = Box(-jnp.ones((2,)), jnp.ones((2,)))
    ACT = Box(-jnp.ones((2,)), jnp.ones((2,)))
    env = GenericEnv(ACT, observation_space=OBS)
    algo = SAC(buffer_size=8, learning_starts=1, num_envs=1, num_steps=num_steps, batch_size=batch_size, policy_frequency=policy_frequency, autotune=autotune,
               q_width_size=8, q_depth=1, gamma=gamma)
    ks = jax.random.split(jax.random.key(seed), 5)
    policy = MLPSACPolicy(env, feature_size=8, width_size=8, depth=1, key=ks[0])
    qs = [SoftQNetwork(2, 2, width_size=8, depth=1, key=k) for k in ks[1:5]]
    opt_state = algo.optimizer.init(eqx.filter(policy, eqx.is_inexact_array))
    q_opt_state = algo.q_optimizer.init((eqx.filter(qs[0], eqx.is_inexact_array), eqx.filter(qs[1], eqx.is_inexact_array)))
    log_alpha = jnp.log(jnp.array(0.2))
    alpha_opt_state = algo.alpha_optimizer.init(log_alpha)
    target_entropy = jnp.array(-2.0)
    rng = np.random.RandomState(seed + 1)
    N = 8
    rb = ReplayBuffer(N, OBS, ACT, None)
    rb = eqx.tree_at(lambda b: (b.observations, b.next_observations, b.actions, b.rewards, b.dones, b.timeouts, b.position), rb,
                     (jnp.asarray(rng.randn(N, 2), f32), jnp.asarray(rng.randn(N, 2), f32), jnp.asarray(rng.uniform(-1, 1, (N, 2)), f32), jnp.asarray(rng.randn(N), f32),
                      jnp.asarray([0, 0, 1, 1, 0, 1, 1, 0], bool), jnp.asarray([0, 1, 0, 1, 0, 0, 1, 1], bool), jnp.asarray(N)))
    return dict(algo=algo, env=env, policy=policy, qf1=qs[0], qf2=qs[1], qf1_target=qs[2], qf2_target=qs[3], opt_state=opt_state, q_opt_state=q_opt_state,
                log_alpha=log_alpha, alpha_opt_state=alpha_opt_state, target_entropy=target_entropy, buffer=rb)


def sac_train(fx, iteration_count, key=None):
    a = fx["algo"]
    return a.sac_train(fx["policy"], fx["opt_state"], fx["buffer"], fx["qf1"], fx["qf2"], fx["qf1_target"], fx["qf2_target"], fx["q_opt_state"], fx["log_alpha"],
                       fx["alpha_opt_state"], fx["target_entropy"], jnp.asarray(iteration_count), key=jax.random.key(7) if key is None else key)


def max_abs_diff(a, b):
    la = [x for x in jax.tree.leaves(a) if eqx.is_inexact_array(x)]
    lb = [x for x in jax.tree.leaves(b) if eqx.is_inexact_array(x)]
    if len(la) != len(lb):
        return float("inf")
    return max([float(jnp.max(jnp.abs(x - y))) if x.size else 0.0 for x, y in zip(la, lb)] + [0.0])
