"""C19 - Reported performance numbers are faithful to what happened.

Under contract:
  lerax.callback.logging.callback:LoggingCallbackStepState.initial / next
  lerax.callback.logging.callback:LoggingCallback.on_step / step_reset / on_iteration
  the StepContext built by on_policy.step and off_policy.step (call-site obligation: reward = env reward, done = term|trunc)
  lerax.benchmark:rollout_scan, rollout_while, average_reward
  lerax.utils:callback_wrapper / callback_with_numpy_wrapper (ordering flag reaches jax.debug.callback)
"""
from __future__ import annotations

import equinox as eqx
import jax
import jax.numpy as jnp
import numpy as np
import z3

from lerax.callback import LoggingCallback, LoggingCallbackStepState, StepContext, IterationContext, AbstractLoggingBackend
from lerax.algorithm import PPO, A2C, DQN, SAC
from lerax.space import Box, Discrete
from lerax import benchmark as BM
from lerax import wrapper as W

from lvc import kit, ir, extract, opaque
from lvc.extract import run, sym, symbolic_dims
from lvc.generic import GenericEnv, GenericActorCriticPolicy, GenericPolicy, GPState, GState, SimpleCallback, GCbStep
from lvc.kit import Ctx, sand

PROPERTY = "C19"
TRUSTED = ["A-PURE", "A-REAL", "A-XLA incl. D7: ordered debug callbacks are delivered in program order (JAX effect system)",
           "induction over the step history (initiation + consecution discharged)"]
ASSUMPTIONS = ["keys existential", "logging backends are opaque Python objects: only the values and the ordering flag handed to jax.debug.callback are checked"]
DROPS = ["video recording path (video_interval = 0)", "D1 deterministic flag / max_steps None resolved per configuration"]
NOT_DECIDED = []

F_NEXT = "lerax.callback.logging.callback:LoggingCallbackStepState.next"
F_INIT = "lerax.callback.logging.callback:LoggingCallbackStepState.initial"
F_ONSTEP = "lerax.callback.logging.callback:LoggingCallback.on_step"
F_ONITER = "lerax.callback.logging.callback:LoggingCallback.on_iteration"
F_SCAN = "lerax.benchmark:rollout_scan"
F_WHILE = "lerax.benchmark:rollout_while"
F_AVG = "lerax.benchmark:average_reward"
F_ONPOL = "lerax.algorithm.on_policy:AbstractActorCriticOnPolicyAlgorithm.step (StepContext)"
F_OFFPOL = "lerax.algorithm.off_policy:AbstractOffPolicyAlgorithm.step (StepContext)"
sd = jax.ShapeDtypeStruct
f32 = jnp.float32


def ls_struct(lanes=None):
    st = jax.eval_shape(LoggingCallbackStepState.initial)
    if lanes is not None:
        st = jax.tree.map(lambda x: sd((lanes,) + tuple(x.shape), x.dtype), st)
    return st


def native_next_replay(model):
    rng = np.random.RandomState(3)
    alpha = 0.3
    st = LoggingCallbackStepState.initial()
    ret, ln, prev_done, avg_r, avg_l = 0.0, 0, False, 0.0, 0.0
    hist = []
    for n in range(40):
        r = float(np.float32(rng.randn()))
        d = bool(rng.rand() < 0.3)
        st = st.next(jnp.asarray(r, f32), jnp.asarray(d), alpha)
        ret = r + (0.0 if prev_done else ret)
        ln = 1 + (0 if prev_done else ln)
        if d:
            avg_r = alpha * ret + (1 - alpha) * avg_r
            avg_l = alpha * ln + (1 - alpha) * avg_l
        prev_done = d
        hist.append((r, d))
        ok = (abs(float(st.episode_return) - ret) < 1e-4 and int(st.episode_length) == ln and abs(float(st.average_return) - avg_r) < 1e-4
              and abs(float(st.average_length) - avg_l) < 1e-4 and int(st.step) == n + 1 and bool(st.episode_done) == d)
        if not ok:
            return dict(reproduced=True, route="R1", inputs=dict(alpha=alpha, history=hist),
                        observed=dict(episode_return=float(st.episode_return), expected_return=ret, episode_length=int(st.episode_length), expected_length=ln,
                                      average_return=float(st.average_return), expected_average_return=avg_r, average_length=float(st.average_length),
                                      expected_average_length=avg_l, step=int(st.step)))
    return dict(reproduced=False, note="40-step native history agrees")


def unit_next(S):
    S.default_replay = native_next_replay
    S.under_contract(F_NEXT, F_INIT, F_ONSTEP)
    ctx = Ctx()
    st = sym(ctx, "st", ls_struct())
    r, rc = kit.real_scalar("reward")
    d, dc = kit.bool_scalar("done")
    al, alc = kit.real_scalar("alpha")
    out = run(ctx, lambda s, rr, dd, a: s.next(rr, dd, a), st, r, d, al)
    pd = st.episode_done.scalar()
    ret2 = rc + z3.If(pd, 0, st.episode_return.scalar())
    len2 = 1 + z3.If(pd, 0, st.episode_length.scalar())
    goal = sand(out.episode_return.scalar() == ret2, out.episode_length.scalar() == len2, out.episode_done.scalar() == dc,
                out.step.scalar() == st.step.scalar() + 1,
                out.average_return.scalar() == z3.If(dc, alc * ret2 + (1 - alc) * st.average_return.scalar(), st.average_return.scalar()),
                out.average_length.scalar() == z3.If(dc, alc * z3.ToReal(len2) + (1 - alc) * st.average_length.scalar(), st.average_length.scalar()))
    S.prove("next/one-step-contract", ctx, goal, function=F_NEXT, replay=native_next_replay,
            what="ret' = r + (0 if the previous step ended an episode else ret); len' likewise; statistics blended with alpha iff done, unchanged otherwise; step' = step+1")
    ctx2 = Ctx()
    init = run(ctx2, LoggingCallbackStepState.initial)
    S.prove("initial/zeros", ctx2, sand(*[ir.seq(l.scalar(), 0 if l.kind != "b" else False) for l in kit.leaves(init)]), function=F_INIT,
            what="initial state: zero counters, zero statistics, episode_done False", replay=native_next_replay)
    # on_step delegates to next with the context's reward / done and its own alpha
    ctx3 = Ctx()

    class _B(AbstractLoggingBackend):
        def open(self, name): pass
        def log_scalars(self, scalars, step): pass
        def log_video(self, *a, **k): pass
        def log_hparams(self, h): pass
        def close(self): pass
    cb = LoggingCallback(_B(), name="lvc")
    al3, alc3 = kit.real_scalar("alpha")
    cb = eqx.tree_at(lambda c: c.alpha, cb, al3)
    st3 = sym(ctx3, "st", ls_struct())
    r3, rc3 = kit.real_scalar("reward")
    d3, dc3 = kit.bool_scalar("done")
    k3, _ = kit.key_input("key")
    o1 = run(ctx3, lambda c, s, rr, dd, kk: c.on_step(StepContext(s, None, None, dd, rr, {}), key=kk), cb, st3, r3, d3, k3)
    o2 = run(ctx3, lambda s, rr, dd, a: s.next(rr, dd, a), st3, r3, d3, al3)
    S.prove("on_step/delegates-to-next", ctx3, kit.tree_eq(o1, o2), function=F_ONSTEP,
            what="on_step(ctx) = ctx.state.next(ctx.reward, ctx.done, self.alpha)")
    o0 = run(ctx3, lambda c, kk: c.step_reset(None, key=kk), cb, k3)
    S.prove("step_reset/initial", ctx3, kit.tree_eq(o0, run(ctx3, LoggingCallbackStepState.initial)), function=F_ONSTEP, what="step_reset returns the zeroed initial state")


def unit_history(S):
    """Lemma over next's contract (loop rule over the step history, ghost sums):
    Inv(n): ret_n = S(last_n, n), len_n = n - last_n, episode_done_n = d_n   where last_n = index of the previous episode end
    (largest m < n with d_m, or 0), S(l, n) = r_{l+1} + ... + r_n  (S(l,l) = 0, S(l,n+1) = S(l,n) + r_{n+1})."""
    S.default_replay = native_next_replay
    S.under_contract(F_NEXT)
    ctx = Ctx()
    I, R, B = z3.IntSort(), z3.RealSort(), z3.BoolSort()
    r = z3.Function("r", I, R)
    d = z3.Function("d", I, B)
    Ssum = z3.Function("S", I, I, R)
    n, last = z3.Ints("n last")
    ret, avg, alpha = z3.Reals("ret avg alpha")
    ln = z3.Int("len")
    # state after step n satisfies Inv(n); apply next's contract for step n+1
    inv = z3.And(n >= 0, last >= 0, last <= n, ret == Ssum(last, n), ln == n - last)
    pd = d(n)  # episode_done_n = d_n
    ret2 = r(n + 1) + z3.If(pd, 0, ret)
    len2 = 1 + z3.If(pd, 0, ln)
    last2 = z3.If(pd, n, last)
    unfold = [Ssum(n, n) == 0, Ssum(n, n + 1) == Ssum(n, n) + r(n + 1), Ssum(last, n + 1) == Ssum(last, n) + r(n + 1)]
    S.prove("history/consecution", ctx, z3.And(ret2 == Ssum(last2, n + 1), len2 == n + 1 - last2, last2 >= 0, last2 <= n + 1),
            hyps=[inv] + unfold, function=F_NEXT,
            what="Inv(n) and one step => Inv(n+1): the running return/length are exactly the sum of rewards / number of steps since the previous episode end")
    S.prove("history/initiation", ctx, z3.And(z3.RealVal(0) == Ssum(0, 0), z3.IntVal(0) == 0), hyps=[Ssum(0, 0) == 0], function=F_NEXT,
            what="Inv(0) for the zeroed initial state (episode_done False, last = 0)")
    avg2 = z3.If(d(n + 1), alpha * ret2 + (1 - alpha) * avg, avg)
    S.prove("history/statistics-only-at-episode-ends", ctx,
            z3.And(z3.Implies(z3.Not(d(n + 1)), avg2 == avg), z3.Implies(d(n + 1), avg2 == alpha * Ssum(last2, n + 1) + (1 - alpha) * avg)),
            hyps=[inv] + unfold, function=F_NEXT,
            what="the logged statistic changes only when step n+1 ends an episode, and then blends in exactly the episode's return with weight alpha")


def unit_callsite_on_policy(S):
    from contracts import C04
    S.under_contract(F_ONPOL)
    for cfg in ("PPO/box", "PPO/discrete-masked", "A2C/discrete/TimeLimit"):
        mk_algo, mk_env, build = C04.CONFIGS[cfg]
        ctx = Ctx()
        algo = mk_algo()
        g, gc = kit.real_scalar("gamma")
        algo = eqx.tree_at(lambda a: a.gamma, algo, g)
        E0 = build(mk_env())
        pol0 = GenericActorCriticPolicy(E0.action_space, E0.observation_space)
        env_in, pol_in = sym(ctx, "env", E0), sym(ctx, "pi", pol0)
        st = sym(ctx, "st", C04.step_state_struct(E0))
        cb = SimpleCallback()
        k, kc = kit.key_input("key")
        nst, row = run(ctx, lambda a, e, p, s, kk: a.step(e, p, s, key=kk, callback=cb), algo, env_in, pol_in, st, k)
        cbs = [c for c in ctx.calls if c.name == "cb.on_step"]
        hs, holes = kit.holes_for(ctx, C04.HOLES, kc)
        sp = run(ctx, lambda a, e, p, s, *ks: C04.spec_step(a, e, p, s, *ks), algo, env_in, pol_in, st, *[hs[n] for n in C04.HOLES])
        S.fact(f"on_policy[{cfg}]/callback-once", len(cbs) == 1, function=F_ONPOL, what="callback.on_step is invoked exactly once per environment step")
        if len(cbs) != 1:
            continue
        c = cbs[0]  # operands: callback step state leaf, done, reward, key
        S.prove(f"on_policy[{cfg}]/logged-reward-is-env-reward", ctx, ir.seq(c.operands[2].scalar(), sp["raw_reward"].scalar()), holes=holes, function=F_ONPOL,
                replay=_onpolicy_replay(cfg),
                what="the reward in the StepContext is the environment's reward for this transition (no bootstrap value mixed in)")
        S.prove(f"on_policy[{cfg}]/logged-done", ctx, ir.seq(c.operands[1].scalar(), sp["done"].scalar()), holes=holes, function=F_ONPOL,
                what="the done flag in the StepContext is terminal | truncated")
        S.prove(f"on_policy[{cfg}]/callback-state-threaded", ctx, sand(kit.arr_eq_at(c.operands[0], kit.leaves(st.callback_state)[0], ()),
                                                                        kit.arr_eq_at(c.outputs[0], kit.leaves(nst.callback_state)[0], ())), function=F_ONPOL,
                what="the callback receives the carried callback state and its result is carried on")


def _onpolicy_replay(cfg):
    from contracts import C04

    def replay(model):
        mk_algo, mk_env, build = C04.CONFIGS[cfg]

        class Rec(SimpleCallback):
            def on_step(self, ctx, *, key):
                return GCbStep(jnp.reshape(ctx.reward, (1,)))  # records the reward it was handed

        def make_inputs(rng):
            E = build(mk_env())
            pol = GenericActorCriticPolicy(E.action_space, E.observation_space, theta=jnp.asarray(rng.randn(2), f32))
            st = kit.concrete_like(C04.step_state_struct(E), rng)
            return mk_algo(), E, pol, st, jax.random.key(int(rng.randint(1 << 30)))

        def check(algo, E, pol, st, k):
            nst, row = algo.step(E, pol, st, key=k, callback=Rec())
            sp = C04.spec_step(algo, E, pol, st, *([k] * 9))
            got, exp = float(nst.callback_state.c[0]), float(sp["raw_reward"])
            return abs(got - exp) < 1e-5, dict(reward_given_to_callback=got, environment_reward=exp, truncated=bool(sp["trunc"]), terminated=bool(sp["term"]))
        return kit.native_search(check, make_inputs, bool_names=("env.terminal", "env.truncate"), trials=3)
    return replay


def unit_callsite_off_policy(S):
    from contracts import C05
    S.under_contract(F_OFFPOL)
    for cfg in ("SAC/box", "DQN/discrete/TimeLimit"):
        mk_algo, mk_env, build = C05.CONFIGS[cfg]
        ctx = Ctx()
        algo = mk_algo()
        E0 = build(mk_env())
        pol0 = GenericPolicy(E0.action_space, E0.observation_space)
        env_in, pol_in = sym(ctx, "env", E0), sym(ctx, "pi", pol0)
        st = sym(ctx, "st", C05.step_state_struct(E0))
        cb = SimpleCallback()
        k, kc = kit.key_input("key")
        nst = run(ctx, lambda a, e, p, s, kk: a.step(e, p, s, key=kk, callback=cb), algo, env_in, pol_in, st, k)
        cbs = [c for c in ctx.calls if c.name == "cb.on_step"]
        hs, holes = kit.holes_for(ctx, C05.HOLES, kc)
        sp = run(ctx, lambda a, e, p, s, *ks: C05.spec_step(a, e, p, s, *ks), algo, env_in, pol_in, st, *[hs[n] for n in C05.HOLES])
        S.fact(f"off_policy[{cfg}]/callback-once", len(cbs) == 1, function=F_OFFPOL, what="callback.on_step is invoked exactly once per environment step")
        if len(cbs) != 1:
            continue
        c = cbs[0]
        S.prove(f"off_policy[{cfg}]/logged-reward-is-env-reward", ctx, ir.seq(c.operands[2].scalar(), sp["d_reward"].scalar()), holes=holes, function=F_OFFPOL,
                what="the reward in the StepContext is the environment's reward for the executed action")
        S.prove(f"off_policy[{cfg}]/logged-done", ctx, ir.seq(c.operands[1].scalar(), sp["e_done"].scalar()), holes=holes, function=F_OFFPOL,
                what="the done flag in the StepContext is terminal | truncated")


def unit_on_iteration(S):
    """on_iteration sends, through ordered debug callbacks, episode/return = mean_e average_return, episode/length = mean_e
    average_length, every entry of the training log, and step = sum_e step_e."""
    S.under_contract(F_ONITER, "lerax.utils:callback_with_numpy_wrapper", "lerax.utils:callback_wrapper")

    class _B(AbstractLoggingBackend):
        def open(self, name): pass
        def log_scalars(self, scalars, step): pass
        def log_video(self, *a, **k): pass
        def log_hparams(self, h): pass
        def close(self): pass
    for lanes in (None, 3):
        ctx = Ctx()
        cb = LoggingCallback(_B(), name="lvc")
        st = sym(ctx, "ls", ls_struct(lanes))
        log = sym(ctx, "log", {"loss": sd((), f32), "approx_kl": sd((), f32)})
        k, _ = kit.key_input("key")
        from lerax.callback.base_callback import EmptyCallbackState
        out = run(ctx, lambda c, s, lg, kk: c.on_iteration(IterationContext(EmptyCallbackState(), s, None, None, jnp.asarray(0), {"learning_rate": jnp.asarray(0.5)}, lg, None, {}), key=kk),
                  cb, st, log, k)
        tag = f"on_iteration[num_envs={'1' if lanes is None else lanes}]"
        effs = [e for e in ctx.effects if e[0] == "debug_callback"]
        S.fact(f"{tag}/ordered-callbacks", len(effs) >= 1 and all(str(e[1]["effect"]) == "OrderedDebug" for e in effs), function=F_ONITER,
               what="log records are sent through jax.debug.callback with ordered=True (they reach the backend in iteration order, D7)",
               detail=[str(e[1].get("effect")) for e in effs])
        if len(effs) < 1:
            continue
        args = [a for e in effs for a in e[2]]
        step_arg = effs[-1][2][-1]
        n = 1 if lanes is None else lanes

        def mean(a):
            return ir.sdiv_real(ir.fold("sum", [a.at(i) for i in a.indices()], "f"), n)
        exp_ret, exp_len = mean(st.average_return), mean(st.average_length)
        exp_step = ir.fold("sum", [st.step.at(i) for i in st.step.indices()], "i")
        terms = [a.scalar() for a in args]
        has = lambda t: z3.Or(*[ir.zreal(x) == ir.zreal(t) for x in terms if not z3.is_bool(x)])
        S.prove(f"{tag}/episode-return-is-mean-over-envs", ctx, has(exp_ret), function=F_ONITER, what="episode/return sent = mean over environments of the per-environment statistic")
        S.prove(f"{tag}/episode-length-is-mean-over-envs", ctx, has(exp_len), function=F_ONITER, what="episode/length sent = mean over environments")
        S.prove(f"{tag}/step-is-cumulative-env-steps", ctx, ir.seq(step_arg.scalar(), exp_step), function=F_ONITER,
                what="the step coordinate is the sum over environments of steps taken (cumulative number of environment steps)")
        S.prove(f"{tag}/training-log-forwarded", ctx, sand(has(log["loss"].scalar()), has(log["approx_kl"].scalar())), function=F_ONITER,
                what="every entry of the training log is forwarded unchanged")

    # delivery: with several backends each one receives every record.  The host functions recorded in the extracted program are INVOKED after extraction (as the runtime does:
    # late, after the Python loop over backends has finished) on concrete values; each recording backend must have received exactly that record, in backend order.
    class _Rec(AbstractLoggingBackend):
        got: list

        def __init__(self):
            self.got = []      # a (mutable) list object fixed at construction; records are appended to it by the host callbacks
        def open(self, name): pass
        def log_scalars(self, scalars, step): self.got.append((dict(scalars), int(step)))
        def log_video(self, *a, **k): pass
        def log_hparams(self, h): self.got.append(("hparams", dict(h)))
        def close(self): pass

    def deliver(nb, which):
        backs = [_Rec() for _ in range(nb)]
        cb = LoggingCallback(backs, name="lvc", hparams={"tag": 1})
        ctx = Ctx()
        st = sym(ctx, "ls", ls_struct(None))
        log = sym(ctx, "log", {"loss": sd((), f32), "approx_kl": sd((), f32)})
        k, _ = kit.key_input("key")
        from lerax.callback.base_callback import EmptyCallbackState
        if which == "on_iteration":
            run(ctx, lambda c, s, lg, kk: c.on_iteration(IterationContext(EmptyCallbackState(), s, None, None, jnp.asarray(0), {"learning_rate": jnp.asarray(0.5)}, lg, None, {}), key=kk), cb, st, log, k)
        else:
            from lerax.callback.base_callback import TrainingContext
            from lerax.algorithm import PPO
            from lvc.generic import GenericActorCriticPolicy
            pol_ = GenericActorCriticPolicy(Discrete(3), GenericEnv(Discrete(3)).observation_space)
            run(ctx, lambda c, s, kk: c.on_training_start(TrainingContext(EmptyCallbackState(), s, None, pol_, 10, jnp.asarray(0), None, PPO(num_envs=1, num_steps=4, num_batches=1), {}), key=kk), cb, st, k)
        effs = [e for e in ctx.effects if e[0] == "debug_callback"]
        for n_, e in enumerate(effs):
            fn_ = e[1]["callback"]
            avals = [a for a in e[2]]
            vals = [np.asarray(7 + n_ if a.kind == "i" else 0.25 * (j + 1), a.dtype if a.dtype is not None else np.float32).reshape(tuple(a.shape)) for j, a in enumerate(avals)]
            fn_(*vals)
        return backs, len(effs)

    def native_delivery_replay(model):
        for which in ("on_iteration", "on_training_start"):
            for nb in (1, 2, 3):
                backs, ne = deliver(nb, which)
                got = [len(b.got) for b in backs]
                if ne < 1 or got != [1] * nb:
                    return dict(reproduced=True, route="R1 (recorded host callbacks invoked after extraction, recording backends)", inputs=dict(hook=which, backends=nb), observed=dict(callbacks_in_program=ne, records_received_per_backend=got))
        return dict(reproduced=False, note="1, 2 and 3 backends: each receives exactly one record per hook")
    for which in ("on_iteration", "on_training_start"):
        for nb in (2, 3):
            backs, ne = deliver(nb, which)
            got = [len(b.got) for b in backs]
            S.fact(f"{which}[{nb} backends]/every-backend-receives-the-record", ne >= 1 and got == [1] * nb, function=F_ONITER if which == "on_iteration" else "lerax.callback.logging.callback:LoggingCallback.on_training_start",
                   replay=native_delivery_replay, detail=dict(callbacks=ne, received=got),
                   what="when the recorded host callbacks run (after the Python loop over backends has ended) every backend has received the record exactly once: none is lost, duplicated or delivered to another backend (however many callbacks carry them)")


def _bm_env_policy(ctx):
    E0 = GenericEnv(Discrete(3))
    pol0 = GenericPolicy(E0.action_space, E0.observation_space)
    return E0, pol0, sym(ctx, "env", E0), sym(ctx, "pi", pol0)


def native_rollout_replay(which, det):
    """R1: the real rollout_scan / rollout_while on a deterministic generic environment whose terminal / truncate predicates are NOT absorbing (pseudo-random functions of the
    state), compared with a plain Python interpreter of the episode (first terminal-or-truncated state or the step cap), for several keys and caps."""
    def replay(model):
        from lvc import opaque
        E0 = GenericEnv(Discrete(3))
        pol0 = GenericPolicy(E0.action_space, E0.observation_space)
        old = opaque.IGNORE_KEYS
        opaque.IGNORE_KEYS = True      # collaborators ignore their keys: one deterministic MDP / policy, whatever key schedule the code under contract uses
        try:
            for seed in range(6):
                key = jax.random.key(seed)
                for cap in (1, 3, 7, 12):
                    with jax.disable_jit():
                        got = float(BM.rollout_scan(E0, pol0, key=key, deterministic=det, max_steps=cap)) if which == "scan" else float(BM.rollout_while(E0, pol0, key=key, deterministic=det, max_steps=cap))
                        s, h = E0.initial(key=key), pol0.reset(key=key)
                        tot, steps, done = 0.0, 0, False
                        trace = []
                        while not done and steps < cap:
                            obs = E0.observation(s, key=key)
                            h, a = pol0(h, obs) if det else pol0(h, obs, key=key)
                            ns = E0.transition(s, a, key=key)
                            r = float(E0.reward(s, a, ns, key=key))
                            done = bool(E0.terminal(ns, key=key)) or bool(E0.truncate(ns))
                            tot += r
                            steps += 1
                            trace.append((round(r, 4), done))
                            s = ns
                    if abs(got - tot) > 1e-4 * (1 + abs(tot)):
                        return dict(reproduced=True, route=f"R1 (real rollout_{which} eagerly on a deterministic generic MDP with non-absorbing episode ends vs a Python interpreter of the episode)",
                                    inputs=dict(initial_key_seed=seed, max_steps=cap, deterministic=det), observed=dict(returned=got, episode_return=tot, episode_steps=steps, per_step_reward_and_done=trace))
            return dict(reproduced=False, note="24 (key, cap) combinations: the returned value is the undiscounted return of the episode up to its first terminal/truncated state or the cap")
        finally:
            opaque.IGNORE_KEYS = old
    return replay


def unit_rollout_scan(S):
    S.under_contract(F_SCAN)
    (M,) = symbolic_dims("M")
    for det in (False, True):
        ctx = Ctx()
        E0, pol0, env_in, pol_in = _bm_env_policy(ctx)
        k, kc = kit.key_input("key")
        total = run(ctx, lambda e, p, kk: BM.rollout_scan(e, p, key=kk, deterministic=det, max_steps=M), env_in, pol_in, k)
        Mz = ctx.dim(M)
        tag = f"rollout_scan[deterministic={det}]"
        ok = len(ctx.scans) == 1 and ctx.scans[0].length.eq(Mz) and not ctx.scans[0].reverse
        S.fact(f"{tag}/one-scan-of-max_steps", ok, function=F_SCAN, what="one forward scan of max_steps iterations (the step cap)")
        if not ok:
            continue
        rec = ctx.scans[0]
        tv = total.scalar()
        sums = [r for r in ctx.reductions if r.kind == "sum"]
        S.fact(f"{tag}/result-is-sum-of-step-rewards", len(sums) == 1 and tv.eq(sums[0].sym), function=F_SCAN, what="the result is the (undiscounted) sum over the scan's per-step outputs")
        j = z3.Int("j")
        carry = rec.carry_sarrs(j)
        (es, ps, done) = carry[0], carry[1], carry[2]
        n0 = len(ctx.calls)
        newc, ys = rec.body(carry, j)
        new_calls = ctx.calls[n0:]
        dn = done.scalar()
        y = ys[0].scalar()
        if sums:
            S.prove(f"{tag}/summand-is-step-output", ctx, ir.seq(sums[0].body(j), y), hyps=[j >= 0, j < Mz], function=F_SCAN, what="summand j is the scan output of iteration j")
        # spec of one live step, with key holes
        stepkey = [c for c in new_calls if c.name == "env.transition"][0].operands[-1].scalar()
        names = {"ko": "env.observation", "ka": "pi.call", "kt": "env.transition", "kr": "env.reward", "kd": "env.terminal"}
        hs, holes = {}, {}
        for lab, base in names.items():
            a, c = kit.key_input(f"hole_{lab}")
            cands = []
            for call in new_calls:
                if call.name == base:
                    for op in call.operands:
                        if op.kind == "k":
                            cands.append(op.scalar())
            hs[lab], holes[c] = a, cands

        def live(e, p, s, h, ko, ka, kt, kr, kd):
            obs = e.observation(GState(s), key=ko)
            ps2, a = p(GPState(h), obs) if det else p(GPState(h), obs, key=ka)
            ns = e.transition(GState(s), a, key=kt)
            rw = e.reward(GState(s), a, ns, key=kr)
            dd = e.terminal(ns, key=kd) | e.truncate(ns)
            return ns.x, ps2.h, dd, rw
        if det:
            holes = {c: v for c, v in holes.items() if str(c) != "hole_ka"}
        sp = run(ctx, live, env_in, pol_in, es, ps, hs["ko"], hs["ka"], hs["kt"], hs["kr"], hs["kd"])
        goal_live = sand(kit.arr_eq_at(newc[0], sp[0], ()), kit.arr_eq_at(newc[1], sp[1], ()), ir.seq(newc[2].scalar(), sp[2].scalar()), ir.seq(y, sp[3].scalar()))
        rp = native_rollout_replay("scan", det)
        S.prove(f"{tag}/live-step", ctx, ir.simplies(ir.snot(dn), goal_live), hyps=[j >= 0, j < Mz], holes=holes, function=F_SCAN, replay=rp,
                what="while the episode is running: the policy acts on the state's observation, the env moves, the step's output is that transition's reward, "
                     "and done' = terminal | truncated of the successor")
        goal_dead = sand(kit.arr_eq_at(newc[0], es, ()), kit.arr_eq_at(newc[1], ps, ()), ir.seq(newc[2].scalar(), True), ir.seq(y, 0))
        S.prove(f"{tag}/after-first-done-nothing-counts", ctx, ir.simplies(dn, goal_dead), hyps=[j >= 0, j < Mz], function=F_SCAN, replay=rp,
                what="once done, it stays done (sticky), the state is frozen and every later step contributes reward 0: the episode ends at its first terminal/truncated state")
        init = rec.carry_sarrs(0)
        hs0, holes0 = kit.holes_for(ctx, {"k1": "env.initial", "k2": "pi.reset"}, kc)
        sp0 = run(ctx, lambda e, p, k1, k2: (e.initial(key=k1).x, p.reset(key=k2).h), env_in, pol_in, hs0["k1"], hs0["k2"])
        S.prove(f"{tag}/starts-from-initial-state-not-done", ctx, sand(kit.arr_eq_at(init[0], sp0[0], ()), kit.arr_eq_at(init[1], sp0[1], ()), ir.seq(init[2].scalar(), False)),
                holes=holes0, function=F_SCAN, what="the episode starts from env.initial(k), policy.reset(k), not done")


def unit_rollout_while(S):
    S.under_contract(F_WHILE)
    for det in (False, True):
        ctx = Ctx()
        E0, pol0, env_in, pol_in = _bm_env_policy(ctx)
        k, kc = kit.key_input("key")
        total = run(ctx, lambda e, p, kk: BM.rollout_while(e, p, key=kk, deterministic=det), env_in, pol_in, k)
        tag = f"rollout_while[deterministic={det}]"
        whiles = getattr(ctx, "whiles", [])
        S.fact(f"{tag}/one-while-loop", len(whiles) == 1, function=F_WHILE, what="one while loop")
        if len(whiles) != 1:
            continue
        rec = whiles[0]
        S.prove(f"{tag}/result-is-exit-accumulator", ctx, ir.seq(total.scalar(), rec.exit[3].scalar()), function=F_WHILE, what="the result is the reward accumulator at loop exit")
        S.prove(f"{tag}/accumulator-starts-at-zero", ctx, ir.seq(rec.init[3].scalar(), 0), function=F_WHILE, what="cumulative reward starts at 0")
        hs0, holes0 = kit.holes_for(ctx, {"k1": "env.initial", "k2": "pi.reset"}, kc)
        sp0 = run(ctx, lambda e, p, k1, k2: (e.initial(key=k1).x, p.reset(key=k2).h), env_in, pol_in, hs0["k1"], hs0["k2"])
        S.prove(f"{tag}/starts-from-initial-state", ctx, sand(kit.arr_eq_at(rec.init[0], sp0[0], ()), kit.arr_eq_at(rec.init[1], sp0[1], ())), holes=holes0, function=F_WHILE,
                what="the episode starts from env.initial(k), policy.reset(k)")
        # generic carry
        cs = [sym(ctx, f"c{i}", sd(tuple(c.shape), c.dtype)) for i, c in enumerate(rec.init)]
        n0 = len(ctx.calls)
        cond = rec.cond(cs).scalar()
        cond_calls = ctx.calls[n0:]
        n1 = len(ctx.calls)
        newc = rec.body(cs)
        body_calls = ctx.calls[n1:]
        tk = [c for c in cond_calls if c.name == "env.terminal"]
        hk, hc = kit.key_input("hole_kd")
        spc = run(ctx, lambda e, s, kd: ~(e.terminal(GState(s), key=kd) | e.truncate(GState(s))), env_in, cs[0], hk)
        S.prove(f"{tag}/continues-iff-not-terminal-or-truncated", ctx, ir.seq(cond, spc.scalar()),
                holes={hc: [op.scalar() for c in tk for op in c.operands if op.kind == "k"]}, function=F_WHILE,
                what="the loop continues exactly while the current state is neither terminal nor truncated: the episode ends at its first terminal or truncated state")
        names = {"ko": "env.observation", "ka": "pi.call", "kt": "env.transition", "kr": "env.reward"}
        hs, holes = {}, {}
        for lab, base in names.items():
            a, c = kit.key_input(f"hole_{lab}")
            hs[lab] = a
            holes[c] = [op.scalar() for call in body_calls if call.name == base for op in call.operands if op.kind == "k"]
        if det:
            holes = {c: v for c, v in holes.items() if str(c) != "hole_ka"}

        def live(e, p, s, h, acc, ko, ka, kt, kr):
            obs = e.observation(GState(s), key=ko)
            ps2, a = p(GPState(h), obs) if det else p(GPState(h), obs, key=ka)
            ns = e.transition(GState(s), a, key=kt)
            return ns.x, ps2.h, acc + e.reward(GState(s), a, ns, key=kr)
        sp = run(ctx, live, env_in, pol_in, cs[0], cs[1], cs[3], hs["ko"], hs["ka"], hs["kt"], hs["kr"])
        S.prove(f"{tag}/body-adds-the-transition-reward", ctx, sand(kit.arr_eq_at(newc[0], sp[0], ()), kit.arr_eq_at(newc[1], sp[1], ()), ir.seq(newc[3].scalar(), sp[2].scalar())),
                holes=holes, function=F_WHILE, what="each iteration: the policy acts on the observation, the env moves, the (undiscounted) reward of that transition is added")


def unit_average(S):
    S.under_contract(F_AVG)
    (E,) = symbolic_dims("E")
    for max_steps in (16, None):
        ctx = Ctx()
        E0, pol0, env_in, pol_in = _bm_env_policy(ctx)
        k, kc = kit.key_input("key")
        stub_s = lambda env, policy, *, key, deterministic=False, max_steps=1024: opaque.ocall("ROLLOUT_SCAN#", sd((), f32), key, jnp.asarray(max_steps))
        stub_w = lambda env, policy, *, key, deterministic=False: opaque.ocall("ROLLOUT_WHILE#", sd((), f32), key)
        with extract.patched((BM, "rollout_scan", stub_s), (BM, "rollout_while", stub_w)):
            avg = run(ctx, lambda e, p, kk: BM.average_reward(e, p, num_episodes=E, max_steps=max_steps, key=kk), env_in, pol_in, k)
        Ez = ctx.dim(E)
        tag = f"average_reward[max_steps={max_steps}]"
        name = "ROLLOUT_SCAN#" if max_steps is not None else "ROLLOUT_WHILE#"
        calls = [c for c in ctx.calls if c.name == name]
        ok = len(calls) == 1 and len(calls[0].levels) == 1 and calls[0].levels[0][0]
        S.fact(f"{tag}/one-episode-per-lane", ok, function=F_AVG, what="the episode helper (scan variant iff a step cap is given) is vmapped over per-episode keys", detail=[(c.name, c.levels) for c in ctx.calls])
        if not ok:
            continue
        c = calls[0]
        i, i2 = z3.Ints("i i2")
        split = ctx.uf("split", [ir.KeySort, z3.IntSort(), z3.IntSort()], ir.KeySort)
        from lvc.vc import term_contains
        Ki, Ki2 = c.operands[0].at(i), c.operands[0].at(i2)
        S.prove(f"{tag}/episode-keys-derived-and-pairwise-different", ctx, z3.And(z3.BoolVal(term_contains(Ki, kc)), Ki != Ki2), hyps=[i >= 0, i < Ez, i2 >= 0, i2 < Ez, i != i2] + kit.rng_ground_injectivity([Ki, Ki2]), function=F_AVG,
                what="episode i runs on a key derived from the given key and i; different episodes get different keys (A-RNG: split / fold_in injective in the index), however derived: independent episodes")
        if max_steps is not None:
            S.prove(f"{tag}/step-cap-forwarded", ctx, ir.seq(c.operands[1].scalar(), max_steps), function=F_AVG, what="the step cap is handed to every episode")
        avg_t = avg.scalar()  # forces the (lazy) reduction record into existence
        sums = [r for r in ctx.reductions if r.kind == "sum"]
        S.fact(f"{tag}/one-sum", len(sums) == 1 and (sums[0].extent.eq(Ez) if z3.is_expr(sums[0].extent) else False), function=F_AVG, what="one sum over the num_episodes lanes")
        if len(sums) == 1:
            S.prove(f"{tag}/mean-of-episode-returns", ctx, sand(ir.seq(avg.scalar(), sums[0].sym / z3.ToReal(Ez)), ir.seq(sums[0].body(i), c.outputs[0].at(i))),
                    hyps=[Ez >= 1, i >= 0, i < Ez], function=F_AVG, what="result = (sum over episodes of the episode return) / num_episodes")


UNITS = [("next", unit_next), ("history", unit_history), ("callsite-on-policy", unit_callsite_on_policy), ("callsite-off-policy", unit_callsite_off_policy),
         ("on_iteration", unit_on_iteration), ("rollout_scan", unit_rollout_scan), ("rollout_while", unit_rollout_while), ("average_reward", unit_average)]
