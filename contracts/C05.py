"""C05 - Off-policy collection stores exactly the transitions that happened.

Under contract:
  lerax.algorithm.off_policy:AbstractOffPolicyAlgorithm.step                      (DQN / SAC instances; any env, any behaviour policy)
  lerax.algorithm.off_policy:AbstractOffPolicyAlgorithm.collect_learning_starts   (symbolic learning_starts)
  lerax.algorithm.off_policy:AbstractOffPolicyAlgorithm.collect_rollout           (symbolic num_steps)
  lerax.algorithm.off_policy:AbstractOffPolicyStepState.initial
  lerax.algorithm.off_policy:AbstractOffPolicyAlgorithm.reset                     (per-environment buffers, warm-up before training)
ReplayBuffer.add is abstracted by its contract (C06): position' = position + 1, one slot written with all fields.
"""
from __future__ import annotations

import equinox as eqx
import jax
import jax.numpy as jnp
import numpy as np
import z3

from lerax.algorithm import DQN, SAC
from lerax.algorithm.off_policy import AbstractOffPolicyAlgorithm, AbstractOffPolicyStepState
from lerax.buffer import ReplayBuffer
from lerax.space import Box, Discrete
from lerax import wrapper as W

from lvc import kit, ir, extract, opaque
from lvc.extract import run, sym, symbolic_dims
from lvc.generic import GenericEnv, GenericPolicy, GPState, GState, SimpleCallback, GCbStep
from lvc.kit import Ctx, sand

PROPERTY = "C05"
TRUSTED = ["A-PURE", "A-XLA", "A-REAL", "callee contract ReplayBuffer.add (proved in C06): position' = position + 1, the item is written to one slot",
           "induction over the collection loop (initiation + consecution discharged; the induction is the standard loop rule)"]
ASSUMPTIONS = ["keys in postconditions are existential (derived from the step key)"]
DROPS = ["D1: isinstance(env.action_space, Box) and num_envs == 1 resolved per configuration (both enumerated)"]
NOT_DECIDED = []

F_STEP = "lerax.algorithm.off_policy:AbstractOffPolicyAlgorithm.step"
F_LS = "lerax.algorithm.off_policy:AbstractOffPolicyAlgorithm.collect_learning_starts"
F_CR = "lerax.algorithm.off_policy:AbstractOffPolicyAlgorithm.collect_rollout"
F_INIT = "lerax.algorithm.off_policy:AbstractOffPolicyStepState.initial"
F_RESET = "lerax.algorithm.off_policy:AbstractOffPolicyAlgorithm.reset"

BOXA = lambda: Box(-jnp.ones((2,)), jnp.ones((2,)))
# the per-step obligations hold for EVERY num_envs / num_steps / learning_starts / batch size: dimension variables (the step function must not depend on them)
_NE, _TS, _LS, _BS = extract.symbolic_dims("NE, TS, LS, BS")
CONFIGS = {
    "SAC/box": (lambda: SAC(num_envs=_NE, num_steps=_TS, buffer_size=8, learning_starts=_LS, batch_size=_BS), lambda: GenericEnv(BOXA()), lambda e: e),
    "SAC/box/TimeLimit": (lambda: SAC(num_envs=_NE, num_steps=_TS, buffer_size=8, learning_starts=_LS, batch_size=_BS), lambda: GenericEnv(BOXA()), lambda e: W.TimeLimit(e, 6)),
    "DQN/discrete": (lambda: DQN(num_envs=_NE, num_steps=_TS, buffer_size=8, learning_starts=_LS, batch_size=_BS), lambda: GenericEnv(Discrete(3)), lambda e: e),
    "DQN/discrete/TimeLimit": (lambda: DQN(num_envs=_NE, num_steps=_TS, buffer_size=8, learning_starts=_LS, batch_size=_BS), lambda: GenericEnv(Discrete(3)), lambda e: W.TimeLimit(e, 6)),
}
sd = jax.ShapeDtypeStruct
f32 = jnp.float32


def rb_struct(E, cap=8):
    return jax.eval_shape(lambda h: ReplayBuffer(cap, E.observation_space, E.action_space, GPState(h)), sd((1,), f32))


def step_state_struct(E, cap=8):
    es = jax.eval_shape(lambda k: E.initial(key=k), jax.random.key(0))
    return AbstractOffPolicyStepState(es, GPState(sd((1,), f32)), GCbStep(sd((1,), f32)), rb_struct(E, cap))


def add_stub(self, observation, next_observation, action, reward, done, timeout, state, next_state, action_mask=None):
    struct = jax.tree.map(lambda x: sd(x.shape, x.dtype), self)
    return opaque.ocall("ADD#", struct, self, dict(a_obs=observation, b_next_obs=next_observation, c_action=action, d_reward=jnp.asarray(reward, f32),
                                                   e_done=jnp.asarray(done), f_timeout=jnp.asarray(timeout), g_state=state, h_next_state=next_state))


def spec_step(algo, env, policy, st, kobs, kact, ktr, krew, kterm, knobs, kenv, kpol):
    o = env.observation(st.env_state, key=kobs)
    ps2, a = policy(st.policy_state, o, key=kact)
    executed = jnp.clip(a, env.action_space.low, env.action_space.high) if isinstance(env.action_space, Box) else a
    ns = env.transition(st.env_state, executed, key=ktr)
    r = env.reward(st.env_state, executed, ns, key=krew)
    term = env.terminal(ns, key=kterm)
    trunc = env.truncate(ns)
    done = term | trunc
    o2 = env.observation(ns, key=knobs)  # successor observation of the PRE-reset successor
    env2 = jax.tree.map(lambda x, y: jnp.where(done, x, y), env.initial(key=kenv), ns)
    pol2 = jax.tree.map(lambda x, y: jnp.where(done, x, y), policy.reset(key=kpol), ps2)
    return dict(a_obs=o, b_next_obs=o2, c_action=a, d_reward=r, e_done=done, f_timeout=trunc & ~term, g_state=st.policy_state, h_next_state=ps2,
                env_state=env2, policy_state=pol2)


HOLES = {"kobs": "env.observation", "kact": "pi.call", "ktr": "env.transition", "krew": "env.reward", "kterm": "env.terminal",
         "knobs": "env.observation", "kenv": "env.initial", "kpol": "pi.reset"}
ITEM_KEYS = ["a_obs", "b_next_obs", "c_action", "d_reward", "e_done", "f_timeout", "g_state", "h_next_state"]
ITEM_LABEL = dict(a_obs="observation acted on", b_next_obs="successor observation (pre-reset successor state)", c_action="action chosen",
                  d_reward="reward of the executed (clipped) action", e_done="done = terminal | truncated", f_timeout="timeout = truncated & ~terminated",
                  g_state="policy state acted from", h_next_state="policy's next state")


def _vary_action_box(E0, rng):
    """native replays: bounded action boxes are replaced in turn by asymmetric and half-bounded ones (same shape), so that clipping against EACH bound matters"""
    if not isinstance(E0.action_space, Box):
        return E0
    n = int(np.prod(E0.action_space.shape)) or 1
    variants = [None, (np.linspace(0.0, -1.0, n), np.linspace(1.0, 3.0, n)), (np.full(n, 0.25), np.full(n, np.inf)), (np.full(n, -np.inf), np.full(n, -0.25)), (np.full(n, -0.1), np.full(n, 0.05))]
    v = variants[int(rng.randint(len(variants)))]
    if v is None:
        return E0
    shape = E0.action_space.shape
    return eqx.tree_at(lambda e: e.action_space, E0, Box(jnp.asarray(v[0], jnp.float32).reshape(shape), jnp.asarray(v[1], jnp.float32).reshape(shape)))


def native_replay_factory(cfg):
    def replay(model):
        mk_algo, mk_env, build = CONFIGS[cfg]

        def make_inputs(rng):
            E = build(_vary_action_box(mk_env(), rng))
            pol = GenericPolicy(E.action_space, E.observation_space, theta=jnp.asarray(rng.randn(2), f32))
            st = kit.concrete_like(step_state_struct(E), rng)
            st = eqx.tree_at(lambda s: s.buffer.position, st, jnp.asarray(int(rng.randint(0, 20))))
            return mk_algo(), E, pol, st, jax.random.key(int(rng.randint(1 << 30)))

        def check(algo, E, pol, st, k):
            nst = algo.step(E, pol, st, key=k, callback=SimpleCallback())
            sp = spec_step(algo, E, pol, st, *([k] * 8))
            slot = int(st.buffer.position) % st.buffer.size
            b = nst.buffer
            got = dict(a_obs=b.observations[slot], b_next_obs=b.next_observations[slot], c_action=b.actions[slot], d_reward=b.rewards[slot],
                       e_done=b.dones[slot], f_timeout=b.timeouts[slot], g_state=jax.tree.map(lambda x: x[slot], b.states),
                       h_next_state=jax.tree.map(lambda x: x[slot], b.next_states))
            problems = [f"{ITEM_LABEL[n]}: stored {kit.tolist(got[n])} != expected {kit.tolist(sp[n])}" for n in ITEM_KEYS if not kit.trees_close(got[n], sp[n])]
            if not kit.trees_close(nst.env_state, sp["env_state"]):
                problems.append("next env state differs from spec")
            if not kit.trees_close(nst.policy_state, sp["policy_state"]):
                problems.append("next policy state differs from spec")
            return (not problems), dict(problems=problems)
        return kit.native_search(check, make_inputs, bool_names=("env.terminal", "env.truncate"), trials=10)
    return replay


def unit_step(cfg):
    def unit(S):
        S.under_contract(F_STEP)
        mk_algo, mk_env, build = CONFIGS[cfg]
        ctx = Ctx()
        algo = mk_algo()
        E0 = build(mk_env())
        pol0 = GenericPolicy(E0.action_space, E0.observation_space)
        env_in, pol_in = sym(ctx, "env", E0), sym(ctx, "pi", pol0)
        st = sym(ctx, "st", step_state_struct(E0))
        cb = SimpleCallback()
        k, kc = kit.key_input("key")
        with extract.patched((ReplayBuffer, "add", add_stub)):
            nst = run(ctx, lambda a, e, p, s, kk: a.step(e, p, s, key=kk, callback=cb), algo, env_in, pol_in, st, k)
        adds = [c for c in ctx.calls if c.name == "ADD#"]
        rp = native_replay_factory(cfg)
        S.fact("step/adds-exactly-one-transition", len(adds) == 1, shape=False, function=F_STEP, what=f"[{cfg}] step inserts exactly one transition", replay=rp)
        if len(adds) != 1:
            return
        c = adds[0]
        nbuf = len(kit.leaves(st.buffer))
        S.prove("step/adds-to-own-buffer", ctx, sand(*[kit.arr_eq_at(a, b, ()) for a, b in zip(c.operands[:nbuf], kit.leaves(st.buffer))]), function=F_STEP,
                what=f"[{cfg}] the transition is added to the buffer carried in the step state", replay=rp)
        S.prove("step/buffer-result-is-add-result", ctx, sand(*[kit.arr_eq_at(a, b, ()) for a, b in zip(c.outputs, kit.leaves(nst.buffer))]), function=F_STEP,
                what=f"[{cfg}] the returned buffer is add's result", replay=rp)
        hs, holes = kit.holes_for(ctx, HOLES, kc)
        sp = run(ctx, lambda a, e, p, s, *ks: spec_step(a, e, p, s, *ks), algo, env_in, pol_in, st, *[hs[n] for n in HOLES])
        # operands after the buffer: the item dict flattened in key order
        item_ops = c.operands[nbuf:]
        pos = 0
        for nm in ITEM_KEYS:
            lv = kit.leaves(sp[nm])
            got = item_ops[pos:pos + len(lv)]
            pos += len(lv)
            S.prove(f"step/stored-{nm[2:]}", ctx, sand(*[kit.arr_eq_at(a, b, ()) for a, b in zip(got, lv)]), holes=holes, function=F_STEP, replay=rp,
                    what=f"[{cfg}] stored {ITEM_LABEL[nm]}")
        S.prove("step/env-restarts", ctx, kit.tree_eq(nst.env_state, sp["env_state"]), holes=holes, function=F_STEP, replay=rp,
                what=f"[{cfg}] env state restarts from env.initial(k) after a done step, successor otherwise")
        S.prove("step/policy-state-restarts", ctx, kit.tree_eq(nst.policy_state, sp["policy_state"]), holes=holes, function=F_STEP, replay=rp,
                what=f"[{cfg}] policy state restarts from policy.reset(k) after a done step")
        S.samples.append(dict(config=cfg, calls=[x.name for x in ctx.calls]))
    return unit


def _step_stub_factory(st_struct):
    def step_stub(self, env, policy, state, *, key, callback):
        return opaque.ocall("STEP#", st_struct, state, key)
    return step_stub


def _position_leaf_index(st):
    paths = [jax.tree_util.keystr(p) for p, l in jax.tree_util.tree_flatten_with_path(st, is_leaf=kit.is_sarr)[0] if kit.is_sarr(l)]
    return [i for i, p in enumerate(paths) if p.endswith(".buffer.position")][0]


_LOOP_REPLAY_MEMO = {}


def native_loop_count_replay(algo_name, which):
    """R1: real reset / iteration on a real environment: per-environment buffer positions after warm-up equal learning_starts, and each iteration adds num_steps, for a grid of
    (learning_starts, num_steps, num_envs) including non-multiples."""
    def replay(model):
        if algo_name not in _LOOP_REPLAY_MEMO:
            _LOOP_REPLAY_MEMO[algo_name] = _replay(model)
        return _LOOP_REPLAY_MEMO[algo_name]

    def _replay(model):
        from lerax.env.classic_control import CartPole, Pendulum
        from lerax.policy import MLPQPolicy, MLPSACPolicy
        from lvc.generic import SimpleCallback
        cb = SimpleCallback("cb")
        # the last three: learning_starts below batch_size / num_envs (0 included) - warm-up still stores exactly learning_starts
        # ... and the last two: learning_starts beyond the per-environment capacity (buffer_size // num_envs): the ring wraps, the count of stored transitions does not
        for ls, ns, ne, bs, *cap in ((10, 4, 1, 2), (3, 4, 1, 2), (5, 2, 2, 2), (4, 4, 1, 2), (7, 3, 2, 2), (0, 4, 1, 2), (2, 8, 1, 8), (1, 4, 2, 4), (12, 2, 2, 2, 16), (9, 2, 1, 2, 4)):
            if algo_name == "DQN":
                env = CartPole()
                algo = DQN(num_envs=ne, buffer_size=(cap or [64])[0], learning_starts=ls, num_steps=ns, batch_size=bs)
                pol = MLPQPolicy(env, width_size=4, depth=1, key=jax.random.key(0))
            else:
                env = Pendulum()
                algo = SAC(num_envs=ne, buffer_size=(cap or [64])[0], learning_starts=ls, num_steps=ns, batch_size=bs, q_width_size=4, q_depth=1)
                pol = MLPSACPolicy(env, feature_size=4, width_size=4, depth=1, key=jax.random.key(0))
            st = algo.reset(env, pol, key=jax.random.key(1), callback=cb)
            p0 = np.asarray(st.step_state.buffer.position).reshape(-1).tolist()
            st1 = algo.iteration(st, key=jax.random.key(2), callback=cb)
            p1 = np.asarray(st1.step_state.buffer.position).reshape(-1).tolist()
            if p0 != [ls] * ne or p1 != [ls + ns] * ne:
                return dict(reproduced=True, route=f"R1 (real {algo_name}.reset / iteration on a real environment and policy)", inputs=dict(learning_starts=ls, num_steps=ns, num_envs=ne, batch_size=bs, buffer_size=(cap or [64])[0]),
                            observed=dict(stored_after_warm_up=p0, stored_after_one_iteration=p1, expected=[[ls] * ne, [ls + ns] * ne]))
        return dict(reproduced=False, note="warm-up stores learning_starts and every iteration num_steps transitions per environment on 10 configurations (3 with learning_starts < batch_size / num_envs, 2 with learning_starts beyond the per-environment capacity)")
    return replay


def unit_loops(S):
    """collect_learning_starts / collect_rollout: one forward scan of length learning_starts / num_steps whose body is
    `step` (callee contract: buffer.position' = buffer.position + 1, via add's contract); hence position grows by exactly
    L resp. T (loop rule: invariant position(k) = position(0) + k)."""
    S.under_contract(F_LS, F_CR)
    L, T, NE, BS = symbolic_dims("L, T, NE, BS")
    for which, fname, dim in (("collect_learning_starts", F_LS, L), ("collect_rollout", F_CR, T)):
        # num_envs and batch_size symbolic: the per-environment loops must not depend on the number of environments or on the batch size
        for algo_name, mk in (("DQN", lambda: DQN(num_envs=NE, buffer_size=8, learning_starts=L, num_steps=T, batch_size=BS)),
                              ("SAC", lambda: SAC(num_envs=NE, buffer_size=8, learning_starts=L, num_steps=T, batch_size=BS))):
            ctx = Ctx()
            algo = mk()
            E0 = GenericEnv(Discrete(3)) if algo_name == "DQN" else GenericEnv(BOXA())
            pol0 = GenericPolicy(E0.action_space, E0.observation_space)
            env_in, pol_in = sym(ctx, "env", E0), sym(ctx, "pi", pol0)
            st = sym(ctx, "st", step_state_struct(E0))
            cb = SimpleCallback()
            k, kc = kit.key_input("key")
            st_struct = jax.tree.map(lambda x: sd(x.shape, x.dtype), step_state_struct(E0))
            pidx = _position_leaf_index(st)

            def hook(c, call, pidx=pidx):
                c.assume(call.outputs[pidx].scalar() == call.operands[pidx].scalar() + 1)  # callee contract of step (C06 add + step/adds-exactly-one)
            ctx.callee_contracts["STEP#"] = hook
            tag = f"{algo_name}.{which}"
            S.default_replay = native_loop_count_replay(algo_name, which)
            try:
                with extract.patched((AbstractOffPolicyAlgorithm, "step", _step_stub_factory(st_struct))):
                    fin = run(ctx, lambda a, e, p, s, kk: getattr(a, which)(e, p, s, cb, kk), algo, env_in, pol_in, st, k)
            except Exception as e:      # InconclusiveDimensionOperation: the trip count is decided by comparing hyper-parameters (L, T, NE, BS arbitrary)
                if "InconclusiveDimensionOperation" not in type(e).__name__:
                    raise
                S.fact(f"{tag}/one-scan-of-length", False, function=fname, what=f"one forward scan with trip count {dim} (symbolic); the loop length must not depend on any other hyper-parameter",
                       detail=str(e)[:300], replay=native_loop_count_replay(algo_name, which))
                continue
            dz = ctx.dim(dim)
            ok = len(ctx.scans) == 1 and z3.is_expr(ctx.scans[0].length) and ctx.scans[0].length.eq(dz) and not ctx.scans[0].reverse
            S.fact(f"{tag}/one-scan-of-length", ok, function=fname, what=f"one forward scan with trip count {dim} (symbolic)", replay=native_loop_count_replay(algo_name, which))
            if not ok:
                continue
            rec = ctx.scans[0]
            j = z3.Int("j")
            carry = rec.carry_sarrs(j)
            n_before = len(ctx.calls)
            newc, _ = rec.body(carry, j)
            c = [c for c in ctx.calls[n_before:] if c.name == "STEP#"][0]  # the call made by THIS body instance
            n_st = len(kit.leaves(st))
            S.prove(f"{tag}/body-is-step", ctx, sand(*[kit.arr_eq_at(a, b, ()) for a, b in zip(c.operands[:n_st], carry)],
                                                     *[kit.arr_eq_at(a, b, ()) for a, b in zip(c.outputs, newc)]),
                    hyps=[j >= 0, j < dz], function=fname, what="scan body at iteration j: carry' = step(carry_j, key_j) (per_step is the identity)")
            # loop rule for the ghost count: Inv(k): position(k) = position(0) + k
            p0 = kit.leaves(st)[pidx].scalar()
            S.prove(f"{tag}/position-initiation", ctx, rec.carry_sarrs(0)[pidx].scalar() == p0, function=fname, what="Inv(0): the scan starts from the given step state")
            S.prove(f"{tag}/position-consecution", ctx, newc[pidx].scalar() == p0 + j + 1, hyps=[j >= 0, j < dz, carry[pidx].scalar() == p0 + j], function=fname,
                    what="Inv(j) => Inv(j+1): every iteration stores exactly one more transition")
            finl = kit.leaves(fin)
            S.prove(f"{tag}/returns-final-carry", ctx, sand(*[kit.arr_eq_at(a, b, ()) for a, b in zip(finl, rec.carry_sarrs(dz))]), function=fname,
                    what=f"result is the carry after {dim} iterations; with the invariant: position' = position + {dim}")


def unit_initial(S):
    S.default_replay = native_loop_count_replay("DQN", "collect_learning_starts")
    S.under_contract(F_INIT)
    (C,) = symbolic_dims("C")
    ctx = Ctx()
    E0 = GenericEnv(BOXA())
    pol0 = GenericPolicy(E0.action_space, E0.observation_space)
    env_in, pol_in = sym(ctx, "env", E0), sym(ctx, "pi", pol0)
    cb = SimpleCallback()
    k, kc = kit.key_input("key")
    st = run(ctx, lambda e, p, kk: AbstractOffPolicyStepState.initial(C, e, p, cb, kk), env_in, pol_in, k)
    hs, holes = kit.holes_for(ctx, {"ke": "env.initial", "kp": "pi.reset"}, kc)
    sp = run(ctx, lambda e, p, ke, kp: (e.initial(key=ke), p.reset(key=kp)), env_in, pol_in, hs["ke"], hs["kp"])
    S.prove("initial/fresh-states", ctx, sand(kit.tree_eq(st.env_state, sp[0]), kit.tree_eq(st.policy_state, sp[1])), holes=holes, function=F_INIT,
            what="initial step state = (env.initial(k1), policy.reset(k2))")
    S.prove("initial/empty-buffer", ctx, ir.seq(st.buffer.position.scalar(), 0), function=F_INIT, what="the replay buffer starts empty (position 0)")
    S.fact("initial/buffer-capacity", str(st.buffer.size) == str(C), function=F_INIT, what="buffer capacity is the requested size")


def unit_reset(S):
    """reset(): per-environment step states each with its own buffer of capacity buffer_size // num_envs, then
    collect_learning_starts on every environment before the first update (num_envs lanes, pointwise)."""
    S.default_replay = native_loop_count_replay("DQN", "collect_learning_starts")
    S.under_contract(F_RESET)
    for n_envs in (1, 3):
        for algo_name, mk in (("DQN", lambda n: DQN(num_envs=n, buffer_size=12, learning_starts=5, batch_size=2)),):
            ctx = Ctx()
            algo = mk(n_envs)
            E0 = GenericEnv(Discrete(3))
            pol0 = GenericPolicy(E0.action_space, E0.observation_space)
            env_in, pol_in = sym(ctx, "env", E0), sym(ctx, "pi", pol0)
            cb = SimpleCallback()
            k, kc = kit.key_input("key")
            cap = 12 // n_envs
            st_struct = jax.tree.map(lambda x: sd(x.shape, x.dtype), step_state_struct(E0, cap))

            def ls_stub(self, env, policy, step_state, callback, key):
                # result structure (incl. the static buffer capacity) is that of the step state the REAL reset built
                return opaque.ocall("WARMUP#", jax.tree.map(lambda x: sd(x.shape, x.dtype), step_state), step_state, key)

            with extract.patched((AbstractOffPolicyAlgorithm, "collect_learning_starts", ls_stub)):
                state = run(ctx, lambda a, e, p, kk: AbstractOffPolicyAlgorithm.reset(a, e, p, key=kk, callback=cb), algo, env_in, pol_in, k)
            warm = [c for c in ctx.calls if c.name == "WARMUP#"]
            tag = f"{algo_name}.reset[num_envs={n_envs}]"
            lanes_ok = len(warm) == 1 and (len(warm[0].levels) == (0 if n_envs == 1 else 1))
            if lanes_ok and n_envs > 1:
                mask = warm[0].levels[0]
                lanes_ok = all(mask)  # step state AND key are per-lane
            S.fact(f"{tag}/warm-up-once-per-environment", lanes_ok, shape=False, function=F_RESET, replay=(lambda m: __import__("contracts.C12", fromlist=["x"]).native_reset_lane_replay(m)),
                   what="collect_learning_starts runs once per environment (vmapped pointwise over step state and key) before reset returns", detail=[c.levels for c in warm])
            S.fact(f"{tag}/per-environment-capacity", state.step_state.buffer.size == cap, function=F_RESET,
                   what="each environment owns a buffer of capacity buffer_size // num_envs", detail=state.step_state.buffer.size)
            if len(warm) == 1:
                w = warm[0]
                lead = () if n_envs == 1 else (z3.Int("lane"),)
                hy = [] if n_envs == 1 else [lead[0] >= 0, lead[0] < n_envs]
                S.prove(f"{tag}/state-is-warm-up-result", ctx, sand(*[kit.arr_eq_at(a, b, lead) for a, b in zip(w.outputs, kit.leaves(state.step_state))]),
                        hyps=hy, function=F_RESET, what="the step state handed to training is the warm-up result (learning_starts transitions stored per environment)")
                pidx = _position_leaf_index(state.step_state)
                S.prove(f"{tag}/warm-up-starts-empty", ctx, ir.seq(w.operands[pidx].at(lead), 0), hyps=hy, function=F_RESET,
                        what="warm-up starts from an empty buffer: position = learning_starts exactly when it ends")
            S.prove(f"{tag}/iteration-count-zero", ctx, ir.seq(state.iteration_count.scalar(), 0), function=F_RESET, what="iteration counter starts at 0")


def _stored_slot(kind):
    """what `step` hands to the buffer is what the buffer holds: ReplayBuffer.add writes every field of one insertion (flags included) into the same slot, replacing whatever the slot
    held before, also after wrap-around (contract stated in C06)"""
    def unit(S):
        from contracts import C06
        C06.unit_add(kind)(S)
    return unit


UNITS = [("stored-slot:box", _stored_slot("box")), ("stored-slot:discrete", _stored_slot("discrete"))] + [(f"step:{c}", unit_step(c)) for c in CONFIGS] + [("loops", unit_loops), ("initial", unit_initial), ("reset", unit_reset)]
