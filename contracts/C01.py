"""C01 - Gym-style step/reset honours episode boundaries (auto-reset contract).

Functions under contract: AbstractEnvLike.step / reset (the only implementations: checked structurally on
every run), `initial` of every wrapper class (counter restart), LeraxToGymEnv.step/reset.

Contract of E.step(s, a, key) for an arbitrary env-like E (generic environment, or any wrapper stack over it;
the spec is phrased with E's OWN component functions, so it is the same text for every stack):
    ns    = E.transition(s, a, k1)          r     = E.reward(s, a, ns, k2)
    term  = E.terminal(ns, k3)              trunc = E.truncate(ns)
    info  = E.transition_info(s, a, ns)
    s'    = E.initial(k4)  if term or trunc else ns
    o     = E.observation(s', k5)
with k1..k5 existential key holes filled from the keys the real code passes to the collaborator (DESIGN 1.3);
k4 must be derived from the step key.
"""
from __future__ import annotations

import jax
import jax.numpy as jnp
import numpy as np
import z3

from lerax.env import AbstractEnvLike
from lerax.space import Box, Discrete
from lerax import wrapper as W

from lvc import kit, ir, extract
from lvc.generic import GenericEnv, GenericInnerEnv
from lvc.kit import Ctx, run, sym, tree_eq_named, sand

PROPERTY = "C01"
TRUSTED = ["A-PURE: env component functions are functions of their explicit arguments",
           "A-XLA: jaxpr semantics as encoded in lvc/ir.py",
           "jax.random.split is an (uninterpreted) function of (key, n, i)"]
ASSUMPTIONS = ["keys in postconditions are existential (any key derived from the step key)",
               "float arithmetic as reals (only clip / rescale inside wrappers touch floats here)"]
DROPS = ["D1 static Python control flow resolved per configuration (stack shape, space kind)",
         "eqx.filter_jit wrapper of step/reset is traced through (jit is semantically the identity, A-XLA)"]
NOT_DECIDED = []

F_STEP = "lerax.env.base_env:AbstractEnvLike.step"
F_RESET = "lerax.env.base_env:AbstractEnvLike.reset"


# ---- wrapper stacks ---------------------------------------------------------------------------

def _box_env(**kw):
    return GenericInnerEnv(Box(-jnp.ones((2,)), jnp.ones((2,))), **kw)


def _disc_env(**kw):
    return GenericInnerEnv(Discrete(3), **kw)


def _bounded_obs_env():
    return GenericInnerEnv(Box(-jnp.ones((2,)), jnp.ones((2,))), observation_space=Box(-2 * jnp.ones((2,)), 2 * jnp.ones((2,))))


STACKS = {
    "plain-box": (_box_env, lambda e: e),
    "plain-discrete": (_disc_env, lambda e: e),
    "Identity": (_box_env, lambda e: W.Identity(e)),
    "TimeLimit": (_box_env, lambda e: W.TimeLimit(e, 7)),
    "TimeLimit-discrete-masked": (lambda: _disc_env(masked=True), lambda e: W.TimeLimit(e, 7)),
    "ClipAction": (_box_env, lambda e: W.ClipAction(e)),
    "RescaleAction": (_box_env, lambda e: W.RescaleAction(e)),
    "TransformAction": (_box_env, lambda e: W.TransformAction(e, lambda a: 2.0 * a, e.action_space)),
    "ClipObservation": (_bounded_obs_env, lambda e: W.ClipObservation(e)),
    "RescaleObservation": (_bounded_obs_env, lambda e: W.RescaleObservation(e)),
    "FlattenObservation": (_box_env, lambda e: W.FlattenObservation(e)),
    "TransformObservation": (_box_env, lambda e: W.TransformObservation(e, lambda o: o + 1.0, e.observation_space)),
    "TimeLimit(ClipAction)": (_box_env, lambda e: W.TimeLimit(W.ClipAction(e), 5)),
    "ClipAction(TimeLimit)": (_box_env, lambda e: W.ClipAction(W.TimeLimit(e, 5))),
    "TimeLimit(TimeLimit)": (_box_env, lambda e: W.TimeLimit(W.TimeLimit(e, 9), 5)),
    "TimeLimit(shorter TimeLimit)": (_box_env, lambda e: W.TimeLimit(W.TimeLimit(e, 3), 10)),
    "Flatten(Rescale(TimeLimit))": (_bounded_obs_env, lambda e: W.FlattenObservation(W.RescaleObservation(W.TimeLimit(e, 5)))),
    "TimeLimit(RescaleAction(ClipObservation))": (_bounded_obs_env, lambda e: W.TimeLimit(W.RescaleAction(W.ClipObservation(e)), 4)),
}
QUICK_STACKS = list(STACKS)


def _reward_wrappers():
    out = {}
    try:
        W.ClipReward(_box_env(), -1.0, 1.0)
        out["ClipReward"] = (_box_env, lambda e: W.ClipReward(e, -1.0, 1.0))
        out["TimeLimit(TransformReward)"] = (_box_env, lambda e: W.TimeLimit(W.TransformReward(e, lambda r: 2.0 * r), 5))
        out["ClipReward(TimeLimit)"] = (_box_env, lambda e: W.ClipReward(W.TimeLimit(e, 5), -1.0, 1.0))
        out["RescaleObservation(ClipReward(TimeLimit))"] = (_bounded_obs_env, lambda e: W.RescaleObservation(W.ClipReward(W.TimeLimit(e, 5), -1.0, 1.0)))
        out["TransformReward(TimeLimit(ClipAction))"] = (_box_env, lambda e: W.TransformReward(W.TimeLimit(W.ClipAction(e), 4), lambda r: r - 1.0))
    except Exception:
        pass  # constructibility of reward wrappers is C13's obligation
    return out


STACKS.update(_reward_wrappers())


def spec_step(E, s, a, k1, k2, k3, k4, k5):
    ns = E.transition(s, a, key=k1)
    r = E.reward(s, a, ns, key=k2)
    term = E.terminal(ns, key=k3)
    trunc = E.truncate(ns)
    info = E.transition_info(s, a, ns)
    fresh = E.initial(key=k4)
    done = term | trunc
    s2 = jax.tree.map(lambda x, y: jnp.where(done, x, y), fresh, ns)
    o = E.observation(s2, key=k5)
    return s2, o, r, term, trunc, info


def spec_reset(E, k1, k2):
    s = E.initial(key=k1)
    return s, E.observation(s, key=k2), E.state_info(s)


def _state_struct(E):
    return jax.eval_shape(lambda k: E.initial(key=k), jax.random.key(0))


def _action_struct(E):
    sp = E.action_space
    if isinstance(sp, Discrete):
        return jax.ShapeDtypeStruct((), jnp.int32)
    return jax.ShapeDtypeStruct(sp.shape, jnp.float32)


def _native_replay(stack_name, which):
    mk, build = STACKS[stack_name]

    def replay(model):
        def make_inputs(rng):
            base = mk()
            E = build(base)
            s = kit.concrete_like(_state_struct(E), rng)
            a = kit.concrete_like(_action_struct(E), rng)
            k = jax.random.key(int(rng.randint(1 << 30)))
            return E, s, a, k

        def check(E, s, a, k):
            if which == "step":
                real = E.step(s, a, key=k)
                spec = spec_step(E, s, a, k, k, k, k, k)
            else:
                real = E.reset(key=k)
                spec = spec_reset(E, k, k)
            ok = kit.trees_close(real, spec)
            return ok, dict(real=kit.tolist(real), spec=kit.tolist(spec))
        return kit.native_search(check, make_inputs, bool_names=("env.terminal", "env.truncate"))
    return replay


def _native_truncation_replay(stack_name):
    """R1: the real stack over a deterministic generic environment whose own terminal / truncate flags are forced False (the decoy `unwrapped` likewise), stepped eagerly from a
    reset: the truncated flag must be raised exactly when the innermost TimeLimit level reaches its limit and the returned state must then be fresh (counters 0)."""
    mk, build = STACKS[stack_name]

    def replay(model):
        from lvc import opaque
        E = build(mk())
        limits, e = [], E
        while hasattr(e, "env"):
            if isinstance(e, W.TimeLimit):
                limits.append(int(e.max_episode_steps))
            e = e.env
        if not limits:
            return dict(reproduced=False, note="no TimeLimit level in this stack")
        L = min(limits)
        old_ik, old_ov = opaque.IGNORE_KEYS, dict(opaque.OVERRIDES)
        opaque.IGNORE_KEYS = True
        for nm in ("env.terminal", "env.truncate", "decoy.terminal", "decoy.truncate"):
            opaque.OVERRIDES[nm] = [np.asarray(False)]
        try:
            with jax.disable_jit():
                s, _, _ = E.reset(key=jax.random.key(0))
                a = jnp.zeros(E.action_space.shape, jnp.float32) if isinstance(E.action_space, Box) else jnp.asarray(0)
                flags = []
                for t in range(1, 2 * L + 2):
                    s, _, _, term, trunc, _ = E.step(s, a, key=jax.random.key(t))
                    flags.append(bool(trunc))
                    counters = [int(l) for p, l in jax.tree_util.tree_flatten_with_path(s)[0] if "step_count" in jax.tree_util.keystr(p)]
                    expected = (t % L == 0)
                    if bool(trunc) != expected or (expected and any(counters)) or bool(term):
                        return dict(reproduced=True, route="R1 (real wrapper stack over a deterministic generic environment, inner flags forced False, eager steps from a reset)",
                                    inputs=dict(stack=stack_name, smallest_time_limit=L, step=t), observed=dict(truncated_flags_so_far=flags, expected_truncated=expected, counters_in_returned_state=counters))
                # second phase: the base environment itself truncates (flag forced True): every step must report truncated and return a fresh state
                for nm in ("env.truncate", "decoy.truncate"):
                    opaque.OVERRIDES[nm] = [np.asarray(True)]
                s, _, _ = E.reset(key=jax.random.key(1))
                for t in range(1, 4):
                    s, _, _, term, trunc, _ = E.step(s, a, key=jax.random.key(100 + t))
                    counters = [int(l) for p, l in jax.tree_util.tree_flatten_with_path(s)[0] if "step_count" in jax.tree_util.keystr(p)]
                    if not bool(trunc) or any(counters):
                        return dict(reproduced=True, route="R1 (real wrapper stack over a deterministic generic environment whose own truncate flag is forced True)",
                                    inputs=dict(stack=stack_name, step=t, inner_truncate=True), observed=dict(truncated=bool(trunc), counters_in_returned_state=counters))
            return dict(reproduced=False, note=f"truncation raised exactly every {L} steps and whenever the base environment truncates; counters restart")
        finally:
            opaque.IGNORE_KEYS = old_ik
            opaque.OVERRIDES.clear()
            opaque.OVERRIDES.update(old_ov)
    return replay


def _both_replays(r1, r2):
    def replay(model):
        a = r1(model)
        return a if a.get("reproduced") else r2(model)
    return replay


def unit_stack(name):
    def unit(S):
        S.under_contract(F_STEP, F_RESET)
        mk, build = STACKS[name]
        base = mk()
        # ---- step ----
        ctx = Ctx()
        E0 = build(base)  # stack built eagerly: closure constants of wrappers (clip bounds, affine maps) are concrete
        env_in = sym(ctx, "env", E0)  # every array leaf of the stack (spaces, max_episode_steps) is symbolic
        s_in = sym(ctx, "s", _state_struct(E0))
        a_in = sym(ctx, "a", _action_struct(E0))
        k_in, kc = kit.key_input("key")
        real = run(ctx, lambda e, s, a, k: e.step(s, a, key=k), env_in, s_in, a_in, k_in)
        hs, holes = kit.holes_for(ctx, {"k1": "env.transition", "k2": "env.reward", "k3": "env.terminal",
                                        "k4": "env.initial", "k5": "env.observation"}, kc)
        spec = run(ctx, lambda e, s, a, k1, k2, k3, k4, k5: spec_step(e, s, a, k1, k2, k3, k4, k5),
                   env_in, s_in, a_in, hs["k1"], hs["k2"], hs["k3"], hs["k4"], hs["k5"])
        labels = ["state", "observation", "reward", "terminal", "truncated", "info"]
        for lab, r, sp in zip(labels, real, spec):
            goal = sand(*[f for _, f in tree_eq_named(r, sp)])
            S.prove(f"step/{lab}", ctx, goal, function=F_STEP, holes=holes, replay=_both_replays(_native_replay(name, "step"), _native_truncation_replay(name)),
                    what=f"[{name}] step's {lab} equals the spec (transition taken; fresh initial state iff terminal|truncated; "
                         f"observation of the returned state)")
        # end-to-end truncation through the stack: the stack's truncate is the base environment's truncate of the inner-most state OR any TimeLimit level having reached its limit
        def spec_trunc(E, s):
            t, e, st = jnp.asarray(False), E, s
            while hasattr(e, "env"):
                if isinstance(e, W.TimeLimit):
                    t = t | (st.step_count >= e.max_episode_steps)
                e, st = e.env, st.env_state
            return t | e.truncate(st)
        if hasattr(E0, "env"):
            tr_real = run(ctx, lambda e, s: e.truncate(s), env_in, s_in)
            tr_spec = run(ctx, spec_trunc, env_in, s_in)
            S.prove("truncate/through-the-stack", ctx, tr_real.scalar() == tr_spec.scalar(), function=F_STEP, replay=_native_truncation_replay(name),
                    what=f"[{name}] the stack's truncate flag is the base environment's OR a TimeLimit level at its limit - every wrapper asks the object it wraps, none skips a level")
        # counter restart + freshly drawn inner-most state on a done step
        new_state = real[0]
        term, trunc = real[3].scalar(), real[4].scalar()
        counters = [l for p, l in jax.tree_util.tree_flatten_with_path(new_state, is_leaf=kit.is_sarr)[0]
                    if "step_count" in jax.tree_util.keystr(p)]
        if counters:
            goal = ir.simplies(ir.sor(term, trunc), sand(*[ir.seq(c.scalar(), 0) for c in counters]))
            S.prove("step/counters-restart", ctx, goal, function=F_STEP,
                    what=f"[{name}] every wrapper counter is 0 in the state returned by a done step",
                    replay=_native_replay(name, "step"))
        # ---- reset ----
        ctx2 = Ctx()
        env_in = sym(ctx2, "env", E0)
        k_in, kc = kit.key_input("key")
        real = run(ctx2, lambda e, k: e.reset(key=k), env_in, k_in)
        hs, holes = kit.holes_for(ctx2, {"k1": "env.initial", "k2": "env.observation"}, kc)
        spec = run(ctx2, lambda e, k1, k2: spec_reset(e, k1, k2), env_in, hs["k1"], hs["k2"])
        for lab, r, sp in zip(["state", "observation", "info"], real, spec):
            goal = sand(*[f for _, f in tree_eq_named(r, sp)])
            S.prove(f"reset/{lab}", ctx2, goal, function=F_RESET, holes=holes, replay=_native_replay(name, "reset"),
                    what=f"[{name}] reset's {lab}: an initial state with that state's own observation and info")
        S.samples.append(dict(stack=name, step_outputs=[str(x) for x in jax.tree.leaves(real, is_leaf=kit.is_sarr)][:6]))
    return unit


def unit_structure(S):
    """No class in lerax overrides step/reset, so the generic proof covers every environment and stack."""
    from contracts import C13
    C13.timelimit_ctor_obligation(S)
    import importlib, pkgutil, inspect, lerax
    S.under_contract(F_STEP, F_RESET)
    offenders = []
    seen = 0
    for pkg in ("lerax.env", "lerax.wrapper", "lerax.compatibility"):
        m = importlib.import_module(pkg)
        for mi in pkgutil.walk_packages(m.__path__, pkg + "."):
            try:
                mod = importlib.import_module(mi.name)
            except Exception:
                continue
            for _, cls in inspect.getmembers(mod, inspect.isclass):
                if issubclass(cls, AbstractEnvLike) and cls is not AbstractEnvLike:
                    seen += 1
                    for meth in ("step", "reset"):
                        if meth in vars(cls):
                            offenders.append(f"{cls.__module__}.{cls.__qualname__}.{meth}")
    S.fact("no-overrides", not offenders and seen > 10, function=F_STEP,
           what=f"none of the {seen} AbstractEnvLike subclasses in lerax.env / lerax.wrapper / lerax.compatibility overrides step or reset",
           detail=offenders)


def unit_wrapper_initial(S):
    """Each wrapper's initial(key): inner state = inner.initial(key) (freshly drawn), TimeLimit counter = 0."""
    cases = {
        "Identity": lambda e: W.Identity(e),
        "TimeLimit": lambda e: W.TimeLimit(e, 7),
        "ClipAction": lambda e: W.ClipAction(e),
        "TransformObservation": lambda e: W.TransformObservation(e, lambda o: o, e.observation_space),
    }
    if "ClipReward" in STACKS:
        cases["ClipReward"] = lambda e: W.ClipReward(e, -1.0, 1.0)
    for name, build in cases.items():
        ctx = Ctx()
        base = _box_env()
        E0 = build(base)
        fn = f"lerax.wrapper:{type(E0).__name__}.initial"
        S.under_contract(fn)
        env_in = sym(ctx, "env", E0)
        k_in, kc = kit.key_input("key")
        st = run(ctx, lambda e, k: e.initial(key=k), env_in, k_in)
        inner = run(ctx, lambda e, k: e.env.initial(key=k), env_in, k_in)
        S.prove(f"{name}.initial/inner-fresh", ctx, kit.tree_eq(st.env_state, inner), function=fn,
                what="wrapped initial state holds inner.initial(key) for the same key")
        if hasattr(st, "step_count"):
            S.prove(f"{name}.initial/counter-zero", ctx, ir.seq(st.step_count.scalar(), 0), function=fn,
                    what="TimeLimit.initial starts the episode clock at 0")


def native_gym_adapter_replay(model):
    """R1: the real LeraxToGymEnv over TimeLimit(CartPole, 3) driven through every sequence of up to 6 operations over {step, reset(), reset(seed=5)}; after every operation the
    property's own clauses are checked on the adapter's state: reset (and a flagged step) leaves an INITIAL state (episode clock and TimeLimit counter 0, reset-range coordinates) and
    returns that state's own observation; an unflagged step advances the counter by one and returns the successor's observation; truncation is reported exactly at the 3rd step."""
    import itertools
    import lerax.wrapper as W_
    from lerax.compatibility import gym as G
    from lerax.env.classic_control import CartPole
    env = W_.TimeLimit(CartPole(), 3)
    ops = ("step", "reset", "seed")

    def initial_and_own_obs(g, obs):
        y = np.asarray(g.state.env_state.y, np.float64)
        return int(g.state.step_count) == 0 and float(g.state.env_state.t) == 0.0 and bool(np.all(np.abs(y) <= 0.05 + 1e-6)) and np.allclose(np.asarray(obs, np.float64), y, atol=1e-7)
    fresh_obs = {}
    for n in (4, 6):
        for seq in itertools.product(ops, repeat=n):
            if n == 6 and seq.count("step") < 4:
                continue
            g = G.LeraxToGymEnv(env)
            g.reset(seed=1)
            for t, op in enumerate(seq):
                prev_count = int(g.state.step_count)
                if op == "step":
                    obs, rew, term, trunc, _ = g.step(np.int64(t % 2))
                    if term or trunc:
                        ok = initial_and_own_obs(g, obs)
                    else:
                        ok = int(g.state.step_count) == prev_count + 1 and np.allclose(np.asarray(obs, np.float64), np.asarray(g.state.env_state.y, np.float64), atol=1e-7)
                    ok = ok and bool(trunc) == (prev_count + 1 >= 3) and float(rew) == 1.0
                    got = dict(obs=np.asarray(obs).tolist(), reward=float(rew), terminated=bool(term), truncated=bool(trunc))
                else:
                    sd_ = (5 if t % 2 else 0)
                    obs, _ = g.reset(seed=sd_) if op == "seed" else g.reset()
                    ok = initial_and_own_obs(g, obs)
                    got = dict(obs=np.asarray(obs).tolist())
                    if op == "seed":   # a seeded reset determines the episode: same observation as a fresh adapter seeded alike
                        if sd_ not in fresh_obs:
                            fresh_obs[sd_] = np.asarray(G.LeraxToGymEnv(env).reset(seed=sd_)[0])
                        ok = ok and np.array_equal(np.asarray(obs), fresh_obs[sd_])
                        got["fresh_adapter_same_seed_obs"] = fresh_obs[sd_].tolist()
                        got["seed"] = sd_
                if not ok:
                    return dict(reproduced=True, route="R1 (real LeraxToGymEnv over TimeLimit(CartPole(), 3); the property's clauses checked on the adapter's own state after every operation)",
                                inputs=dict(operations=list(seq[:t + 1]), first_reset_seed=1),
                                observed=dict(returned=got, state_after=dict(step_count=int(g.state.step_count), t=float(g.state.env_state.t), y=np.asarray(g.state.env_state.y).tolist()), step_count_before=prev_count))
    return dict(reproduced=False, note="every operation sequence of length 4 and the step-heavy ones of length 6 keep the episode-boundary clauses")


def unit_gym_adapter(S):
    """LeraxToGymEnv: (state', returned tuple) == env.step(state, asarray(action), key=k) with k derived from
    self.key and self.key' != k; reset likewise (stateful object against its abstract view (state, key))."""
    from lerax.compatibility import gym as G
    fn_step, fn_reset = "lerax.compatibility.gym:LeraxToGymEnv.step", "lerax.compatibility.gym:LeraxToGymEnv.reset"
    S.under_contract(fn_step, fn_reset)
    ident = lambda x: x
    patches = [(G, "jax_to_numpy", ident), (G, "to_numpy_tree", ident), (G, "float", ident), (G, "bool", ident),
               (G, "lerax_to_gym_space", lambda sp: None)]
    base = _box_env()

    written = {"step": set(), "reset": set()}

    def _changed(before, g):
        after = dict(vars(g))
        return {k_ for k_ in set(before) | set(after) if before.get(k_, _changed) is not after.get(k_, _changed)}

    def do_step(env, state, key, action):
        with extract.patched(*patches):
            g = G.LeraxToGymEnv(env)
            g.state, g.key = state, key
            before = dict(vars(g))
            out = g.step(action)
            written["step"] |= _changed(before, g)
            return g.state, g.key, out

    def do_reset(env, key):
        with extract.patched(*patches):
            g = G.LeraxToGymEnv(env)
            g.key = key
            before = dict(vars(g))
            out = g.reset()
            written["reset"] |= _changed(before, g)
            return g.state, g.key, out

    ctx = Ctx()
    env_in = sym(ctx, "env", base)
    s_in = sym(ctx, "s", _state_struct(base))
    a_in = sym(ctx, "a", _action_struct(base))
    k_in, kc = kit.key_input("selfkey")
    st2, key2, out = run(ctx, do_step, env_in, s_in, k_in, a_in)
    # the key handed to env.step: candidates = keys reaching env.transition's ancestors; recover it as the hole of env.step
    hk, hc = kit.key_input("hole_step")
    # candidates for 'the key handed to env.step' / 'the adapter's next key': every key term derived from self.key that occurs in the adapter's results (any derivation)
    cands = kit.key_subterms(kit.leaves((st2, key2, out)), must_contain=[kc], limit=6)
    spec = run(ctx, lambda e, s, a, k: e.step(s, a, key=k), env_in, s_in, a_in, hk)
    goal = sand(kit.tree_eq(st2, spec[0]), kit.tree_eq(out, tuple(spec[1:])))
    rec_d = S.prove("LeraxToGymEnv.step/delegates", ctx, goal, holes={hc: cands}, function=fn_step, replay=native_gym_adapter_replay,
                    what="adapter's new state and returned (obs, reward, terminated, truncated, info) are env.step(self.state, action, key=k), k derived from self.key")
    step_key = (rec_d.get("_hole_terms") or [None])[0] if rec_d is not None and rec_d.get("status") == "discharged" else None
    hn, hnc = kit.key_input("hole_next")
    S.prove("LeraxToGymEnv.step/key-advances", ctx, sand(goal, key2.scalar() == hnc, hnc != hc), hyps=kit.rng_ground_injectivity(cands),
            holes={hc: ([step_key] if step_key is not None else cands), hnc: cands}, function=fn_step,
            what="self.key is replaced by one half of split(self.key); the other half (a different key) drives env.step")
    ctx = Ctx()
    env_in = sym(ctx, "env", base)
    k_in, kc = kit.key_input("selfkey")
    st2, key2, out = run(ctx, do_reset, env_in, k_in)
    hk, hc = kit.key_input("hole_reset")
    cands = kit.key_subterms(kit.leaves((st2, key2, out)), must_contain=[kc], limit=6)
    spec = run(ctx, lambda e, k: e.reset(key=k), env_in, hk)
    goal = sand(kit.tree_eq(st2, spec[0]), kit.tree_eq(out, tuple(spec[1:])))
    S.prove("LeraxToGymEnv.reset/delegates", ctx, goal, holes={hc: cands}, function=fn_reset, replay=native_gym_adapter_replay,
            what="adapter's reset stores and returns env.reset(key=k), k split from self.key")
    # reset(seed=s): the key is re-seeded first, so state, key and returned pair are functions of s alone - nothing of the adapter's previous key survives (every s, 0 included)
    from lvc.vc import term_contains
    for seed in (0, 5):
        def do_reset_seed(env, key, seed=seed):
            with extract.patched(*patches):
                g = G.LeraxToGymEnv(env)
                g.key = key
                out = g.reset(seed=seed)
                return g.state, g.key, out
        ctx = Ctx()
        env_in = sym(ctx, "env", base)
        k_in, kc = kit.key_input("selfkey")
        st3, key3, out3 = run(ctx, do_reset_seed, env_in, k_in)
        dep = []
        for l in kit.leaves((st3, key3, out3)):
            for ix in l.indices():
                t = l.at(ix)
                if ir.is_z3(t) and term_contains(t, kc):
                    dep.append(str(l))
                    break
        S.fact(f"LeraxToGymEnv.reset[seed={seed}]/independent-of-previous-key", not dep, function=fn_reset, replay=native_gym_adapter_replay,
               what="after reset(seed=s) the adapter's state, key and the returned observation do not depend on the key it held before: the episode is determined by s", detail=dep[:4])

    # frame: the adapter is a stateful object whose abstract view is (state, key); the two obligations above describe step / reset as functions of that view, which is the whole story
    # only if step / reset write nothing else.  Another written attribute is hidden state outside the contract: decided natively over operation sequences (a reproduced divergence from
    # the functional API is a violation; otherwise undecided).
    extra = {op: sorted(w - {"state", "key"}) for op, w in written.items()}
    if not any(extra.values()):
        S.fact("LeraxToGymEnv/frame-only-state-and-key-written", True, function=fn_step, what="step and reset assign no instance attribute other than self.state and self.key: the adapter has no hidden state")
    else:
        rr = native_gym_adapter_replay(None)
        if rr.get("reproduced"):
            S.fact("LeraxToGymEnv/frame-only-state-and-key-written", False, function=fn_step, what="step / reset keep hidden state besides (state, key), and operation sequences exist on which the adapter departs from the functional API",
                   detail=extra, replay=lambda m: rr)
        else:
            S.undecided("LeraxToGymEnv/frame-only-state-and-key-written", f"step / reset also write {extra}: hidden state outside the (state, key) contract; native operation sequences found no divergence", function=fn_step,
                        what="hidden adapter state")


UNITS = [("structure", unit_structure), ("wrapper-initial", unit_wrapper_initial), ("gym-adapter", unit_gym_adapter)] + \
        [(f"stack:{n}", unit_stack(n)) for n in STACKS]
