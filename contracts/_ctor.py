"""Shared contract: an algorithm's constructor stores the hyper-parameters a property speaks about UNCHANGED, for every real value (0 and 1 included).

Most units set hyper-parameters symbolically on an already constructed algorithm (eqx.tree_at), which bypasses `__init__`; this unit closes that gap: the real `__init__` is extracted
with the hyper-parameters symbolic (a truthiness test such as `value or default` forks the trace and fails at 0) and each stored field is proved equal to its argument.
Native replay: the real constructor on edge / interior values and the counter-model's own."""
from __future__ import annotations

import jax.numpy as jnp
import z3

from lvc import kit, ir
from lvc.extract import run, fork_paths, eval_traced
from lvc.kit import Ctx, sand


def native_constructor_replay(cls, base, names):
    def replay(model):
        for name in names:
            vals = [0.0, 1.0, 0.5, 0.123, 7.0]
            try:
                vals = [kit.model_float(model, name, 0.0)] + vals
            except Exception:
                pass
            for v in vals:
                try:
                    a = cls(**dict(base, **{name: float(v)}))
                except Exception as e:      # a constructor may legitimately reject a value (validation): not a silent change
                    continue
                got = float(getattr(a, name))
                if got != float(jnp.float32(v)) and got != float(v):
                    return dict(reproduced=True, route=f"R1 (real {cls.__name__} constructor)", inputs={name: float(v)}, observed={f"stored {name}": got})
        return dict(reproduced=False, note=f"{cls.__name__} stores {', '.join(names)} unchanged for 0, 1 and interior values")
    return replay


def unit_constructor(specs):
    """specs: [(class, base kwargs, (hyper-parameter names...)[, qualified class label])]; field name = argument name"""
    def unit(S):
        for cls, base, names, *label in specs:
            fn = (label[0] if label else f"lerax.algorithm:{cls.__name__}") + ".__init__"
            S.under_contract(fn)
            ctx = Ctx()
            syms = [kit.real_scalar(n) for n in names]

            def prog(*vs, cls=cls, base=base, names=names):
                a = cls(**dict(base, **dict(zip(names, vs))))
                return tuple(jnp.asarray(getattr(a, n), jnp.float32) for n in names)
            # every path through the constructor w.r.t. decisions on the symbolic values; paths on which it raises (argument validation) are loud, not silent changes
            paths = fork_paths(prog, tuple(s[0] for s in syms), raises=(ValueError, AssertionError, TypeError))
            ok_paths = [p for p in paths if p[0] is not None]
            goals = []
            for tr, dyn, dec in ok_paths:
                conds, outs = eval_traced(ctx, tr, dyn)
                pc = sand(*[ir.seq(c_.scalar(), d_) for c_, d_ in zip(conds, dec)])
                goals.append(ir.simplies(pc, sand(*[ir.seq(o.scalar(), s[1]) for o, s in zip(outs, syms)])))
            S.prove(f"{cls.__name__}.__init__/stores-{'-'.join(names)}", ctx, sand(*goals) if ok_paths else z3.BoolVal(False), function=fn,
                    replay=native_constructor_replay(cls, base, names),
                    what=f"for all real values the constructor accepts ({len(ok_paths)} accepting of {len(paths)} paths): the constructed {cls.__name__}'s fields {', '.join(names)} are the "
                         "constructor arguments (no `value or default`, no clamping)")
    return unit
