"""C18 - Saving and loading a policy restores it exactly or fails loudly.

Under contract: Serializable.serialize, Serializable.deserialize (lerax/utils.py).
The heart of the property (bit-exact round trip of leaves, loud failure on shape mismatch) is behaviour of equinox's serialiser
and of the file system (A-EQX); what lerax's code decides is WHICH object is written, to WHICH file, read from WHICH file into
WHICH skeleton.  Those are obligations on the two functions, checked with recording stand-ins for the equinox calls on an
enumerated grammar of path spellings; the native round trips through real equinox are bounded stand-ins.
"""
from __future__ import annotations

import itertools
import os
import shutil
import tempfile
from pathlib import Path

import equinox as eqx
import jax
import jax.numpy as jnp
import numpy as np

from lerax import utils as U
from lerax.utils import Serializable

PROPERTY = "C18"
LEVEL = "other"
EXPLANATION = ("Contracts on Serializable.serialize / deserialize decided by structural obligations (recording stand-ins for the two equinox calls) on an enumerated grammar of path "
               "spellings - exhaustive over that grammar, no SMT involved - plus native round trips through real equinox reported as bounded stand-ins. The bit-exact round trip and the "
               "loud failure on mismatch themselves are assumed contracts of equinox (A-EQX): this family of technique cannot prove them.")
TRUSTED = ["A-EQX: eqx.tree_serialise_leaves / tree_deserialise_leaves round-trip leaves bit-exactly, raise on shape/dtype mismatch, and add '.eqx' iff the path has no suffix",
           "pathlib / the file system behave as documented", "jax.debug.callback delivers serialize's arguments unchanged (D7)"]
ASSUMPTIONS = ["paths enumerated from a small grammar (relative/absolute-in-tempdir, nested missing directories, with/without .eqx, other suffix with no_suffix=True); no string theory"]
DROPS = ["serialize's callback_wrapper (jax.debug.callback) is unwrapped: the obligations are about the wrapped function"]
NOT_DECIDED = ["byte-level behaviour of equinox and the file system",
               "names with another dotted suffix and no_suffix=False (serialize('ckpt.v2') writes ckpt.eqx while deserialize('ckpt.v2') reads ckpt.v2: a loud FileNotFoundError, outside the stated claim)"]

F_SER = "lerax.utils:Serializable.serialize"
F_DES = "lerax.utils:Serializable.deserialize"


class Tiny(Serializable):
    w: jax.Array
    b: jax.Array
    n: int = eqx.field(static=True)

    def __init__(self, n, *, key=None):
        self.n = n
        k = key if key is not None else jax.random.key(0)
        self.w = jax.random.normal(k, (n, 2))
        self.b = jnp.arange(n, dtype=jnp.float32)


def spellings():
    out = []
    for stem in ("ckpt", "sub/ckpt", "a/b/c/ckpt", "dir.with.dots/ckpt", "ckpt.v2", "x/model.ckpt"):
        for suf in ("", ".eqx"):
            for no_suffix in (False, True):
                out.append((stem + suf, no_suffix))
    return out


def eqx_with_suffix(p: Path) -> Path:
    """A-EQX: equinox appends '.eqx' iff the path has no suffix"""
    return p.with_suffix(".eqx") if p.suffix == "" else p


def in_claim(path, no_suffix):
    """the spellings the property speaks about: with or without the .eqx suffix (any suffix when no_suffix=True writes verbatim)"""
    s = Path(path).suffix
    return s in ("", ".eqx") or no_suffix


def _default_leaf_handling(extra, default_spec):
    a, k = extra
    if a:
        return False
    for kk, v in k.items():
        if kk == "filter_spec" and v is default_spec:
            continue
        if kk == "is_leaf" and v is None:
            continue
        return False
    return True


def native_overwrite_battery():
    """real save / load SEQUENCES on one path in one process: save P1, load, save P2 (same path), load -> P2 bit-exactly; also through the other spelling of the same file"""
    bad = []
    n = 0
    for spell_save, spell_load in (("ckpt", "ckpt"), ("ckpt", "ckpt.eqx"), ("d/e/ckpt.eqx", "d/e/ckpt")):
        tmp = tempfile.mkdtemp(prefix="lvc_c18_")
        try:
            ps, pl = os.path.join(tmp, spell_save), os.path.join(tmp, spell_load)
            objs = [Tiny(3, key=jax.random.key(s)) for s in (1, 2, 3)]
            for j, obj in enumerate(objs):
                Serializable.serialize.__wrapped__(obj, ps, False)
                back = Tiny.deserialize(pl, 3)
                n += 1
                if not (np.array_equal(np.asarray(back.w), np.asarray(obj.w)) and np.array_equal(np.asarray(back.b), np.asarray(obj.b))):
                    bad.append(dict(case=f"save #{j + 1} to '{spell_save}' then load '{spell_load}'", what="loaded parameters are not the ones just saved",
                                    loaded_w00=float(back.w[0, 0]), saved_w00=float(obj.w[0, 0])))
                    break
        except Exception as e:
            bad.append(dict(case=f"{spell_save} / {spell_load}", what=f"raised {type(e).__name__}: {str(e)[:120]}"))
        finally:
            shutil.rmtree(tmp, ignore_errors=True)
    return bad, n


def native_mismatch_battery():
    """real save -> real load into a DIFFERENT architecture must raise; includes shapes that numpy would broadcast (unit / scalar dimensions on the saved side)"""
    from lerax.policy import MLPQPolicy, MLPActorCriticPolicy
    from lerax.env.classic_control import CartPole, Pendulum
    from lerax.space import Box
    from lvc.generic import GenericEnv
    cases = [("Tiny(1)->Tiny(4)", Tiny, (1,), {}, (4,), {}), ("Tiny(3)->Tiny(2)", Tiny, (3,), {}, (2,), {}),
             ("MLPQPolicy width 1 -> 8", MLPQPolicy, (CartPole(),), dict(width_size=1, depth=1), (CartPole(),), dict(width_size=8, depth=1)),
             ("MLPQPolicy width 8 -> 4", MLPQPolicy, (CartPole(),), dict(width_size=8, depth=1), (CartPole(),), dict(width_size=4, depth=1)),
             ("MLPActorCriticPolicy scalar Box action -> 3-dim Box action", MLPActorCriticPolicy, (Pendulum(),), dict(feature_size=4, feature_width=4, value_width=4, action_width=4),
              (GenericEnv(Box(-jnp.ones((3,)), jnp.ones((3,))), observation_space=Pendulum().observation_space),), dict(feature_size=4, feature_width=4, value_width=4, action_width=4))]
    # every depth option of every policy class, all widths equal (so that a deeper checkpoint starts with leaves of exactly the shapes a shallower policy expects): deeper ->
    # shallower must not return a policy that holds a prefix of the file, shallower -> deeper must not run past the end silently
    import inspect
    from lerax.policy import MLPSACPolicy
    for cls_, env_ in ((MLPActorCriticPolicy, CartPole()), (MLPActorCriticPolicy, Pendulum()), (MLPQPolicy, CartPole()), (MLPSACPolicy, Pendulum())):
        params = inspect.signature(cls_.__init__).parameters
        widths = {p: 8 for p in params if "width" in p or p == "feature_size"}
        for d_ in [p for p in params if "depth" in p]:
            for a_, b_ in ((3, 2), (2, 1), (2, 3), (1, 2)):
                try:
                    n1 = sum(int(np.size(x)) for x in jax.tree.leaves(cls_(env_, key=jax.random.key(0), **widths, **{d_: a_})) if hasattr(x, "shape"))
                    n2 = sum(int(np.size(x)) for x in jax.tree.leaves(cls_(env_, key=jax.random.key(0), **widths, **{d_: b_})) if hasattr(x, "shape"))
                except Exception:
                    continue
                if n1 != n2:
                    cases.append((f"{cls_.__name__}({type(env_).__name__}) {d_} {a_} -> {b_}, all widths 8", cls_, (env_,), dict(widths, **{d_: a_}), (env_,), dict(widths, **{d_: b_})))
    bad = []
    for name, cls, a1, k1, a2, k2 in cases:
        tmp = tempfile.mkdtemp(prefix="lvc_c18_")
        try:
            full = os.path.join(tmp, "ckpt")
            obj = cls(*a1, key=jax.random.key(0), **k1)
            Serializable.serialize.__wrapped__(obj, full, False)
            try:
                back = cls.deserialize(full, *a2, key=jax.random.key(1), **k2)
                bad.append(dict(case=name, what="loaded without an error", loaded_shapes=[list(np.shape(x)) for x in jax.tree.leaves(back) if hasattr(x, "shape")][:6]))
            except Exception:
                pass
        except Exception as e:
            bad.append(dict(case=name, what=f"setup raised {type(e).__name__}: {str(e)[:120]}"))
        finally:
            shutil.rmtree(tmp, ignore_errors=True)
    return bad, len(cases)


def unit_calls(S):
    S.under_contract(F_SER, F_DES)
    ser = getattr(Serializable.serialize, "__wrapped__", None)
    S.fact("serialize/is-a-wrapped-debug-callback", ser is not None and callable(ser), function=F_SER, what="serialize is callback_wrapper(function): the function below is what runs on the host")
    if ser is None:
        return
    bad_ser, bad_path, n = [], [], 0
    custom_ser, custom_des = [], []
    for path, no_suffix in spellings():
        tmp = tempfile.mkdtemp(prefix="lvc_c18_")
        try:
            rec = []

            def fake_serialise(p, tree, *a, **k):
                if not isinstance(p, (str, os.PathLike)):   # e.g. an open file object: equinox's suffix rule does not apply to it - outside the path contract, decided natively below
                    custom_ser.append(dict(path=path, extra=f"serialize hands equinox a {type(p).__name__} (name={getattr(p, 'name', None)}) instead of the path"))
                    p = getattr(p, "name", full)
                p = Path(p)
                rec.append(dict(path=p, parent_exists=p.parent.exists(), whole=tree))
                if not _default_leaf_handling((a, dict(k)), eqx.default_serialise_filter_spec):
                    custom_ser.append(dict(path=path, extra=str((a, k))[:200]))
            obj = Tiny(3)
            full = os.path.join(tmp, path)
            real = U.eqx.tree_serialise_leaves
            U.eqx.tree_serialise_leaves = fake_serialise
            try:
                ser(obj, full, no_suffix)
            finally:
                U.eqx.tree_serialise_leaves = real
            n += 1
            if len(rec) != 1 or rec[0]["whole"] is not obj or not rec[0]["parent_exists"]:
                bad_ser.append(dict(path=path, no_suffix=no_suffix, calls=len(rec), whole=(rec[0]["whole"] is obj) if rec else None, parent_exists=rec[0]["parent_exists"] if rec else None))
                continue
            written = eqx_with_suffix(rec[0]["path"]) if not (custom_ser and custom_ser[-1]["path"] == path) else rec[0]["path"]
            # deserialize: which file is read, into which skeleton
            rec2 = []

            def fake_deserialise(p, like, *a, **k):
                rec2.append(dict(path=Path(p) if isinstance(p, (str, os.PathLike)) else p, like=like, extra=(a, dict(k))))
                return like
            real2 = U.eqx.tree_deserialise_leaves
            U.eqx.tree_deserialise_leaves = fake_deserialise
            try:
                Tiny.deserialize(full, 3)
            except Exception as e_:   # e.g. deserialize touching the file system itself (the stand-in wrote no file): outside the contract's shape, decided natively below
                custom_des.append(dict(path=path, extra=f"deserialize raised before / instead of delegating: {type(e_).__name__}: {str(e_)[:120]}"))
                continue
            finally:
                U.eqx.tree_deserialise_leaves = real2
            if len(rec2) == 1 and not isinstance(rec2[0]["path"], (str, os.PathLike)):
                custom_des.append(dict(path=path, extra=f"deserialize hands equinox a {type(rec2[0]['path']).__name__} instead of the path"))
                continue
            read = eqx_with_suffix(rec2[0]["path"]) if len(rec2) == 1 else None
            if len(rec2) == 1 and not _default_leaf_handling(rec2[0]["extra"], eqx.default_deserialise_filter_spec):
                custom_des.append(dict(path=path, extra=str(rec2[0]["extra"])[:200]))
            if in_claim(path, no_suffix) and (read is None or read != written):
                bad_path.append(dict(path=path, no_suffix=no_suffix, written=str(written).replace(tmp, ""), read=str(read).replace(tmp, "")))
        finally:
            shutil.rmtree(tmp, ignore_errors=True)
    S.fact("serialize/one-write-of-the-whole-module-after-mkdir", not bad_ser, function=F_SER,
           what=f"for each of {n} path spellings: exactly one tree_serialise_leaves(path, self) with the WHOLE module, issued after the (possibly nested, missing) parent directory exists", detail=bad_ser[:5],
           replay=lambda m: dict(reproduced=bool(bad_ser), route="R1", observed=bad_ser[:5]))
    S.fact("path-lemma/file-written-is-file-read", not bad_path, function=F_DES,
           what="for every spelling in the claim (suffix '' or '.eqx', both values of no_suffix; any suffix when written verbatim) the file deserialize reads is the file serialize wrote (lerax rule composed with equinox's)",
           detail=bad_path[:6], replay=lambda m: dict(reproduced=bool(bad_path), route="R1", observed=bad_path[:6]))
    # frame condition that makes the assumed contract A-EQX applicable: leaves are written / read by equinox's DEFAULT leaf (de)serialisers.  A custom filter_spec / is_leaf is
    # outside the assumed contract: decided natively (mismatch battery incl. broadcastable shapes through the real functions) - a reproduced silent load is a violation,
    # otherwise the obligation is undecided (never a violation).
    for which, custom, fn_ in (("serialize", custom_ser, F_SER), ("deserialize", custom_des, F_DES)):
        if not custom:
            S.fact(f"{which}/default-leaf-handling", True, function=fn_, what=f"{which} hands the leaves to equinox's default leaf (de)serialiser (no custom filter_spec / is_leaf): the assumed contract A-EQX applies")
            continue
        bad, nn = native_mismatch_battery()
        bad_o, nn_o = native_overwrite_battery()
        bad, nn = bad + bad_o, nn + nn_o
        if bad:
            S.fact(f"{which}/default-leaf-handling", False, function=fn_, what=f"{which} uses a custom leaf (de)serialiser and a mismatching checkpoint loads silently", detail=dict(custom=custom[:2], silent_loads=bad[:4]),
                   replay=lambda m, bad=bad: dict(reproduced=True, route="R1 (real serialize / deserialize through real equinox, mismatching architectures incl. broadcastable shapes)", observed=bad[:4]))
        else:
            S.undecided(f"{which}/default-leaf-handling", f"{which} passes a custom filter_spec / is_leaf to equinox ({custom[0]['extra']}): outside the assumed contract A-EQX; {nn} native mismatch cases all failed loudly",
                        function=fn_, what="custom leaf handling: bit-exactness and loud failure can no longer be inherited from A-EQX")
    # deserialize builds the skeleton from the CALLER's constructor arguments, abstractly
    rec3 = []

    def fake_deserialise(p, like, *a, **k):
        rec3.append(like)
        return like
    real2 = U.eqx.tree_deserialise_leaves
    U.eqx.tree_deserialise_leaves = fake_deserialise
    try:
        out = Tiny.deserialize("whatever", 5)
        out2 = Tiny.deserialize("whatever", n=2, key=jax.random.key(3))
    except Exception as e_:
        S.undecided("deserialize/skeleton-from-requested-arguments", f"deserialize did not reach equinox with the stand-in installed ({type(e_).__name__}: {str(e_)[:100]}): see deserialize/default-leaf-handling",
                    function=F_DES, what="skeleton built from the requested constructor arguments")
        return
    finally:
        U.eqx.tree_deserialise_leaves = real2
    ok = len(rec3) == 2 and isinstance(rec3[0], Tiny) and rec3[0].w.shape == (5, 2) and rec3[1].w.shape == (2, 2) and isinstance(rec3[0].w, jax.ShapeDtypeStruct) and out is rec3[0]
    S.fact("deserialize/skeleton-from-requested-arguments", ok, function=F_DES,
           what="deserialize returns tree_deserialise_leaves(path, filter_eval_shape(cls, *args, **kwargs)): the skeleton has the shapes of the REQUESTED architecture (so A-EQX's mismatch error applies) and costs no initialisation")


def policies():
    from lerax.policy import MLPActorCriticPolicy, MLPQPolicy, MLPSACPolicy
    from lerax.env.classic_control import CartPole, Pendulum
    return [("MLPActorCriticPolicy/Discrete", MLPActorCriticPolicy, CartPole, dict(feature_size=4, feature_width=8, value_width=8, action_width=8), dict(feature_size=4, feature_width=16, value_width=8, action_width=8)),
            ("MLPActorCriticPolicy/Box", MLPActorCriticPolicy, Pendulum, dict(feature_size=4, feature_width=8, value_width=8, action_width=8), dict(feature_size=8, feature_width=8, value_width=8, action_width=8)),
            ("MLPQPolicy", MLPQPolicy, CartPole, dict(width_size=8, depth=1), dict(width_size=4, depth=1)),
            ("MLPSACPolicy", MLPSACPolicy, Pendulum, dict(feature_size=4, width_size=8, depth=1), dict(feature_size=4, width_size=8, depth=2))]


def native_roundtrips(seed, thorough):
    bad = []
    n = 0
    sp = [s for s in spellings() if in_claim(*s)]
    if not thorough:
        sp = sp[::3]
    for name, cls, mkenv, kw, kw_other in policies():
        env = mkenv()
        pol = cls(env, key=jax.random.key(seed + 1), **kw)
        for path, no_suffix in sp:
            tmp = tempfile.mkdtemp(prefix="lvc_c18_")
            try:
                full = os.path.join(tmp, path)
                Serializable.serialize.__wrapped__(pol, full, no_suffix)
                back = cls.deserialize(full, env, key=jax.random.key(seed + 99), **kw)
                n += 1
                la, lb = jax.tree.leaves(pol), jax.tree.leaves(back)
                same = len(la) == len(lb) and all(np.array_equal(np.asarray(x), np.asarray(y)) and np.asarray(x).dtype == np.asarray(y).dtype for x, y in zip(la, lb) if hasattr(x, "shape"))
                if not same:
                    bad.append(dict(policy=name, path=path, no_suffix=no_suffix, what="parameters differ after the round trip"))
                try:
                    cls.deserialize(full, env, key=jax.random.key(0), **kw_other)
                    bad.append(dict(policy=name, path=path, what="loading into a different architecture did not raise"))
                except Exception:
                    pass
            except Exception as e:
                bad.append(dict(policy=name, path=path, no_suffix=no_suffix, what=f"raised {type(e).__name__}: {str(e)[:80]}"))
            finally:
                shutil.rmtree(tmp, ignore_errors=True)
    return bad, n


def unit_roundtrip(S):
    S.under_contract(F_SER, F_DES)
    bad, n = native_roundtrips(int(S.seed), S.tier == "thorough")
    bad_m, n_m = native_mismatch_battery()
    bad_o, n_o = native_overwrite_battery()
    bad, n = bad + bad_m + bad_o, n + n_m + n_o
    S.bounded_check("native/round-trip-and-loud-mismatch", not bad, bound=f"{n} native save/load round trips through real equinox: 4 policy classes x path spellings (incl. not-yet-existing nested directories), plus one mismatching architecture each",
                    function=F_SER + " / " + F_DES, what="loaded parameters are bit-identical; loading into mismatching shapes raises", detail=bad[:6],
                    replay=lambda m: dict(reproduced=bool(bad), route="R1", observed=bad[:6]))


UNITS = [("calls", unit_calls), ("roundtrip", unit_roundtrip)]
