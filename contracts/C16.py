"""C16 - Masked actions are never chosen; key-less policies act greedily.

Under contract: Categorical.mask, Bernoulli.mask, MultiCategorical.mask; ActionLayer.__call__, make_action_layer;
MLPActorCriticPolicy.__call__ / action_and_value / evaluate_action; AbstractQPolicy.__call__; MLPSACPolicy.__call__ / action_and_log_prob.
distreqx laws are cut at the law level (contracts/_dx.py): a masked law is a law of the same kind whose logits are
where(mask, logits, -inf); A-DISTREQX turns that into probability 0 for masked actions.
"""
from __future__ import annotations

import itertools

import equinox as eqx
import jax
import jax.numpy as jnp
import jax.random as jr
import numpy as np
import z3

from lerax import distribution as LD
from typing import ClassVar
from lerax.policy import MLPActorCriticPolicy, MLPSACPolicy
from lerax.policy.q.base_q import AbstractQPolicy
from lerax.space import Box, Discrete, MultiBinary, MultiDiscrete

from lvc import kit, ir, extract
from lvc.extract import run, sym
from lvc.generic import GenericEnv, GenericQPolicy, GPState
from lvc.kit import Ctx, sand
from lvc.opaque import ocall
from contracts import _dx
from contracts._dx import FD

PROPERTY = "C16"
TRUSTED = ["A-DISTREQX: Categorical / Bernoulli probabilities are softmax / sigmoid of the logits with -inf -> 0; mode = first arg-max; sample follows the law",
           "A-RNG: uniform(k) in [0, 1) is uniform (the one distributional step: P(u < eps) = eps)", "A-REAL with the symbolic infinity INF (every finite logit is > -INF)"]
ASSUMPTIONS = ["action counts enumerated (n <= 4); all masks are values of symbolic booleans; logits finite"]
DROPS = ["D1: key is None / action_mask is None / epsilon <= 0 resolved per configuration"]
NOT_DECIDED = []
sd = jax.ShapeDtypeStruct
f32 = jnp.float32


def native_mask_replay(kind):
    """R1: the real masked laws (real distreqx underneath) on logits with small AND very large gaps, every non-empty mask: masked entries get probability 0, the allowed ones are
    the unmasked probabilities renormalised proportionally (ratios preserved), the mode is an allowed arg-max, log_prob agrees."""
    def replay(model):
        logit_sets = [np.array(v, np.float32) for v in ([0.3, -0.2, 1.1, 0.0], [40.0, 0.0, 5.0, 2.0], [-30.0, 25.0, 0.0, 24.0], [60.0, 0.0, 25.0, -5.0])]
        for lg in logit_sets:
            n = 4 if kind != "Bernoulli" else 3
            lg = lg[:n]
            for m in itertools.product([False, True], repeat=n):
                if not any(m):
                    continue
                mm = jnp.asarray(m)
                if kind == "Categorical":
                    d = LD.Categorical(logits=jnp.asarray(lg)).mask(mm)
                    p = np.asarray(d.distribution.probs if hasattr(d.distribution, "probs") else jnp.exp(jax.nn.log_softmax(d.logits)), np.float64)
                    w = np.exp(lg.astype(np.float64) - lg.max()) * np.asarray(m, np.float64)
                    exp = w / w.sum() if w.sum() > 0 else None
                    if exp is None:    # every allowed action underflows relative to the maximum in float64: compare on the allowed logits alone
                        la = lg.astype(np.float64)[list(m)]
                        w2 = np.exp(la - la.max())
                        exp = np.zeros(n)
                        exp[list(m)] = w2 / w2.sum()
                    la = lg.astype(np.float64).copy()
                    la[~np.asarray(m)] = -np.inf
                    w2 = np.exp(la - la.max())
                    exp = w2 / w2.sum()
                    mode = int(d.mode())
                    ok = np.allclose(p, exp, atol=2e-6) and m[mode] and la[mode] >= la.max() - 1e-6
                    obs = dict(probs=p.tolist(), expected=exp.tolist(), mode=mode)
                elif kind == "Bernoulli":
                    d = LD.Bernoulli(logits=jnp.asarray(lg)).mask(mm)
                    p = np.asarray(jnp.exp(d.log_prob(jnp.ones((n,), jnp.int32))), np.float64)
                    exp = np.where(np.asarray(m), 1 / (1 + np.exp(-lg.astype(np.float64))), 0.0)
                    md = np.asarray(d.mode())
                    ok = np.allclose(p, exp, atol=2e-6) and not np.any(md.astype(bool) & ~np.asarray(m))
                    obs = dict(prob_of_one=p.tolist(), expected=exp.tolist(), mode=md.tolist())
                if not ok:
                    return dict(reproduced=True, route=f"R1 (real lerax {kind}.mask over real distreqx)", inputs=dict(logits=lg.tolist(), mask=list(m)), observed=obs)
        return dict(reproduced=False, note="masked entries have probability 0, allowed ones are renormalised proportionally, mode allowed and maximal - also with logit gaps of 25-60 nats")
    return replay


def unit_mask(S):
    for n in (2, 3, 4):
        fn = "lerax.distribution.categorical:Categorical.mask"
        S.under_contract(fn)
        ctx = Ctx()
        lg = sym(ctx, "logits", sd((n,), f32))
        m = sym(ctx, "mask", sd((n,), jnp.bool_))
        with _dx.cut():
            out = run(ctx, lambda l, mm: LD.Categorical(logits=l).mask(mm).logits, lg, m)
            kind = run(ctx, lambda l, mm: jnp.asarray(type(LD.Categorical(logits=l).mask(mm)) is LD.Categorical), lg, m)
        S.prove(f"Categorical({n}).mask/logits", ctx, sand(*[ir.seq(out.at((k,)), z3.If(m.at((k,)), lg.at((k,)), -ir.INF)) for k in range(n)], kind.scalar()), function=fn, replay=native_mask_replay("Categorical"),
                what="mask(m) is a Categorical whose logits are logits_k where allowed and -inf where masked")
    fnb = "lerax.distribution.bernoulli:Bernoulli.mask"
    S.under_contract(fnb)
    ctx = Ctx()
    lg = sym(ctx, "logits", sd((3,), f32))
    m = sym(ctx, "mask", sd((3,), jnp.bool_))
    with _dx.cut():
        out = run(ctx, lambda l, mm: LD.Bernoulli(logits=l).mask(mm).logits, lg, m)
    S.prove("Bernoulli.mask/logits", ctx, sand(*[ir.seq(out.at((k,)), z3.If(m.at((k,)), lg.at((k,)), -ir.INF)) for k in range(3)]), function=fnb, replay=native_mask_replay("Bernoulli"),
            what="masked components get logit -inf (probability of a 1 is 0), the others keep their logit")
    fnm = "lerax.distribution.multi_categorical:MultiCategorical.mask"
    S.under_contract(fnm)
    dims = (2, 3, 2)
    tot = sum(dims)
    offs = [sum(dims[:i]) for i in range(len(dims))]
    for mform in ("flat", "sequence"):
        ctx = Ctx()
        lg = sym(ctx, "logits", sd((tot,), f32))
        m = sym(ctx, "mask", sd((tot,), jnp.bool_))
        with _dx.cut():
            mk_mask = (lambda mm: mm) if mform == "flat" else (lambda mm: [mm[o:o + d] for o, d in zip(offs, dims)])
            out = run(ctx, lambda l, mm: [d_.logits for d_ in LD.MultiCategorical(logits=l, action_dims=dims).mask(mk_mask(mm)).distribution], lg, m)
        goal = sand(*[ir.seq(out[i].at((k,)), z3.If(m.at((offs[i] + k,)), lg.at((offs[i] + k,)), -ir.INF)) for i in range(len(dims)) for k in range(dims[i])])
        S.prove(f"MultiCategorical.mask[{mform}]/piecewise", ctx, goal, function=fnm, what="component i is masked with mask[c_i : c_i + d_i] (the same cumulative split as the parameters)")
    # lemma (over the assumed law): renormalisation p'_k = m_k p_k / sum_j m_j p_j   for n <= 4 and every non-empty mask
    for n in (2, 3, 4):
        E = [z3.Real(f"e{k}") for k in range(n)]  # e_k = exp(logit_k) > 0
        M = [z3.Bool(f"m{k}") for k in range(n)]
        Z = sum(E)
        Zm = sum(z3.If(M[k], E[k], 0) for k in range(n))
        p = [E[k] / Z for k in range(n)]
        pm = [z3.If(M[k], E[k], 0) / Zm for k in range(n)]  # softmax of masked logits with exp(-inf) = 0
        denom = sum(z3.If(M[k], p[k], 0) for k in range(n))
        goal = z3.And(*[z3.And(pm[k] == z3.If(M[k], p[k], 0) / denom, z3.Implies(z3.Not(M[k]), pm[k] == 0)) for k in range(n)], sum(pm) == 1)
        S.prove(f"lemma/renormalisation(n={n})", Ctx(), goal, hyps=[e > 0 for e in E] + [z3.Or(*M)], function="lerax.distribution.categorical:Categorical.mask",
                what="under A-DISTREQX the masked law gives masked actions probability 0 and renormalises the rest proportionally (all 2^n - 1 non-empty masks are values of the symbolic booleans)")
        # mode never masked: first arg-max of where(m, l, -inf) is an allowed index
        ctx = Ctx()
        lg = sym(ctx, "logits", sd((n,), f32))
        m = sym(ctx, "mask", sd((n,), jnp.bool_))
        am = run(ctx, lambda l, mm: jnp.argmax(jnp.where(mm, l, -jnp.inf)), lg, m)
        idx = am.scalar()
        fin = [z3.And(lg.at((k,)) > -ir.INF, lg.at((k,)) < ir.INF) for k in range(n)]
        S.prove(f"lemma/mode-never-masked(n={n})", ctx, z3.Or(*[z3.And(idx == k, m.at((k,))) for k in range(n)]), hyps=fin + [z3.Or(*[m.at((k,)) for k in range(n)])],
                function="lerax.distribution.categorical:Categorical.mask", what="the arg-max of the masked logits (the law's mode, A-DISTREQX) is an allowed action whenever one exists")


def _ac_policy(space):
    E = GenericEnv(Discrete(2), observation_space=Box(-jnp.ones((2,)), jnp.ones((2,))))
    E = eqx.tree_at(lambda e: e.action_space, E, space)
    return MLPActorCriticPolicy(E, feature_size=2, feature_width=2, feature_depth=1, value_width=2, value_depth=1, action_width=2, action_depth=1, key=jax.random.key(0))


def _memo(f):
    memo = {}

    def g(model):
        if "r" not in memo:
            memo["r"] = f(model)
        return memo["r"]
    return g


def native_masked_policy_replay(space):
    """R1: a real MLPActorCriticPolicy on this action space, every valid mask, key-less (greedy), sampled (8 keys) and action_and_value: the action never uses a masked entry."""
    def replay(model):
        for sharp in (1.0, 60.0):
            r = _replay(model, sharp)
            if r.get("reproduced"):
                return r
        return r

    def _replay(model, sharp):
        pol = _ac_policy(space)
        if sharp != 1.0:   # a second policy with very peaked action logits (gaps of tens of nats), as a trained policy has
            pol = eqx.tree_at(lambda p: p.action_head, pol, jax.tree.map(lambda x: x * sharp if eqx.is_inexact_array(x) else x, pol.action_head))
        obs = jnp.asarray([0.3, -0.7], f32)
        raw_d = pol.action_head(pol.encoder(pol.observation_space.flatten_sample(obs))).distribution
        raw = [np.asarray(d_.logits, np.float64) for d_ in _as_list(raw_d)] if not isinstance(space, MultiBinary) else None
        if isinstance(space, Discrete):
            n = int(space.n)
            masks = [m for m in itertools.product([False, True], repeat=n) if any(m)]
            allowed = lambda a, m: bool(m[int(a)])
        elif isinstance(space, MultiDiscrete):
            nv = [int(v) for v in np.asarray(space.nvec)]
            offs = np.concatenate([[0], np.cumsum(nv)])
            masks = [m for m in itertools.product([False, True], repeat=int(sum(nv))) if all(any(m[offs[i]:offs[i + 1]]) for i in range(len(nv)))]
            allowed = lambda a, m: all(bool(m[offs[i] + int(np.asarray(a)[i])]) for i in range(len(nv)))
        else:
            n = int(np.prod(space.shape))
            masks = list(itertools.product([False, True], repeat=n))
            allowed = lambda a, m: all((not int(x)) or bool(mm) for x, mm in zip(np.asarray(a).reshape(-1), m))
        for m in masks:
            mm = jnp.asarray(m).reshape(space.shape) if isinstance(space, MultiBinary) else jnp.asarray(m)
            acts = [("greedy", pol(None, obs, action_mask=mm)[1])]
            for s in range(8):
                acts.append((f"sample(key={s})", pol(None, obs, key=jax.random.key(s), action_mask=mm)[1]))
                acts.append((f"action_and_value(key={s})", pol.action_and_value(None, obs, key=jax.random.key(s), action_mask=mm)[1]))
            for how, a in acts:
                if not allowed(a, m):
                    return dict(reproduced=True, route="R1 (real MLPActorCriticPolicy)", inputs=dict(action_space=str(space), mask=list(m), mode=how, logit_scale=sharp), observed=dict(action=np.asarray(a).tolist()))
            if isinstance(space, Discrete):
                la = raw[0].copy()
                la[~np.asarray(m)] = -np.inf
                g = int(acts[0][1])
                if la[g] < la.max() - 1e-5:
                    return dict(reproduced=True, route="R1 (real MLPActorCriticPolicy)", inputs=dict(action_space=str(space), mask=list(m), mode="greedy", logit_scale=sharp),
                                observed=dict(action=g, head_logits=raw[0].tolist(), best_allowed=int(np.argmax(la))))
                _, a_s, _, lp = pol.action_and_value(None, obs, key=jax.random.key(0), action_mask=mm)
                exp_lp = la[int(a_s)] - (la.max() + np.log(np.sum(np.exp(la - la.max()))))
                if abs(float(lp) - exp_lp) > 1e-3 * (1 + abs(exp_lp)):
                    return dict(reproduced=True, route="R1 (real MLPActorCriticPolicy)", inputs=dict(action_space=str(space), mask=list(m), mode="action_and_value(key=0)", logit_scale=sharp),
                                observed=dict(action=int(a_s), reported_log_prob=float(lp), log_prob_under_the_masked_law=float(exp_lp), head_logits=raw[0].tolist()))
        return dict(reproduced=False, note=f"{len(masks)} masks x (greedy, 8 sampled, 8 action_and_value): no masked entry is ever used")
    return replay


def unit_actor_critic(S):
    """MLPActorCriticPolicy: the law used by __call__, action_and_value and evaluate_action is head(features).mask(action_mask) - the same masked law in all three -
    and key None => mode, key => sample."""
    fn = "lerax.policy.actor_critic.mlp:MLPActorCriticPolicy"
    S.under_contract(fn + ".__call__", fn + ".action_and_value", fn + ".evaluate_action", "lerax.policy.actor:ActionLayer.__call__", "lerax.policy.actor:make_action_layer")
    for sname, space, mshape in (("Discrete(3)", Discrete(3), (3,)), ("MultiDiscrete(2,3)", MultiDiscrete((2, 3)), (5,)), ("MultiBinary(3)", MultiBinary(3), (3,))):
        try:
            pol0 = _ac_policy(space)
        except Exception as e:
            S.fact(f"{sname}/policy-constructible", False, function=fn + ".__init__", what="an actor-critic policy can be constructed for this action space", detail=f"{type(e).__name__}: {e}",
                   replay=lambda m, space=space: dict(reproduced=True, route="R1", observed=_try(lambda: _ac_policy(space))))
            continue
        S.fact(f"{sname}/policy-constructible", True, function=fn + ".__init__", what="an actor-critic policy can be constructed for this action space")
        ctx = Ctx()
        ctx.unroll_limit = 4
        pol = sym(ctx, "pi", pol0)
        obs = sym(ctx, "obs", sd((2,), f32))
        mask = sym(ctx, "mask", sd(mshape, jnp.bool_))
        k, kc = kit.key_input("key")
        act_struct = sd((), jnp.int32) if sname.startswith("Discrete") else sd((len(space.nvec),) if hasattr(space, "nvec") else space.shape, jnp.int32)
        a_in = sym(ctx, "action", act_struct)
        with _dx.cut():
            n0 = len(ctx.calls)
            run(ctx, lambda p, o, m: p(None, o, action_mask=m), pol, obs, mask)
            c_greedy = ctx.calls[n0:]
            n1 = len(ctx.calls)
            run(ctx, lambda p, o, m, kk: p(None, o, key=kk, action_mask=m), pol, obs, mask, k)
            c_sample = ctx.calls[n1:]
            n2 = len(ctx.calls)
            run(ctx, lambda p, o, m, kk: p.action_and_value(None, o, key=kk, action_mask=m), pol, obs, mask, k)
            c_aav = ctx.calls[n2:]
            n3 = len(ctx.calls)
            run(ctx, lambda p, o, a, m: p.evaluate_action(None, o, a, action_mask=m), pol, obs, a_in, mask)
            c_eval = ctx.calls[n3:]
            # reference: the head's unmasked logits for this observation
            raw = run(ctx, lambda p, o: [d_.logits for d_ in _as_list(p.action_head(p.encoder(p.observation_space.flatten_sample(o))).distribution)], pol, obs)
        methods = lambda cs: sorted({c.name.rsplit(".", 1)[1] for c in cs})
        S.fact(f"{sname}/key-none-acts-with-the-mode", methods(c_greedy) == ["mode"], function=fn + ".__call__", what="without a key the policy returns the mode (greedy action) of the masked law", detail=methods(c_greedy))
        S.fact(f"{sname}/key-samples", methods(c_sample) == ["sample"], function=fn + ".__call__", what="with a key the policy samples from the masked law", detail=methods(c_sample))
        S.fact(f"{sname}/action_and_value-samples-with-its-log-prob", methods(c_aav) == ["sample_and_log_prob"], function=fn + ".action_and_value",
               what="action_and_value draws the action and its log-probability from the same law in one call", detail=methods(c_aav))
        S.fact(f"{sname}/evaluate_action-uses-log_prob-and-entropy", set(methods(c_eval)) >= {"log_prob"}, function=fn + ".evaluate_action", what="evaluate_action evaluates log_prob under the law", detail=methods(c_eval))
        # the law operands (logits) of every call = where(mask, head logits, -inf), component by component
        offs = [0]
        for r_ in raw:
            offs.append(offs[-1] + r_.shape[0])

        def masked_goal(calls):
            conj = []
            for ci, c in enumerate(calls):
                comp = ci % len(raw)
                lgop = c.operands[0]
                r_ = raw[comp]
                for j in range(r_.shape[0]):
                    mk = mask.at((offs[comp] + j,)) if len(mshape) == 1 and mshape[0] == offs[-1] else mask.at((j,))
                    conj.append(ir.seq(lgop.at((j,)), z3.If(mk, r_.at((j,)), -ir.INF)))
            return sand(*conj)
        # the property speaks about masks with at least one allowed action: per component for (multi-)discrete actions; every multi-binary mask qualifies (a masked bit stays 0)
        valid = []
        if sname.startswith("Discrete"):
            valid = [z3.Or(*[mask.at((j,)) for j in range(mshape[0])])]
        elif sname.startswith("MultiDiscrete"):
            valid = [z3.Or(*[mask.at((offs[ci] + j,)) for j in range(raw[ci].shape[0])]) for ci in range(len(raw))]
        rp = _memo(native_masked_policy_replay(space))
        for nm, cs in (("__call__[greedy]", c_greedy), ("__call__[sample]", c_sample), ("action_and_value", c_aav), ("evaluate_action", [c for c in c_eval if c.name.endswith(".log_prob")])):
            S.prove(f"{sname}/{nm}-uses-the-masked-law", ctx, masked_goal(cs), hyps=valid, function=fn, replay=rp, what=f"{nm}: the law's logits are the head's logits where allowed and -inf where masked: "
                                                                                                   "the SAME masked law for sampling, the mode and the reported log-probability")


def _as_list(d):
    return list(d) if isinstance(d, (tuple, list)) else [d]


def _try(f):
    try:
        f()
        return "ok"
    except Exception as e:
        return f"{type(e).__name__}: {e}"


def uniform_stub(key, shape=(), dtype=float, minval=0.0, maxval=1.0, **kw):
    return ocall("uniform", sd(tuple(shape), f32), key)


class TableQPolicy(AbstractQPolicy):
    """native replay only: a Q policy whose Q-values are a stored vector (the real epsilon-greedy __call__ is inherited)"""
    name: ClassVar[str] = "TableQ"
    action_space: Discrete
    observation_space: Box
    epsilon: float
    q: jax.Array

    def __init__(self, q, epsilon):
        self.action_space = Discrete(int(q.shape[0]))
        self.observation_space = Box(-jnp.ones((2,)), jnp.ones((2,)))
        self.epsilon = epsilon
        self.q = q

    def q_values(self, state, observation):
        return state, self.q

    def reset(self, *, key):
        return None


def native_q_replay(eps, use_key, use_mask, q_terms, mask_terms):
    """R1: the counter-model's Q-values and mask, then a battery (all masks x tie / order patterns), through the real AbstractQPolicy.__call__ on a table Q policy.
    The exploit branch of epsilon-greedy is forced with uniform := 0.99, the explore branch with uniform := 0.0."""
    def replay(model):
        n = len(q_terms)
        cands = []
        try:
            if model is not None:
                qv = [float(model.eval(ir.zreal(t), model_completion=True).as_fraction()) for t in q_terms]
                mv = [bool(z3.is_true(model.eval(t, model_completion=True))) for t in mask_terms] if use_mask else [True] * n
                if any(mv):
                    cands.append((qv, mv))
        except Exception:
            pass
        pats = [(0.0, 1.0, 2.0), (2.0, 1.0, 0.0), (1.0, 0.0, 1.0), (0.0, 0.0, 0.0), (-1.0, -1.0, 3.0), (5.0, -2.0, -2.0), (0.5, 2.0, 2.0),
                (60.0, 0.0, 25.0), (0.0, 30.0, -30.0), (-20.0, 40.0, 10.0), (25.0, 60.0, 0.0)]   # Q-value gaps of tens of units, as trained critics have
        masks = [m for m in itertools.product([False, True], repeat=n) if any(m)] if use_mask else [tuple([True] * n)]
        cands += [(list(p), list(m)) for p in pats for m in masks]
        obs = jnp.zeros((2,), f32)
        for qv, mv in cands:
            pol = TableQPolicy(jnp.asarray(qv, f32), eps)
            mask = jnp.asarray(mv) if use_mask else None
            best = max(q for q, m in zip(qv, mv) if m)
            for u in ((0.99, 0.0) if (use_key and eps > 0) else (None,)):
                with extract.patched(*([(jr, "uniform", lambda key, shape=(), dtype=float, minval=0.0, maxval=1.0, uu=u, **kw: jnp.asarray(uu, f32))] if u is not None else [])):
                    _, a = pol(None, obs, action_mask=mask, key=jax.random.key(3) if use_key else None)
                a = int(a)
                ok = 0 <= a < n and mv[a] and ((u is not None and u < eps) or qv[a] >= best)   # exploring (u < epsilon): any allowed action; otherwise greedy
                if not ok:
                    return dict(reproduced=True, route="R1 (real AbstractQPolicy.__call__ on a table Q policy" + ("" if u is None else f"; jax.random.uniform forced to {u}") + ")",
                                inputs=dict(q_values=qv, action_mask=mv if use_mask else None, epsilon=eps, key=use_key), observed=dict(action=a, allowed=bool(0 <= a < n and mv[a]), best_allowed_q=best))
        return dict(reproduced=False, note=f"{len(cands)} (Q, mask) combinations: action always allowed and greedy on the exploit path")
    return replay


def unit_q_policy(S):
    """AbstractQPolicy.__call__ with generic q_values (real epsilon-greedy code): the greedy action is an ALLOWED arg-max of the Q-values;
    without a key or with epsilon <= 0 the greedy action is returned; otherwise action != greedy only if u < epsilon."""
    fn = "lerax.policy.q.base_q:AbstractQPolicy.__call__"
    S.under_contract(fn)
    n = 3
    OBS = Box(-jnp.ones((2,)), jnp.ones((2,)))
    for cfg, eps, use_key, use_mask in (("no-key", 0.1, False, True), ("epsilon-zero", 0.0, True, True), ("epsilon-greedy", 0.1, True, True), ("no-key/no-mask", 0.1, False, False),
                                        ("epsilon-greedy/no-mask", 0.3, True, False), ("epsilon-one", 1.0, True, True), ("epsilon-above-one", 1.5, True, True)):
        ctx = Ctx()
        pol0 = GenericQPolicy(Discrete(n), OBS, epsilon=eps)
        pol = sym(ctx, "q", pol0)
        st = sym(ctx, "ps", GPState(sd((1,), f32)))
        obs = sym(ctx, "obs", sd((2,), f32))
        m = sym(ctx, "mask", sd((n,), jnp.bool_)) if use_mask else None
        k, kc = kit.key_input("key")
        # the law is cut at distreqx (A-DISTREQX); its mode is axiomatised below as the first arg-max of the law's logits
        with extract.patched((jr, "uniform", uniform_stub)), _dx.cut():
            _, act = run(ctx, lambda p, s, o, mm, kk: p(s, o, action_mask=mm, key=kk if use_key else None), pol, st, obs, m, k)
        mode_ax = []
        for c in ctx.calls:
            if c.name.startswith("dx.Categorical") and c.name.endswith(".mode"):
                L, r = c.operands[0], c.outputs[0].scalar()
                mode_ax.append(z3.Or(*[z3.And(r == j, *[L.at((j,)) > L.at((i,)) for i in range(j)], *[L.at((j,)) >= L.at((i,)) for i in range(j + 1, n)]) for j in range(n)]))
        qv = [c for c in ctx.calls if c.name == "q.q_values"]
        if not qv:
            S.fact(f"{cfg}/q-values-evaluated", False, function=fn, what="the policy evaluates its Q-values")
            continue
        q = qv[0].outputs[1]
        a = act.scalar()
        allowed = (lambda j: m.at((j,))) if use_mask else (lambda j: z3.BoolVal(True))
        fin = [z3.And(q.at((j,)) > -ir.INF, q.at((j,)) < ir.INF) for j in range(n)] + ([z3.Or(*[allowed(j) for j in range(n)])] if use_mask else [])
        rp = native_q_replay(eps, use_key, use_mask, [q.at((j,)) for j in range(n)], [m.at((j,)) for j in range(n)] if use_mask else [])
        greedy_ok = lambda t: z3.Or(*[z3.And(t == j, allowed(j), *[z3.Implies(allowed(i), q.at((j,)) >= q.at((i,))) for i in range(n)]) for j in range(n)])
        if eps >= 1.0:
            # pure exploration: whatever shortcut the code takes, the action is a draw from the MASKED law (never a masked action)
            cs = [c_ for c_ in ctx.calls if c_.name.startswith("dx.Categorical") and c_.name.endswith(".sample")]
            us = [c_ for c_ in ctx.calls if c_.name == "uniform"]
            S.fact(f"{cfg}/one-exploratory-sample", len(cs) == 1, function=fn, replay=rp, what="with epsilon >= 1 the action comes from one exploratory sample", detail=[c_.name for c_ in ctx.calls][:8])
            if len(cs) == 1:
                lg, expl = cs[0].operands[0], cs[0].outputs[0].scalar()
                epsf = ir.const_float(np.float32(eps))
                hy_u = [z3.And(u_.outputs[0].scalar() >= 0, u_.outputs[0].scalar() < 1) for u_ in us]    # A-RNG: uniform draws lie in [0, 1)
                S.prove(f"{cfg}/action-is-a-draw-from-the-masked-law", ctx, sand(a == expl, *[z3.Implies(z3.Not(m.at((j,))), lg.at((j,)) <= -ir.INF) for j in range(n)]), hyps=fin + hy_u, function=fn, replay=rp,
                        nl_budget_ms=4000, what="the returned action is the exploratory sample, drawn from logits that are -inf on masked actions")
        elif cfg.startswith("no-key") or cfg.startswith("epsilon-zero"):
            S.prove(f"{cfg}/greedy-and-allowed", ctx, greedy_ok(a), hyps=fin + mode_ax, function=fn, replay=rp,
                    what="deterministic mode: the action is an allowed action with the highest Q-value among the allowed ones (never a masked action)")
        else:
            us = [c for c in ctx.calls if c.name == "uniform"]
            cs = [c for c in ctx.calls if c.name.startswith("dx.Categorical") and c.name.endswith(".sample")]
            S.fact(f"{cfg}/one-uniform-one-sample", len(us) == 1 and len(cs) == 1, function=fn, what="epsilon-greedy draws one uniform and one exploratory sample")
            if len(us) == 1 and len(cs) == 1:
                u = us[0].outputs[0].scalar()
                expl = cs[0].outputs[0].scalar()
                epsf = ir.const_float(np.float32(eps))
                S.prove(f"{cfg}/departs-from-greedy-only-if-u-below-epsilon", ctx, z3.And(z3.Implies(z3.Not(u < ir.zreal(epsf)), greedy_ok(a)), z3.Implies(u < ir.zreal(epsf), a == expl)),
                        hyps=fin + mode_ax, function=fn, replay=rp, what="action = exploratory sample iff u < epsilon, else the allowed greedy action: the policy departs from greedy with probability at most epsilon (A-RNG)")
                lg = cs[0].operands[0]
                if use_mask:
                    S.prove(f"{cfg}/exploration-samples-the-masked-law", ctx, sand(*[z3.Implies(z3.Not(m.at((j,))), lg.at((j,)) <= -ir.INF) for j in range(n)]), hyps=fin, function=fn,
                            what="the exploratory sample is drawn from logits that are -inf on masked actions (never chosen, A-DISTREQX)", nl_budget_ms=4000)
                S.prove(f"{cfg}/keys-differ", ctx, us[0].operands[0].scalar() != cs[0].operands[-1].scalar(), hyps=[_split_distinct(ctx, kc)] + kit.rng_ground_injectivity([us[0].operands[0].scalar(), cs[0].operands[-1].scalar()]), function=fn, what="the uniform draw and the exploratory sample use different derived keys")


def _split_distinct(ctx, kc):
    split = ctx.uf("split", [ir.KeySort, z3.IntSort(), z3.IntSort()], ir.KeySort)
    return split(kc, 2, 0) != split(kc, 2, 1)


def unit_sac_policy(S):
    fn = "lerax.policy.sac.mlp:MLPSACPolicy"
    S.under_contract(fn + ".__call__", fn + ".action_and_log_prob")
    E = GenericEnv(Box(jnp.array([-1.0, -2.0]), jnp.array([1.0, 3.0])), observation_space=Box(-jnp.ones((2,)), jnp.ones((2,))))
    pol0 = MLPSACPolicy(E, feature_size=2, width_size=2, depth=1, key=jax.random.key(0))
    ctx = Ctx()
    ctx.unroll_limit = 4
    pol = sym(ctx, "pi", pol0)
    obs = sym(ctx, "obs", sd((2,), f32))
    k, kc = kit.key_input("key")
    with _dx.cut():
        n0 = len(ctx.calls)
        run(ctx, lambda p, o: p(None, o), pol, obs)
        c0 = ctx.calls[n0:]
        n1 = len(ctx.calls)
        run(ctx, lambda p, o, kk: p(None, o, key=kk), pol, obs, k)
        c1 = ctx.calls[n1:]
        n2 = len(ctx.calls)
        _, a2, lp2 = run(ctx, lambda p, o, kk: p.action_and_log_prob(None, o, key=kk), pol, obs, k)
        c2 = ctx.calls[n2:]
    meth = lambda cs: sorted({c.name.rsplit(".", 1)[1] for c in cs})
    S.fact("sac/key-none-acts-with-the-mode", meth(c0) in (["mode"], ["forward", "mode"]), function=fn + ".__call__", what="without a key the SAC policy returns the mode of its squashed law", detail=meth(c0))
    S.fact("sac/key-samples", meth(c1) == ["sample"], function=fn + ".__call__", what="with a key it samples from that law", detail=meth(c1))
    S.fact("sac/action-and-log-prob-from-one-law", meth(c2) == ["sample_and_log_prob"], function=fn + ".action_and_log_prob", what="action_and_log_prob reports the log-probability of the law it samples from (one sample_and_log_prob call)", detail=meth(c2))
    if c1 and c2:
        S.prove("sac/same-law-for-sampling-and-log-prob", ctx, sand(*[kit.arr_eq_at(a, b, ()) for a, b in zip(c1[0].operands[:-1], c2[0].operands[:-1])]), function=fn,
                what="__call__ and action_and_log_prob use the same distribution parameters for the same observation")


def _ctor_unit(S):
    """the exploration rate the epsilon-greedy rule uses is the configured one (0 = always greedy included): MLPQPolicy.__init__ extracted with epsilon and the key symbolic
    (parameter initialisation draws cut at jax.random.uniform)"""
    from lerax.policy import MLPQPolicy
    from lvc.extract import fork_paths, eval_traced
    fn = "lerax.policy.q.mlp:MLPQPolicy.__init__"
    S.under_contract(fn)
    E = GenericEnv(Discrete(3))
    ctx = Ctx()
    e, ec = kit.real_scalar("epsilon")
    k, _ = kit.key_input("key")

    def prog(ee, kk):
        return jnp.asarray(MLPQPolicy(E, epsilon=ee, key=kk, width_size=2, depth=1).epsilon, jnp.float32)

    def rp(model):
        for v in [kit.model_float(model, "epsilon", 0.0), 0.0, 1.0, 0.25]:
            got = float(MLPQPolicy(E, epsilon=float(v), key=jax.random.key(0), width_size=2, depth=1).epsilon)
            if got != float(v) and got != float(jnp.float32(v)):
                return dict(reproduced=True, route="R1 (real MLPQPolicy constructor)", inputs=dict(epsilon=float(v)), observed=dict(stored_epsilon=got))
        return dict(reproduced=False, note="MLPQPolicy stores epsilon unchanged for 0, 1 and interior values")
    with extract.patched((jr, "uniform", uniform_stub)):
        paths = fork_paths(prog, (e, k), raises=(ValueError, AssertionError, TypeError))
    okp = [p for p in paths if p[0] is not None]
    goals = []
    for tr, dyn, dec in okp:
        conds, out = eval_traced(ctx, tr, dyn)
        goals.append(ir.simplies(sand(*[ir.seq(c_.scalar(), d_) for c_, d_ in zip(conds, dec)]), ir.seq(out.scalar(), ec)))
    S.prove("MLPQPolicy.__init__/stores-epsilon", ctx, sand(*goals) if okp else z3.BoolVal(False), function=fn, replay=rp,
            what=f"for all real epsilon the constructor accepts ({len(okp)} accepting of {len(paths)} paths): the policy's epsilon field is the constructor argument")


UNITS = [("constructor", _ctor_unit), ("mask", unit_mask), ("actor-critic", unit_actor_critic), ("q-policy", unit_q_policy), ("sac-policy", unit_sac_policy)]
