"""C15 - Action distributions are coherent probability laws (the lerax-authored part).

Under contract: AbstractDistreqxWrapper.* (delegation), AbstractTransformedDistribution.mode, constructors of Categorical, Bernoulli,
Normal, MultivariateNormalDiag, SquashedNormal, SquashedMultivariateNormalDiag; all of MultiCategorical.
The distreqx laws are cut at the law level (contracts/_dx.py, A-DISTREQX): normalisation, sampling-follows-density and entropy of
the BASE laws are assumed; what is proved is that lerax constructs exactly the law the property describes and delegates to it.
"""
from __future__ import annotations

import itertools

import jax
import jax.numpy as jnp
import numpy as np
import z3

from lerax import distribution as LD

from lvc import kit, ir, extract
from lvc.extract import run, sym
from lvc.kit import Ctx, sand
from contracts import _dx
from contracts._dx import FD, FB

PROPERTY = "C15"
TRUSTED = ["A-DISTREQX: each distreqx base law is normalised, sample follows it, prob = exp(log_prob), sample_and_log_prob returns the log-prob of its own sample, entropy = -E[log p]; "
           "Transformed.log_prob(y) = base.log_prob(inv y) + ildj; Chain applies right-to-left; ScalarAffine(x) = scale*x + shift; Sigmoid = logistic",
           "A-RNG (split injective)", "A-REAL"]
ASSUMPTIONS = ["shapes enumerated: scalar and vector parameters; MultiCategorical with action_dims (2,3,4) and (3,), flat and sequence form"]
DROPS = ["D2: constructor validation (ValueError) paths"]
NOT_DECIDED = ["total mass = 1, entropy = -E[log p], samples follow the density: integrals / distributional facts of distreqx and jax.random, inherited through the delegation proved here (A-DISTREQX)"]
sd = jax.ShapeDtypeStruct
f32 = jnp.float32

WRAPPERS = {
    "Categorical[logits]": (lambda p: LD.Categorical(logits=p), lambda p: FD.Categorical(logits=p, probs=None), sd((3,), f32), sd((), jnp.int32)),
    "Categorical[probs]": (lambda p: LD.Categorical(probs=p), lambda p: FD.Categorical(logits=None, probs=p), sd((3,), f32), sd((), jnp.int32)),
    "Bernoulli[logits]": (lambda p: LD.Bernoulli(logits=p), lambda p: FD.Bernoulli(logits=p, probs=None), sd((2,), f32), sd((2,), jnp.int32)),
    "Bernoulli[probs]": (lambda p: LD.Bernoulli(probs=p), lambda p: FD.Bernoulli(logits=None, probs=p), sd((2,), f32), sd((2,), jnp.int32)),
    "Normal": (lambda p: LD.Normal(loc=p[0], scale=p[1]), lambda p: FD.Normal(loc=p[0], scale=p[1]), sd((2, 2), f32), sd((2,), f32)),
    "MultivariateNormalDiag": (lambda p: LD.MultivariateNormalDiag(loc=p[0], scale_diag=p[1]), lambda p: FD.MultivariateNormalDiag(loc=p[0], scale_diag=p[1]), sd((2, 2), f32), sd((2,), f32)),
    # squashed laws: Transformed(base, Chain((ScalarAffine(scale = high - low, shift = low), Sigmoid()))) ; p = (loc, scale, high, low)
    "SquashedNormal": (lambda p: LD.SquashedNormal(loc=p[0], scale=p[1], high=p[2], low=p[3]),
                       lambda p: FD.Transformed(FD.Normal(loc=p[0], scale=p[1]), FB.Chain((FB.ScalarAffine(scale=p[2] - p[3], shift=p[3]), FB.Sigmoid()))), sd((4,), f32), sd((), f32)),
    "SquashedMultivariateNormalDiag": (lambda p: LD.SquashedMultivariateNormalDiag(loc=p[0], scale_diag=p[1], high=p[2], low=p[3]),
                                       lambda p: FD.Transformed(FD.MultivariateNormalDiag(loc=p[0], scale_diag=p[1]),
                                                                FB.Block(FB.Chain((FB.ScalarAffine(scale=p[2] - p[3], shift=p[3]), FB.Sigmoid())), ndims=1)), sd((4, 2), f32), sd((2,), f32)),
}
METHODS = ("log_prob", "prob", "sample", "entropy", "mean", "mode", "sample_and_log_prob")


def _call(obj, m, v, k):
    if m in ("log_prob", "prob"):
        return getattr(obj, m)(v)
    if m in ("sample", "sample_and_log_prob"):
        return getattr(obj, m)(k)
    return getattr(obj, m)()


def _cached(f):
    memo = {}

    def g(model):
        if "r" not in memo:
            memo["r"] = f(model)
        return memo["r"]
    return g


def native_law_replay(name):
    """R1: the real lerax law vs the real distreqx law it is documented to be (same constructor parameters), on random AND extreme parameters / values (near the support's edges),
    plus the coherence clauses prob = exp(log_prob) and sample_and_log_prob's log-prob = log_prob(sample)."""
    import distreqx.distributions as RD
    import distreqx.bijectors as RB

    def real_spec(p):
        if name.startswith("Categorical"):
            return RD.Categorical(logits=p) if "logits" in name else RD.Categorical(probs=p)
        if name.startswith("Bernoulli"):
            return RD.Bernoulli(logits=p) if "logits" in name else RD.Bernoulli(probs=p)
        if name == "Normal":
            return RD.Normal(loc=p[0], scale=p[1])
        if name == "MultivariateNormalDiag":
            return RD.MultivariateNormalDiag(loc=p[0], scale_diag=p[1])
        if name == "SquashedNormal":
            return RD.Transformed(RD.Normal(loc=p[0], scale=p[1]), RB.Chain((RB.ScalarAffine(scale=p[2] - p[3], shift=p[3]), RB.Sigmoid())))
        return RD.Transformed(RD.MultivariateNormalDiag(loc=p[0], scale_diag=p[1]), RB.Block(RB.Chain((RB.ScalarAffine(scale=p[2] - p[3], shift=p[3]), RB.Sigmoid())), ndims=1))

    def replay(model):
        mk_real, _, pstruct, vstruct = WRAPPERS[name]
        rng = np.random.RandomState(6)
        cases = []
        for t in range(12):
            if name.startswith("Categorical"):
                raw = rng.randn(3).astype(np.float32) * (1 if t < 6 else 8)
                p = raw if "logits" in name else np.exp(raw - raw.max()) / np.sum(np.exp(raw - raw.max()))
                v = np.int32(rng.randint(0, 3))
            elif name.startswith("Bernoulli"):
                raw = rng.randn(2).astype(np.float32) * (1 if t < 6 else 8)
                p = raw if "logits" in name else 1 / (1 + np.exp(-raw))
                v = rng.randint(0, 2, 2).astype(np.int32)
            elif name in ("Normal", "MultivariateNormalDiag"):
                p = np.stack([rng.randn(2) * 3, np.exp(rng.randn(2))]).astype(np.float32)
                if t in (9, 10, 11):   # extreme scales (float32 products of scales under- / overflow, sums of logs do not)
                    p[1] = {9: [1e-25, 3e-24], 10: [1e25, 4e24], 11: [1e-30, 1e30]}[t]
                v = (p[0] + p[1] * rng.randn(2) * (1 if t < 6 else 6)).astype(np.float32)
            else:
                shape = () if name == "SquashedNormal" else (2,)
                lo = rng.uniform(-3, 0, shape)
                hi = lo + rng.uniform(0.5, 10, shape)
                loc = rng.randn(*shape) * (1 if t < 4 else 12)        # far-out locations push samples against the bounds
                sc = np.exp(rng.randn(*shape) * (0.3 if t < 8 else 1.5))
                p = np.stack([loc, sc, hi, lo]).astype(np.float32)
                frac = rng.uniform(0, 1, shape) if t % 3 else rng.choice([1e-7, 1e-6, 3e-7, 1 - 1e-6, 1 - 2e-7], size=shape)   # values inside and next to the bounds
                v = (lo + (hi - lo) * frac).astype(np.float32)
            cases.append((jnp.asarray(p, f32), jnp.asarray(v)))
        for ci_, (p, v) in enumerate(cases):
            extreme = name in ("Normal", "MultivariateNormalDiag") and ci_ in (9, 10, 11)   # there only lerax-vs-law identity is compared (float32 coherence clauses are ill-conditioned)
            real, spec = mk_real(p), real_spec(p)
            obs = {}
            for m in ("log_prob", "prob"):
                a, b = np.asarray(getattr(real, m)(v), np.float64), np.asarray(getattr(spec, m)(v), np.float64)
                if not np.allclose(a, b, rtol=1e-4, atol=1e-5, equal_nan=True):
                    obs[m] = dict(lerax=a.tolist(), law=b.tolist())
            for m in ("entropy", "mode", "mean"):
                try:
                    a = np.asarray(getattr(real, m)(), np.float64)
                except NotImplementedError:
                    continue
                try:
                    b = np.asarray(getattr(spec, m)(), np.float64)
                except NotImplementedError:
                    continue
                if a.shape != b.shape or not np.allclose(a, b, rtol=1e-4, atol=1e-5, equal_nan=True):
                    obs[m] = dict(lerax=a.tolist(), law=b.tolist())
            lp, pr = np.asarray(real.log_prob(v), np.float64), np.asarray(real.prob(v), np.float64)
            if not extreme and np.all(np.isfinite(lp)) and not np.allclose(pr, np.exp(lp), rtol=1e-3, atol=1e-6):
                obs["prob_vs_exp_log_prob"] = dict(prob=pr.tolist(), exp_log_prob=np.exp(lp).tolist())
            key = jax.random.key(5)
            s, slp = real.sample_and_log_prob(key)
            s2, slp2 = spec.sample_and_log_prob(key)
            if not (np.allclose(np.asarray(s, np.float64), np.asarray(s2, np.float64), rtol=1e-5, atol=1e-6) and np.allclose(np.asarray(slp, np.float64), np.asarray(slp2, np.float64), rtol=1e-4, atol=1e-4)):
                obs["sample_and_log_prob"] = dict(lerax=[np.asarray(s).tolist(), np.asarray(slp).tolist()], law=[np.asarray(s2).tolist(), np.asarray(slp2).tolist()])
            lps = np.asarray(real.log_prob(s), np.float64)
            interior = True
            if name.startswith("Squashed"):   # next to the bounds the float32 inverse of the squashing is ill-conditioned: the clause is replayed on interior samples only
                fr = (np.asarray(s, np.float64) - np.asarray(p[3], np.float64)) / (np.asarray(p[2], np.float64) - np.asarray(p[3], np.float64))
                interior = bool(np.all((fr > 1e-2) & (fr < 1 - 1e-2)))
            if interior and not extreme and np.all(np.isfinite(lps)) and np.all(np.isfinite(np.asarray(slp))) and not np.allclose(lps, np.asarray(slp, np.float64), rtol=1e-3, atol=1e-3):
                obs["log_prob_of_returned_sample"] = dict(returned=np.asarray(slp).tolist(), log_prob_of_sample=lps.tolist(), sample=np.asarray(s).tolist())
            if obs:
                return dict(reproduced=True, route="R1 (real lerax law vs the real distreqx law on the same parameters; coherence clauses)", inputs=dict(law=name, params=np.asarray(p).tolist(), value=np.asarray(v).tolist()), observed=obs)
        return dict(reproduced=False, note=f"{len(cases)} parameter/value cases incl. values next to the bounds: identical to the described law, prob = exp(log_prob), sample_and_log_prob coherent")
    return replay


def unit_wrappers(S):
    for name, (mk_real, mk_spec, pstruct, vstruct) in WRAPPERS.items():
        cls = name.split("[")[0]
        fn = f"lerax.distribution:{cls}"
        S.under_contract(fn + ".__init__", "lerax.distribution.base_distribution:AbstractDistreqxWrapper")
        rp = _cached(native_law_replay(name))
        for m in METHODS:
            ctx = Ctx()
            p = sym(ctx, "param", pstruct)
            v = sym(ctx, "value", vstruct)
            k, kc = kit.key_input("key")
            with _dx.cut():
                try:
                    real = run(ctx, lambda pp, vv, kk: _call(mk_real(pp), m, vv, kk), p, v, k)
                    spec = run(ctx, lambda pp, vv, kk: _call(mk_spec(pp), m, vv, kk), p, v, k)
                except NotImplementedError:
                    S.fact(f"{name}.{m}/not-defined", True, function=fn, what=f"{m} is not defined for this law (raises NotImplementedError both in lerax and distreqx)")
                    continue
            names_r = sorted({c.name for c in ctx.calls})
            S.prove(f"{name}.{m}/is-the-laws-own", ctx, kit.tree_eq(real, spec), function=fn + "." + m, replay=rp, candidate_only=True,
                    what=f"{name}(params).{m} is exactly the described law's {m} on the given parameters (structure: {names_r[0].split('.')[1] if names_r else '?'}...)")
    # squashing: support within [low, high] - the REAL distreqx bijector code, traced through
    from distreqx import bijectors as RB
    for nm, shape in (("SquashedNormal", ()), ("SquashedMultivariateNormalDiag", (2,))):
        ctx = Ctx()
        x = sym(ctx, "x", sd(shape, f32))
        lo = sym(ctx, "low", sd(shape, f32))
        hi = sym(ctx, "high", sd(shape, f32))
        mk = (lambda l, h: LD.SquashedNormal(loc=jnp.zeros(shape), scale=jnp.ones(shape), high=h, low=l)) if nm == "SquashedNormal" else \
             (lambda l, h: LD.SquashedMultivariateNormalDiag(loc=jnp.zeros(shape), scale_diag=jnp.ones(shape), high=h, low=l))
        y = run(ctx, lambda xx, l, h: mk(l, h).bijector.forward(xx), x, lo, hi)
        hyp = [lo.at(i) <= hi.at(i) for i in lo.indices()]
        S.prove(f"{nm}/support-within-bounds", ctx, sand(*[z3.And(y.at(i) >= lo.at(i), y.at(i) <= hi.at(i)) for i in y.indices()]), hyps=hyp, function=f"lerax.distribution:{nm}",
                what="every point of the squashed law's support, forward(x) = low + (high - low)*sigmoid(x), lies within [low, high] (real distreqx bijector code traced through): samples and the mode fallback are in range")
        loc = sym(ctx, "loc", sd(shape, f32))
        mk2 = (lambda l, h, c: LD.SquashedNormal(loc=c, scale=jnp.ones(shape), high=h, low=l)) if nm == "SquashedNormal" else \
              (lambda l, h, c: LD.SquashedMultivariateNormalDiag(loc=c, scale_diag=jnp.ones(shape), high=h, low=l))
        md = run(ctx, lambda l, h, c: mk2(l, h, c).mode(), lo, hi, loc)
        fw = run(ctx, lambda l, h, c: mk2(l, h, c).bijector.forward(c), lo, hi, loc)
        S.prove(f"{nm}/mode-is-forward-of-base-mode", ctx, sand(kit.tree_eq(md, fw), *[z3.And(md.at(i) >= lo.at(i), md.at(i) <= hi.at(i)) for i in md.indices()]), hyps=hyp,
                function="lerax.distribution.base_distribution:AbstractTransformedDistribution.mode", what="mode() = forward(base mode) = forward(loc), within [low, high]")


def native_multicat_replay(dims, form):
    """R1: the real MultiCategorical built from a flat vector vs numpy log-softmax per component (cumulative split), on random parameters."""
    def replay(model):
        offs = [sum(dims[:i]) for i in range(len(dims))]
        rng = np.random.RandomState(4)
        for t in range(4):
            raw = rng.randn(sum(dims)).astype(np.float32)
            pieces = [raw[o:o + d] for o, d in zip(offs, dims)]
            logp = [p - np.log(np.sum(np.exp(p))) for p in pieces]
            flat = raw if form == "logits" else np.concatenate([np.exp(l) for l in logp]).astype(np.float32)
            val = np.array([rng.randint(0, d) for d in dims])
            obs = {}
            try:
                d = LD.MultiCategorical(**{form: jnp.asarray(flat)}, action_dims=dims)
                obs = dict(log_prob=float(d.log_prob(jnp.asarray(val))), entropy=float(d.entropy()), mode=np.asarray(d.mode()).tolist())
            except Exception as e:
                obs = dict(raised=f"{type(e).__name__}: {e}"[:200])
            exp = dict(log_prob=float(sum(l[v] for l, v in zip(logp, val))), entropy=float(-sum(np.sum(np.exp(l) * l) for l in logp)), mode=[int(np.argmax(l)) for l in logp])
            bad = "raised" in obs or abs(obs["log_prob"] - exp["log_prob"]) > 1e-4 or abs(obs["entropy"] - exp["entropy"]) > 1e-4 or list(obs["mode"]) != exp["mode"]
            if bad:
                return dict(reproduced=True, route="R1 (real MultiCategorical from a flat vector vs per-component numpy log-softmax)",
                            inputs={form: flat.tolist(), "action_dims": list(dims), "value": val.tolist()}, observed=dict(real=obs, expected=exp))
        # zero-probability classes (a masked law, or probs with an exact 0): 0 log 0 = 0, the entropy stays finite = sum of the entropies of the remaining classes per component
        big = [i for i, d_ in enumerate(dims) if d_ >= 2]
        if big:
            raw = rng.randn(sum(dims)).astype(np.float32)
            keep = np.ones(sum(dims), bool)
            keep[offs[big[0]]] = False                    # first class of the first component with >= 2 classes
            pieces = [np.where(keep[o:o + d], raw[o:o + d], -np.inf) for o, d in zip(offs, dims)]
            logp = [p - np.log(np.sum(np.exp(p))) for p in pieces]
            exp_ent = float(-sum(np.sum(np.where(np.isfinite(l), np.exp(l) * np.where(np.isfinite(l), l, 0.0), 0.0)) for l in logp))
            probs0 = np.concatenate([np.exp(l) for l in logp]).astype(np.float32)
            variants = [("mask", lambda: LD.MultiCategorical(logits=jnp.asarray(raw), action_dims=dims).mask(jnp.asarray(keep)))]
            if form == "probs":
                variants.append(("probs with an exact 0", lambda: LD.MultiCategorical(probs=jnp.asarray(probs0), action_dims=dims)))
            for vname, mk in variants:
                try:
                    ent = float(mk().entropy())
                except Exception as e:
                    ent = f"raised {type(e).__name__}: {e}"[:200]
                if not (isinstance(ent, float) and np.isfinite(ent) and abs(ent - exp_ent) <= 1e-4):
                    return dict(reproduced=True, route="R1 (real MultiCategorical with a zero-probability class vs per-component numpy entropy with 0 log 0 = 0)",
                                inputs=dict(construction=vname, logits=raw.tolist(), keep=keep.tolist(), action_dims=list(dims)), observed=dict(entropy=ent, expected=exp_ent))
        # batched parameters (a leading batch axis): sample_and_log_prob / log_prob / entropy per batch row equal the unbatched law of that row
        for Bn in (2, len(dims), 4):
            raw = rng.randn(Bn, sum(dims)).astype(np.float32)
            logp_rows = [[raw[b, o:o + d] - np.log(np.sum(np.exp(raw[b, o:o + d]))) for o, d in zip(offs, dims)] for b in range(Bn)]
            flat = raw if form == "logits" else np.stack([np.concatenate([np.exp(l) for l in row]) for row in logp_rows]).astype(np.float32)
            for mk_name, mk in (("flat", lambda: LD.MultiCategorical(**{form: jnp.asarray(flat)}, action_dims=dims)),
                                ("sequence", lambda: LD.MultiCategorical(**{form: [jnp.asarray(flat[:, o:o + d]) for o, d in zip(offs, dims)]}))):
                try:
                    d = mk()
                    s, lp = d.sample_and_log_prob(jax.random.key(3))
                    s, lp = np.asarray(s), np.asarray(lp, np.float64)
                    lp2 = np.asarray(d.log_prob(jnp.asarray(s)), np.float64)
                    exp = np.array([sum(logp_rows[b][i][int(s[b, i])] for i in range(len(dims))) for b in range(Bn)]) if s.shape == (Bn, len(dims)) else None
                    ok = exp is not None and lp.shape == (Bn,) and np.allclose(lp, exp, atol=1e-4) and lp2.shape == (Bn,) and np.allclose(lp2, exp, atol=1e-4)
                    obs = dict(sample_shape=list(s.shape), returned_log_prob=lp.tolist(), log_prob_of_sample=lp2.tolist(), per_component_sum=None if exp is None else exp.tolist())
                except Exception as e:
                    ok, obs = False, dict(raised=f"{type(e).__name__}: {e}"[:200])
                if not ok:
                    return dict(reproduced=True, route="R1 (real batched MultiCategorical vs per-row, per-component numpy log-softmax)", inputs={"form": form, "parameters": mk_name, "batch": Bn, "action_dims": list(dims)}, observed=obs)
        # many classes in total, at most 127 per component (distreqx draws class indices as int8 - see the known finding of unit many-classes): the flat position of a class no longer
        # fits int8, the returned log-probability must still be that of the returned sample
        for bdims in ((100, 100), (50, 40, 30, 20), (127, 127)):
            braw = rng.randn(sum(bdims)).astype(np.float32)
            boffs = [sum(bdims[:i]) for i in range(len(bdims))]
            blogp = [braw[o:o + d] - np.log(np.sum(np.exp(braw[o:o + d]))) for o, d in zip(boffs, bdims)]
            try:
                d = LD.MultiCategorical(logits=jnp.asarray(braw), action_dims=bdims)
                for seed in range(6):
                    s, lp = d.sample_and_log_prob(jax.random.key(seed))
                    s = np.asarray(s).astype(np.int64)
                    exp = float(sum(l[v] for l, v in zip(blogp, s)))
                    lp2 = float(d.log_prob(jnp.asarray(s)))
                    if abs(float(lp) - exp) > 1e-3 or abs(lp2 - exp) > 1e-3:
                        return dict(reproduced=True, route="R1 (real MultiCategorical with more than 127 classes in total, at most 127 per component)", inputs=dict(action_dims=list(bdims), key=seed),
                                    observed=dict(sample=s.tolist(), returned_log_prob=float(lp), log_prob_of_sample=lp2, per_component_sum=exp))
            except Exception as e:
                return dict(reproduced=True, route="R1 (real MultiCategorical with more than 127 classes in total, at most 127 per component)", inputs=dict(action_dims=list(bdims)), observed=dict(raised=f"{type(e).__name__}: {e}"[:200]))
        return dict(reproduced=False, note="4 random parameter vectors and batched parameters (flat and sequence): log_prob, entropy, mode, sample_and_log_prob agree with the per-component computation; also with > 127 classes")
    return replay


def native_many_classes():
    """Categorical / MultiCategorical components with MORE than 127 classes: samples and the mode must be class indices in [0, n), sample_and_log_prob must return the (finite)
    log-probability of the returned sample, log_prob of a valid index must be its log-softmax entry."""
    rng = np.random.RandomState(9)
    bad = []
    for n in (128, 200, 300):
        raw = rng.randn(n).astype(np.float32)
        raw[n - 1] += 3.0          # the mode is the last class (index >= 127)
        lsm = raw - np.log(np.sum(np.exp(raw)))
        d = LD.Categorical(logits=jnp.asarray(raw))
        m = int(np.asarray(d.mode()))
        if m != n - 1:
            bad.append(dict(law=f"Categorical({n} classes)", what="mode is not the arg-max class", mode=m, expected=n - 1))
        lpv = float(d.log_prob(jnp.asarray(n - 1)))
        if not abs(lpv - float(lsm[n - 1])) < 1e-4:
            bad.append(dict(law=f"Categorical({n} classes)", what="log_prob of a valid class index", index=n - 1, log_prob=lpv, expected=float(lsm[n - 1])))
        for seed in range(8):
            s, lp = d.sample_and_log_prob(jax.random.key(seed))
            s, lp = int(np.asarray(s)), float(lp)
            if not (0 <= s < n) or not np.isfinite(lp) or abs(lp - float(lsm[s])) > 1e-4:
                bad.append(dict(law=f"Categorical({n} classes)", what="sample_and_log_prob", key=seed, sample=s, returned_log_prob=lp, expected=float(lsm[s]) if 0 <= s < n else None))
                break
    raw = rng.randn(203).astype(np.float32)
    d = LD.MultiCategorical(logits=jnp.asarray(raw), action_dims=(3, 200))
    for seed in range(8):
        s, lp = d.sample_and_log_prob(jax.random.key(seed))
        s = np.asarray(s).astype(np.int64)
        if s[1] < 0 or s[1] >= 200 or not np.isfinite(float(lp)):
            bad.append(dict(law="MultiCategorical(action_dims=(3, 200))", what="sample_and_log_prob", key=seed, sample=s.tolist(), returned_log_prob=float(lp)))
            break
    return bad


def unit_many_classes(S):
    """Bounded native check of the laws with more than 127 classes per component.  distreqx (the delegate) casts samples and the mode to int8 and compares int8 values with the class
    count, so such laws are incoherent on the unchanged tree: recorded as a known finding (known_findings.json), see DESIGN 10.4."""
    fn = "lerax.distribution.categorical:Categorical"
    S.under_contract(fn + ".sample_and_log_prob", fn + ".mode", fn + ".log_prob")
    bad = native_many_classes()
    S.bounded_check("categorical/more-than-127-classes/sample-mode-log_prob-coherent", not bad, bound="Categorical with 128, 200, 300 classes and MultiCategorical (3, 200), 8 keys each", function=fn,
                    what="with more than 127 classes per component: samples and the mode are class indices in [0, n), the returned log-probability is the finite log-probability of the returned sample",
                    detail=bad[:6], replay=lambda m: dict(reproduced=bool(bad), route="R1 (real Categorical / MultiCategorical with more than 127 classes)", cause="class indices are drawn / compared as int8 by the distreqx delegate",
                                                          observed=bad[:6]))


def unit_multicategorical(S):
    fn = "lerax.distribution.multi_categorical:MultiCategorical"
    S.under_contract(fn + ".__init__", fn + "._split_or_unpack_params", fn + ".log_prob", fn + ".prob", fn + ".entropy", fn + ".sample", fn + ".mode", fn + ".sample_and_log_prob")
    for dims in ((2, 3, 4), (3,), (1, 2)):
        tot = sum(dims)
        offs = [sum(dims[:i]) for i in range(len(dims))]
        for form in ("logits", "probs"):
            ctx = Ctx()
            flat = sym(ctx, "flat", sd((tot,), f32))
            v = sym(ctx, "value", sd((len(dims),), jnp.int32))
            k, kc = kit.key_input("key")
            tag = f"MultiCategorical{list(dims)}[{form}]"
            mk_flat = lambda p: LD.MultiCategorical(**{form: p}, action_dims=dims)
            mk_seq = lambda p: LD.MultiCategorical(**{form: [p[o:o + d] for o, d in zip(offs, dims)]})
            comp = lambda p, i: FD.Categorical(**{"logits": None, "probs": None, form: p[offs[i]:offs[i] + dims[i]]})
            with _dx.cut():
                lp_flat = run(ctx, lambda p, vv: mk_flat(p).log_prob(vv), flat, v)
                lp_seq = run(ctx, lambda p, vv: mk_seq(p).log_prob(vv), flat, v)
                lp_spec = run(ctx, lambda p, vv: sum(comp(p, i).log_prob(vv[i]) for i in range(len(dims))), flat, v)
                S.prove(f"{tag}/log_prob-is-sum-over-components", ctx, sand(ir.seq(lp_flat.scalar(), lp_spec.scalar()), ir.seq(lp_seq.scalar(), lp_spec.scalar())), replay=native_multicat_replay(dims, form), function=fn + ".log_prob",
                        what="log_prob(v) = sum_i log_prob_i(v_i) with component i built from params[c_i : c_i + d_i] (cumulative split), identically for flat and sequence parameters")
                pr = run(ctx, lambda p, vv: mk_flat(p).prob(vv), flat, v)
                ex = ctx.uf("exp", [z3.RealSort()], z3.RealSort())
                S.prove(f"{tag}/prob-is-exp-log_prob", ctx, ir.seq(pr.scalar(), ex(ir.zreal(lp_flat.scalar()))), function=fn + ".prob", what="prob = exp(log_prob)")
                en = run(ctx, lambda p: mk_flat(p).entropy(), flat)
                en_s = run(ctx, lambda p: sum(comp(p, i).entropy() for i in range(len(dims))), flat)
                S.prove(f"{tag}/entropy-is-sum", ctx, ir.seq(en.scalar(), en_s.scalar()), replay=native_multicat_replay(dims, form), function=fn + ".entropy", what="entropy = sum of the component entropies")
                mo = run(ctx, lambda p: mk_flat(p).mode(), flat)
                mo_s = run(ctx, lambda p: jnp.stack([comp(p, i).mode() for i in range(len(dims))]), flat)
                S.prove(f"{tag}/mode-stacks-components", ctx, kit.tree_eq(mo, mo_s), replay=native_multicat_replay(dims, form), function=fn + ".mode", what="mode = the component modes, stacked")
                n0 = len(ctx.calls)
                sm, slp = run(ctx, lambda p, kk: mk_flat(p).sample_and_log_prob(kk), flat, k)
                sc = [c for c in ctx.calls[n0:] if c.name.endswith(".sample_and_log_prob")]
                ok = len(sc) == len(dims)
                S.fact(f"{tag}/sample_and_log_prob-one-draw-per-component", ok, function=fn + ".sample_and_log_prob", what="one sample_and_log_prob per component law")
                if ok:
                    keys = [c.operands[-1].scalar() for c in sc]
                    split = ctx.uf("split", [ir.KeySort, z3.IntSort(), z3.IntSort()], ir.KeySort)
                    inj = z3.Distinct(*[split(kc, len(dims), i) for i in range(len(dims))]) if len(dims) > 1 else z3.BoolVal(True)
                    goal = sand(*[kit.arr_eq_at(sm, jax.tree.map(lambda x: x, sm), ())] if False else [],
                                *[ir.seq(sm.at((i,)), sc[i].outputs[0].scalar()) for i in range(len(dims))],
                                ir.seq(slp.scalar(), sum(ir.zreal(c.outputs[1].scalar()) for c in sc)),
                                *([z3.Distinct(*keys)] if len(keys) > 1 else []))
                    S.prove(f"{tag}/sample_and_log_prob-coherent", ctx, goal, hyps=[inj] + kit.rng_ground_injectivity(keys), function=fn + ".sample_and_log_prob",
                            what="returned sample = the component samples stacked, returned log-prob = sum of the log-probs OF THOSE samples, components drawn with pairwise different keys")
                n1 = len(ctx.calls)
                s2 = run(ctx, lambda p, kk: mk_flat(p).sample(kk), flat, k)
                sc2 = [c for c in ctx.calls[n1:] if c.name.endswith(".sample")]
                S.fact(f"{tag}/sample-one-draw-per-component", len(sc2) == len(dims), function=fn + ".sample", what="sample stacks one draw per component law")

    # batched parameters (leading batch axis of 2): per row, the returned log-probability is the sum over the components OF THAT ROW (no summation across the batch)
    dims = (2, 3)
    tot, offs = 5, [0, 2]
    for form in ("logits", "probs"):
        for pform in ("flat", "sequence"):
            ctx = Ctx()
            flat = sym(ctx, "flat", sd((2, tot), f32))
            k, kc = kit.key_input("key")
            mk = (lambda p: LD.MultiCategorical(**{form: p}, action_dims=dims)) if pform == "flat" else (lambda p: LD.MultiCategorical(**{form: [p[:, o:o + d] for o, d in zip(offs, dims)]}))
            tag = f"MultiCategorical[batch=2,{form},{pform}]"
            with _dx.cut():
                n0 = len(ctx.calls)
                sm, slp = run(ctx, lambda p, kk: mk(p).sample_and_log_prob(kk), flat, k)
                sc = [c_ for c_ in ctx.calls[n0:] if c_.name.endswith(".sample_and_log_prob")]
                v = sym(ctx, "value", sd((2, len(dims)), jnp.int32))
                n1 = len(ctx.calls)
                lp = run(ctx, lambda p, vv: mk(p).log_prob(vv), flat, v)
                lc = [c_ for c_ in ctx.calls[n1:] if c_.name.endswith(".log_prob")]
            rp = native_multicat_replay((2, 3, 4), form)
            ok = len(sc) == len(dims) and tuple(slp.shape) == (2,) and tuple(sm.shape) == (2, len(dims))
            S.fact(f"{tag}/shapes", ok and tuple(lp.shape) == (2,) and len(lc) == len(dims), function=fn + ".sample_and_log_prob", replay=rp,
                   what="batched parameters: one draw per component law, sample of shape (batch, components), log-probabilities of shape (batch,)", detail=dict(sample=str(sm.shape), logp=str(slp.shape), log_prob=str(lp.shape)))
            if ok and tuple(lp.shape) == (2,) and len(lc) == len(dims):
                goal = sand(*[ir.seq(slp.at((b,)), sum(ir.zreal(c_.outputs[1].at((b,))) for c_ in sc)) for b in range(2)],
                            *[ir.seq(sm.at((b, i)), sc[i].outputs[0].at((b,))) for b in range(2) for i in range(len(dims))],
                            *[ir.seq(lp.at((b,)), sum(ir.zreal(c_.outputs[0].at((b,))) for c_ in lc)) for b in range(2)])
                S.prove(f"{tag}/per-row-sum-over-components", ctx, goal, function=fn + ".sample_and_log_prob", replay=rp,
                        what="row b of the returned log-probability (and of log_prob) is the sum over the components' values for row b; row b of the sample stacks the components' draws for row b")


UNITS = [("wrappers", unit_wrappers), ("multi-categorical", unit_multicategorical), ("many-classes", unit_many_classes)]
