"""C14 - Spaces: exact membership, member samples, coherent equality.

Under contract: contains / sample / canonical / flatten_sample / flat_size / __eq__ / __hash__ of Box, Discrete, MultiBinary,
MultiDiscrete, Dict, Tuple; try_cast; gym_space_to_lerax_space / lerax_to_gym_space.
Leaf-space membership and samples are proved symbolically for ALL candidate values of each enumerated (shape, dtype-kind);
the forking tracer explores every Python-level branch taken on a traced value.  Python-object computations (foreign types,
NaN / inf literals, hash, equality of containers, the Gymnasium round trip) are evaluated natively on an enumerated family of
structures and reported as bounded.
"""
from __future__ import annotations

import itertools
from collections import OrderedDict

import jax
import jax._src.core
import jax.numpy as jnp
import jax.random as jr
import numpy as np
import z3

from lerax.space import Box, Discrete, MultiBinary, MultiDiscrete, Dict, Tuple

from lvc import kit, ir, extract, opaque
from lvc.extract import run, sym, fork_paths, eval_traced
from lvc.kit import Ctx, sand
from lvc.opaque import ocall

PROPERTY = "C14"
TRUSTED = ["A-RNG: uniform(k, shape, min, max) in [min, max]; exponential >= 0; normal finite; randint in [min, max); bernoulli boolean; "
           "choice(k, n, p) returns an index with p > 0 when some p > 0",
           "A-REAL for the symbolic membership obligations (NaN / inf candidates are native, bounded obligations)"]
ASSUMPTIONS = ["shapes / nesting structures enumerated; all candidate VALUES of each shape symbolic; bounds symbolic with low <= high"]
DROPS = ["D1 static structure (shape, dtype kind, container layout) resolved per configuration", "bool(tracer) decisions are explored exhaustively by the forking tracer (path bound 64)"]
NOT_DECIDED = ["distribution of samples"]
sd = jax.ShapeDtypeStruct
f32 = jnp.float32


def _contains_paths(S, space_fn, x_struct, spec, tag, fn, ctx_extra=None, hyps_fn=None, replay=None):
    """space_fn(ctx) -> (space with symbolic leaves); spec(space, x) -> z3 membership predicate."""
    ctx = Ctx()
    space = space_fn(ctx)
    x = sym(ctx, "x", x_struct)
    paths = fork_paths(lambda sp, v: sp.contains(v), (space, x))
    hyps = hyps_fn(space) if hyps_fn else []
    goal_all = []
    scalar_ok = True
    for pi, (tr, dyn, decisions) in enumerate(paths):
        conds, res = eval_traced(ctx, tr, dyn)
        pc = sand(*[ir.seq(c.scalar(), d) for c, d in zip(conds, decisions)])
        if res.shape != ():
            scalar_ok = False
            continue
        goal_all.append(ir.simplies(pc, res.scalar() == spec(space, x)))
    S.fact(f"{tag}/scalar-boolean", scalar_ok, function=fn, what="contains returns a scalar boolean", replay=replay)
    if scalar_ok:
        S.prove(f"{tag}/exact-membership", ctx, sand(*goal_all), hyps=hyps, function=fn, replay=replay,
                what=f"contains(x) == membership predicate for every x of this shape/dtype ({len(paths)} Python-level paths explored)")


def box_fn(shape):
    def mk(ctx):
        b = Box(jnp.zeros(shape), jnp.ones(shape))
        return sym(ctx, "box", b)
    return mk


def box_spec(space, x):
    if tuple(x.shape) != tuple(space.low.shape):
        return z3.BoolVal(False)
    return z3.And(*[z3.And(ir.zreal(x.at(i)) >= space.low.at(i), ir.zreal(x.at(i)) <= space.high.at(i)) for i in x.indices()]) if x.shape != () or True else True


def integral(t):
    return ir.zreal(t) == z3.ToReal(z3.ToInt(ir.zreal(t))) if not z3.is_int(t) else z3.BoolVal(True)


def native_contains_battery(model=None):
    """R1 / bounded: concrete malformed and boundary candidates through the real contains(); returns the list of discrepancies."""
    nan, inf = jnp.nan, jnp.inf
    bad = []
    cases = []
    box = Box(jnp.array([-1.0, 0.0]), jnp.array([1.0, 2.0]))
    cases += [(box, jnp.array([-1.0, 2.0]), True), (box, jnp.array([1.0, 0.0]), True), (box, jnp.array([1.0001, 0.0]), False), (box, jnp.array([nan, 0.0]), False),
              (box, jnp.array([0.0, inf]), False), (box, jnp.array([0.0]), False), (box, jnp.array([[0.0, 0.0]]), False), (box, None, False), (box, "ab", False),
              (box, [[1], [1, 2]], False), (box, object(), False), (box, {"a": 1}, False), (box, jnp.array([0, 1]), True)]
    ub = Box(-inf, inf, (2,))
    cases += [(ub, jnp.array([1e30, -1e30]), True), (ub, jnp.array([nan, 0.0]), False), (ub, jnp.array([inf, -inf]), True)]
    d = Discrete(3)
    cases += [(d, jnp.array(0), True), (d, jnp.array(2), True), (d, jnp.array(3), False), (d, jnp.array(-1), False), (d, jnp.array(1.5), False), (d, jnp.array(2.0), True),
              (d, jnp.array(nan), False), (d, jnp.array([1]), False), (d, None, False), (d, "1", False), (d, jnp.array(1 + 2j), False), (d, jnp.array(inf), False)]
    mb = MultiBinary(3)
    cases += [(mb, jnp.array([0, 1, 1]), True), (mb, jnp.array([0, 2, 1]), False), (mb, jnp.array([0, -1, 1]), False), (mb, jnp.array([True, False, True]), True),
              (mb, jnp.array([0.5, 0, 1]), False), (mb, jnp.array([0, 1]), False), (mb, None, False), (mb, jnp.array([nan, 0, 1]), False)]
    mb2 = MultiBinary((2, 2))
    cases += [(mb2, jnp.zeros((2, 2)), True), (mb2, jnp.array([[0, 1], [1, 2]]), False), (mb2, jnp.array([[0, 1], [1, 0]]), True), (mb2, jnp.zeros((2,)), False)]
    md = MultiDiscrete((2, 3))
    cases += [(md, jnp.array([1, 2]), True), (md, jnp.array([0, 0]), True), (md, jnp.array([2, 0]), False), (md, jnp.array([-1, 2]), False), (md, jnp.array([0, -3]), False),
              (md, jnp.array([0.5, 1]), False), (md, jnp.array([nan, 1]), False), (md, jnp.array([1]), False), (md, None, False), (md, jnp.array([1.0, 2.0]), True)]
    md1, mb1, b1, b0 = MultiDiscrete((5,)), MultiBinary(1), Box(0.0, 1.0, (1,)), Box(0.0, 1.0, ())
    cases += [(md1, jnp.array(3), False), (md1, 3, False), (md1, np.int64(3), False), (md1, jnp.array([3]), True), (md1, jnp.array([[3]]), False), (md1, True, False), (md1, 3.0, False),
              (mb1, jnp.array(1), False), (mb1, 1, False), (mb1, jnp.array([1]), True), (mb1, jnp.array([[1]]), False),
              (b1, jnp.array(0.5), False), (b1, 0.5, False), (b1, jnp.array([0.5]), True), (b1, jnp.array([[0.5]]), False), (b0, jnp.array([0.5]), False), (b0, jnp.array(0.5), True),
              (Tuple((md1, Discrete(2))), (jnp.array(3), jnp.array(1)), False), (Dict({"m": md1}), OrderedDict(m=jnp.array(3)), False)]
    dct = Dict({"a": Discrete(2), "b": Box(0.0, 1.0, (1,))})
    cases += [(dct, OrderedDict(a=jnp.array(1), b=jnp.array([0.5])), True), (dct, OrderedDict(a=jnp.array(2), b=jnp.array([0.5])), False), (dct, OrderedDict(a=jnp.array(1)), False),
              (dct, OrderedDict(a=jnp.array(1), b=jnp.array([0.5]), c=jnp.array(0)), False), (dct, (jnp.array(1), jnp.array([0.5])), False), (dct, None, False), (dct, "x", False),
              (dct, OrderedDict(a=jnp.array(1), c=jnp.array([0.5])), False), (dct, OrderedDict(b=jnp.array([0.5]), a=jnp.array(1)), True),
              (dct, OrderedDict(a=jnp.array(1), b=jnp.array([nan])), False)]
    tp = Tuple((Discrete(2), Box(0.0, 1.0, (1,))))
    cases += [(tp, (jnp.array(1), jnp.array([0.5])), True), (tp, (jnp.array(1),), False), (tp, (jnp.array(1), jnp.array([1.5])), False), (tp, [jnp.array(1), jnp.array([0.5])], False),
              (tp, None, False), (tp, (jnp.array(-1), jnp.array([0.5])), False)]
    nest = Tuple((dct, MultiDiscrete((2, 2))))
    cases += [(nest, (OrderedDict(a=jnp.array(0), b=jnp.array([1.0])), jnp.array([1, 1])), True), (nest, (OrderedDict(a=jnp.array(0), b=jnp.array([1.0])), jnp.array([1, -1])), False)]
    for sp, x, exp in cases:
        try:
            r = sp.contains(x)
            ok = getattr(r, "shape", None) == () and bool(r) == exp
            got = f"{bool(r) if getattr(r, 'shape', None) == () else 'non-scalar ' + str(getattr(r, 'shape', None))}"
        except Exception as e:
            ok, got = False, f"raised {type(e).__name__}: {str(e)[:60]}"
        if not ok:
            bad.append(dict(space=repr(sp), x=repr(x)[:80], expected=exp, got=got))
    return bad, len(cases)


def _battery_replay(model):
    bad, n = native_contains_battery()
    return dict(reproduced=bool(bad), route="R1", inputs="native battery of boundary / malformed candidates", observed=bad[:6])


def unit_contains(S):
    F = "lerax.space:{}.contains"
    for shape in ((), (2,), (2, 2)):
        for xs in ((sd(shape, f32), "f"), (sd(shape, jnp.int32), "i")):
            _contains_paths(S, box_fn(shape), xs[0], box_spec, f"Box{list(shape)}/x:{xs[1]}{list(shape)}", F.format("Box"),
                            hyps_fn=lambda sp: [ir.sle(sp.low.at(i), sp.high.at(i)) for i in sp.low.indices()], replay=_battery_replay)
    _contains_paths(S, box_fn((2,)), sd((3,), f32), box_spec, "Box[2]/x:f[3]-wrong-shape", F.format("Box"), replay=_battery_replay)
    for n in (1, 3):
        def dspec(space, x, n=n):
            if x.shape != ():
                return z3.BoolVal(False)
            t = x.scalar()
            return z3.And(integral(t), ir.zreal(t) >= 0, ir.zreal(t) < n)
        for xs, k in ((sd((), f32), "f"), (sd((), jnp.int32), "i"), (sd((1,), jnp.int32), "i[1]")):
            _contains_paths(S, lambda ctx, n=n: Discrete(n), xs, dspec, f"Discrete({n})/x:{k}", F.format("Discrete"), replay=_battery_replay)
    for shp in ((3,), (2, 2)):
        def mbspec(space, x, shp=shp):
            if tuple(x.shape) != shp:
                return z3.BoolVal(False)
            return z3.And(*[z3.Or(ir.zreal(x.at(i)) == 0, ir.zreal(x.at(i)) == 1) for i in x.indices()])
        for xs, k in ((sd(shp, jnp.int32), "i"), (sd(shp, f32), "f"), (sd((3, 1), jnp.int32), "i[3,1]")):
            _contains_paths(S, lambda ctx, shp=shp: MultiBinary(shp if len(shp) > 1 else shp[0]), xs, mbspec, f"MultiBinary{list(shp)}/x:{k}", F.format("MultiBinary"), replay=_battery_replay)
    for nvec in ((2, 3), (4,)):
        def mdspec(space, x, nvec=nvec):
            if tuple(x.shape) != (len(nvec),):
                return z3.BoolVal(False)
            return z3.And(*[z3.And(integral(x.at((i,))), ir.zreal(x.at((i,))) >= 0, ir.zreal(x.at((i,))) < nvec[i]) for i in range(len(nvec))])
        for xs, k in ((sd((len(nvec),), jnp.int32), "i"), (sd((len(nvec),), f32), "f"), (sd((), jnp.int32), "i[]-rank-too-low"), (sd((len(nvec), 1), jnp.int32), "i[n,1]-rank-too-high"),
                      (sd((1, len(nvec)), jnp.int32), "i[1,n]-rank-too-high")):
            _contains_paths(S, lambda ctx, nvec=nvec: MultiDiscrete(nvec), xs, mdspec, f"MultiDiscrete{list(nvec)}/x:{k}", F.format("MultiDiscrete"), replay=_battery_replay)
    # wrong RANK for one-element spaces: a 0-d value is not a member of a shape-(1,) space and vice versa (values of the right shape only)
    _contains_paths(S, box_fn((1,)), sd((), f32), box_spec, "Box[1]/x:f[]-rank-too-low", F.format("Box"), replay=_battery_replay)
    _contains_paths(S, box_fn(()), sd((1,), f32), box_spec, "Box[]/x:f[1]-rank-too-high", F.format("Box"), replay=_battery_replay)
    _contains_paths(S, box_fn((1,)), sd((1, 1), f32), box_spec, "Box[1]/x:f[1,1]-rank-too-high", F.format("Box"), replay=_battery_replay)

    def mb1spec(space, x):
        if tuple(x.shape) != (1,):
            return z3.BoolVal(False)
        return z3.Or(ir.zreal(x.at((0,))) == 0, ir.zreal(x.at((0,))) == 1)
    for xs, k in ((sd((), jnp.int32), "i[]-rank-too-low"), (sd((1,), jnp.int32), "i[1]"), (sd((1, 1), jnp.int32), "i[1,1]-rank-too-high")):
        _contains_paths(S, lambda ctx: MultiBinary(1), xs, mb1spec, f"MultiBinary[1]/x:{k}", F.format("MultiBinary"), replay=_battery_replay)
    # containers: children's contains abstracted by their contracts (opaque), structure enumerated
    for kind in ("Dict", "Tuple"):
        ctx = Ctx()
        from lerax.space import base_space

        class Child(Discrete):
            def contains(self, x):
                return ocall(f"child{self.n}.contains", sd((), jnp.bool_), x)
        if kind == "Dict":
            sp = Dict({"a": Child(2), "b": Child(3)})
            x = OrderedDict(a=sym(ctx, "xa", sd((), jnp.int32)), b=sym(ctx, "xb", sd((), jnp.int32)))
            xs = [x["a"], x["b"]]
        else:
            sp = Tuple((Child(2), Child(3)))
            x = (sym(ctx, "xa", sd((), jnp.int32)), sym(ctx, "xb", sd((), jnp.int32)))
            xs = list(x)
        r = run(ctx, lambda *v: sp.contains(OrderedDict(a=v[0], b=v[1]) if kind == "Dict" else tuple(v)), *xs)
        c2 = run(ctx, lambda v: ocall("child2.contains", sd((), jnp.bool_), v), xs[0])
        c3 = run(ctx, lambda v: ocall("child3.contains", sd((), jnp.bool_), v), xs[1])
        S.fact(f"{kind}/scalar-boolean", r.shape == (), function=F.format(kind), what="contains returns a scalar boolean")
        S.prove(f"{kind}/conjunction-of-children", ctx, r.scalar() == z3.And(c2.scalar(), c3.scalar()), function=F.format(kind),
                what="a well-structured value is a member iff every component is a member of its own sub-space")
    bad, n = native_contains_battery()
    S.under_contract("lerax.space.utils:try_cast")
    S.bounded_check("battery/boundary-and-malformed-candidates", not bad, bound=f"{n} concrete candidates (boundary values, NaN, inf, negative, too large, wrong shapes, foreign types, nested containers)",
                    function="lerax.space:*.contains", what="contains answers with a scalar boolean, rejects malformed values, never raises", detail=bad[:10], replay=_battery_replay)


# ---- samples, canonical, flatten --------------------------------------------------------------------------

def _rng_stubs():
    def uniform(key, shape=(), dtype=float, minval=0.0, maxval=1.0, **kw):
        return ocall("uniform", sd(tuple(shape), f32), key, jnp.broadcast_to(minval, shape), jnp.broadcast_to(maxval, shape))

    def normal(key, shape=(), dtype=float, **kw):
        return ocall("normal", sd(tuple(shape), f32), key)

    def exponential(key, shape=(), dtype=float, **kw):
        return ocall("exponential", sd(tuple(shape), f32), key)

    def randint(key, shape, minval, maxval, dtype=int, **kw):
        return ocall("randint", sd(tuple(shape), jnp.int32), key, jnp.broadcast_to(minval, shape), jnp.broadcast_to(maxval, shape))

    def bernoulli(key, p=0.5, shape=None, **kw):
        return ocall("bernoulli", sd(tuple(shape or ()), jnp.bool_), key)

    def choice(key, a, shape=(), replace=True, p=None, axis=0, mode=None):
        n = a if isinstance(a, int) else a.shape[0]
        return ocall("choice", sd(tuple(shape), jnp.int32), key, jnp.asarray(n), p if p is not None else jnp.ones((n,)) / n)
    return [(jr, "uniform", uniform), (jr, "normal", normal), (jr, "exponential", exponential), (jr, "randint", randint), (jr, "bernoulli", bernoulli), (jr, "choice", choice)]


def rng_axioms(ctx):
    ax = []
    for c in ctx.calls:
        o = c.outputs[0]
        if c.name == "uniform":
            for i in o.indices():
                ax.append(z3.Implies(c.operands[1].at(i) <= c.operands[2].at(i), z3.And(o.at(i) >= c.operands[1].at(i), o.at(i) <= c.operands[2].at(i))))
        elif c.name == "exponential":
            ax += [z3.And(o.at(i) >= 0, o.at(i) < ir.INF) for i in o.indices()]
        elif c.name == "normal":
            ax += [z3.And(o.at(i) > -ir.INF, o.at(i) < ir.INF) for i in o.indices()]
        elif c.name == "randint":
            ax += [z3.And(o.at(i) >= c.operands[1].at(i), o.at(i) < c.operands[2].at(i)) for i in o.indices()]
        elif c.name == "choice":
            p = c.operands[2]
            n = p.shape[0]
            idx = o.scalar()
            ax.append(z3.And(idx >= 0, idx < n))
            ax.append(z3.Implies(z3.Or(*[p.at((j,)) > 0 for j in range(n)]), z3.Or(*[z3.And(idx == j, p.at((j,)) > 0) for j in range(n)])))
    return ax


def native_discrete_sample_replay(n, masked):
    """R1: the real Discrete(n).sample for every mask with an allowed action, 64 keys each, plus the edge draws of jax.random.uniform forced (0.0 and the largest float below 1)
    for implementations that draw a uniform themselves."""
    def replay(model):
        masks = [m for m in itertools.product([False, True], repeat=n) if any(m)] if masked else [None]
        sp = Discrete(n)
        for m in masks:
            mm = None if m is None else jnp.asarray(m)
            for forced in (None, 0.0, float(np.nextafter(np.float32(1.0), np.float32(0.0)))):
                keys = range(64) if forced is None else range(2)
                for ks in keys:
                    pats = [] if forced is None else [(jr, "uniform", lambda key, shape=(), dtype=float, minval=0.0, maxval=1.0, f=forced, **kw: jnp.full(tuple(shape), f, jnp.float32) * (maxval - minval) + minval)]
                    with extract.patched(*pats):
                        a = int(sp.sample(key=jax.random.key(ks), mask=mm))
                    if not (0 <= a < n) or (m is not None and not m[a]):
                        return dict(reproduced=True, route="R1 (real Discrete.sample" + ("" if forced is None else f"; jax.random.uniform forced to {forced}") + ")",
                                    inputs=dict(n=n, mask=None if m is None else list(m), key_seed=ks), observed=dict(sample=a, allowed=False if m is not None else None))
        return dict(reproduced=False, note="every mask x 64 keys x forced edge draws: samples are allowed members")
    return replay


def unit_samples(S):
    pats = {"bounded": (None, None), "unbounded": (-jnp.inf, jnp.inf), "lower-bounded": (None, jnp.inf), "upper-bounded": (-jnp.inf, None)}
    for nm, (lo, hi) in pats.items():
        ctx = Ctx()
        los = sym(ctx, "low", sd((2,), f32)) if lo is None else extract.const(jnp.full((2,), lo))
        his = sym(ctx, "high", sd((2,), f32)) if hi is None else extract.const(jnp.full((2,), hi))
        k, kc = kit.key_input("key")
        with extract.patched(*_rng_stubs()):
            s = run(ctx, lambda l, h, kk: Box(l, h).sample(key=kk), los, his, k)
        fin = []
        for i in range(2):
            if lo is None:
                fin += [los.at((i,)) > -ir.INF, los.at((i,)) < ir.INF]
            if hi is None:
                fin += [his.at((i,)) > -ir.INF, his.at((i,)) < ir.INF]
            if lo is None and hi is None:
                fin.append(los.at((i,)) <= his.at((i,)))
        goal = sand(*[z3.And(ir.zreal(s.at((i,))) >= ir.zreal(los.at((i,))), ir.zreal(s.at((i,))) <= ir.zreal(his.at((i,)))) for i in range(2)])
        S.prove(f"Box.sample[{nm}]/member", ctx, goal, hyps=fin + rng_axioms(ctx), function="lerax.space.box:Box.sample",
                what=f"a sample of a {nm} box lies within the inclusive bounds (uniform / normal / shifted exponential per dimension kind)")
    for n, masked in ((3, False), (3, True)):
        ctx = Ctx()
        m = sym(ctx, "mask", sd((n,), jnp.bool_)) if masked else None
        k, kc = kit.key_input("key")
        with extract.patched(*_rng_stubs()):
            s = run(ctx, lambda mm, kk: Discrete(n).sample(key=kk, mask=mm), m, k)
        idx = s.scalar()
        goal = z3.And(idx >= 0, idx < n)
        hy = []
        if masked:
            goal = z3.And(goal, z3.Or(*[z3.And(idx == j, m.at((j,))) for j in range(n)]))
            hy = [z3.Or(*[m.at((j,)) for j in range(n)])]
        S.prove(f"Discrete({n}).sample[mask={masked}]/member-and-allowed", ctx, goal, hyps=hy + rng_axioms(ctx), function="lerax.space.discrete:Discrete.sample", replay=native_discrete_sample_replay(n, masked),
                what="a sample is an index in [0, n) and, under a mask with at least one allowed action, an allowed one")
    ctx = Ctx()
    k, kc = kit.key_input("key")
    with extract.patched(*_rng_stubs()):
        s = run(ctx, lambda kk: MultiDiscrete((2, 3)).sample(key=kk), k)
        b = run(ctx, lambda kk: MultiBinary((2, 2)).sample(key=kk), k)
    S.prove("MultiDiscrete.sample/member", ctx, sand(*[z3.And(s.at((i,)) >= 0, s.at((i,)) < (2, 3)[i]) for i in range(2)]), hyps=rng_axioms(ctx), function="lerax.space.multi_discrete:MultiDiscrete.sample",
            what="0 <= sample_i < nvec_i")
    S.fact("MultiBinary.sample/member", b.kind == "b" and tuple(b.shape) == (2, 2), function="lerax.space.multi_binary:MultiBinary.sample", what="a boolean array of the space's shape (every value is 0 or 1)")
    # containers: sample is component-wise with pairwise different derived keys
    for kind in ("Dict", "Tuple"):
        ctx = Ctx()

        class Child(Discrete):
            def sample(self, *, key, mask=None):
                return ocall(f"child{self.n}.sample", sd((), jnp.int32), key)
        sp = Dict({"a": Child(2), "b": Child(3)}) if kind == "Dict" else Tuple((Child(2), Child(3)))
        k, kc = kit.key_input("key")
        out = run(ctx, lambda kk: sp.sample(key=kk), k)
        cs = [c for c in ctx.calls if c.name.startswith("child")]
        keys = [c.operands[0].scalar() for c in cs]
        split = ctx.uf("split", [ir.KeySort, z3.IntSort(), z3.IntSort()], ir.KeySort)
        ok = len(cs) == 2 and (isinstance(out, (dict, OrderedDict)) if kind == "Dict" else isinstance(out, tuple))
        S.fact(f"{kind}.sample/component-wise", ok, function=f"lerax.space:{kind}.sample", what="each component is a sample of its own sub-space, container layout preserved (member by the children's contracts)")
        if ok:
            S.prove(f"{kind}.sample/keys-distinct", ctx, keys[0] != keys[1], hyps=kit.rng_ground_injectivity(keys), function=f"lerax.space:{kind}.sample", what="components use different derived keys (A-RNG: split / fold_in injective in the index; any derivation)")


def native_canonical_flatten(seed):
    inf = jnp.inf
    leafs = [Box(jnp.array([-1.0, 0.0]), jnp.array([1.0, 2.0])), Box(-inf, inf, (2,)), Box(0.0, inf, (1,)), Box(-inf, 3.0, ()), Box(-3.0e38, 3.0e38, (1,)), Box(jnp.zeros((2, 2)), jnp.ones((2, 2))),
             Discrete(1), Discrete(4), MultiBinary(3), MultiBinary((2, 2)), MultiDiscrete((2, 3))]
    spaces = list(leafs)
    spaces += [Dict({"a": leafs[0], "b": leafs[7]}), Tuple((leafs[8], leafs[10])), Tuple((Dict({"x": leafs[1]}), leafs[9])), Dict({"t": Tuple((leafs[6], leafs[2]))})]
    bad = []
    rng = np.random.RandomState(seed)
    for sp in spaces:
        try:
            c = sp.canonical()
            if not bool(sp.contains(c)):
                bad.append(dict(space=repr(sp)[:80], what="canonical() is not a member", value=repr(c)[:80]))
            for t in range(3):
                x = sp.sample(key=jax.random.key(int(rng.randint(1 << 30))))
                if not bool(sp.contains(x)):
                    bad.append(dict(space=repr(sp)[:80], what="sample() is not a member", value=repr(x)[:80]))
                fl = sp.flatten_sample(x)
                if tuple(fl.shape) != (sp.flat_size,):
                    bad.append(dict(space=repr(sp)[:80], what=f"flatten_sample shape {fl.shape} != (flat_size={sp.flat_size},)"))
        except Exception as e:
            bad.append(dict(space=repr(sp)[:80], what=f"raised {type(e).__name__}: {str(e)[:80]}"))
    return bad, len(spaces)


def unit_canonical_flatten(S):
    # symbolic: bounded Box canonical in space; flatten_sample injective on leaf spaces (linear maps)
    ctx = Ctx()
    b = sym(ctx, "box", Box(jnp.zeros((2,)), jnp.ones((2,))))
    c = run(ctx, lambda sp: sp.canonical(), b)
    hy = [z3.And(b.low.at((i,)) <= b.high.at((i,)), b.low.at((i,)) > -ir.INF, b.high.at((i,)) < ir.INF) for i in range(2)]
    S.prove("Box.canonical/member(bounded)", ctx, sand(*[z3.And(ir.zreal(c.at((i,))) >= b.low.at((i,)), ir.zreal(c.at((i,))) <= b.high.at((i,))) for i in range(2)]), hyps=hy,
            function="lerax.space.box:Box.canonical", what="for finite bounds low <= high the canonical element lies within them (over the reals)")
    for nm, sp, xs in (("Box[2,2]", Box(jnp.zeros((2, 2)), jnp.ones((2, 2))), sd((2, 2), f32)), ("Discrete(4)", Discrete(4), sd((), jnp.int32)),
                       ("MultiDiscrete[2,3]", MultiDiscrete((2, 3)), sd((2,), jnp.int32)), ("MultiBinary[2,2]", MultiBinary((2, 2)), sd((2, 2), jnp.bool_)),
                       ("Tuple(Discrete,Box)", Tuple((Discrete(3), Box(jnp.zeros((2,)), jnp.ones((2,))))), (sd((), jnp.int32), sd((2,), f32))),
                       ("Dict(a:MB,b:MD)", Dict({"a": MultiBinary(2), "b": MultiDiscrete((2, 2))}), OrderedDict(a=sd((2,), jnp.bool_), b=sd((2,), jnp.int32)))):
        ctx = Ctx()
        x, y = sym(ctx, "x", xs), sym(ctx, "y", xs)
        fx, fy = run(ctx, lambda v: sp.flatten_sample(v), x), run(ctx, lambda v: sp.flatten_sample(v), y)
        S.fact(f"flatten[{nm}]/flat_size", tuple(fx.shape) == (sp.flat_size,), function="lerax.space:*.flatten_sample", what="flatten_sample returns flat_size numbers")
        if tuple(fx.shape) == (sp.flat_size,):
            same = sand(*[ir.seq(fx.at((i,)), fy.at((i,))) for i in range(sp.flat_size)])
            S.prove(f"flatten[{nm}]/determines-the-sample", ctx, ir.simplies(same, kit.tree_eq(x, y)), function="lerax.space:*.flatten_sample",
                    what="equal flattenings imply equal samples, leaf by leaf (the flat numbers determine the sample)")
    # Dict: the flat layout is fixed by the SPACE (its key order), whatever order the member's own keys were inserted in (contains() compares keys as a set, so every order is a member)
    dsp = Dict(OrderedDict([("vel", Box(-jnp.ones((2,)), jnp.ones((2,)))), ("pos", Box(-jnp.ones((1,)), jnp.ones((1,)))), ("flag", MultiBinary(2))]))
    names = list(dsp.spaces.keys())
    structs = dict(vel=sd((2,), f32), pos=sd((1,), f32), flag=sd((2,), jnp.bool_))

    def dict_order_replay(model):
        rng = np.random.RandomState(2)
        vals = dict(vel=jnp.asarray(rng.uniform(-1, 1, 2), f32), pos=jnp.asarray(rng.uniform(-1, 1, 1), f32), flag=jnp.asarray([True, False]))
        exp = np.concatenate([np.asarray(dsp.spaces[k_].flatten_sample(vals[k_]), np.float64) for k_ in names])
        for perm in itertools.permutations(names):
            for mk in (OrderedDict,):
                sample = mk((k_, vals[k_]) for k_ in perm)
                got = np.asarray(dsp.flatten_sample(sample), np.float64)
                if not bool(dsp.contains(sample)) or got.shape != exp.shape or not np.allclose(got, exp):
                    return dict(reproduced=True, route="R1 (real Dict.flatten_sample on a member whose keys are inserted in another order)", inputs=dict(space_key_order=names, sample_key_order=list(perm), container=mk.__name__),
                                observed=dict(flat=got.tolist(), expected=exp.tolist(), contains=bool(dsp.contains(sample))))
        return dict(reproduced=False, note="all 6 insertion orders flatten to the space's layout")
    for perm in itertools.permutations(names):
        ctx = Ctx()
        xs = {k_: sym(ctx, k_, structs[k_]) for k_ in names}
        got = run(ctx, lambda *vs, perm=perm: dsp.flatten_sample(OrderedDict((k_, v) for k_, v in zip(perm, vs))), *[xs[k_] for k_ in perm])
        spec = run(ctx, lambda *vs: jnp.concatenate([dsp.spaces[k_].flatten_sample(v) for k_, v in zip(names, vs)]), *[xs[k_] for k_ in names])
        S.prove(f"flatten[Dict]/layout-fixed-by-the-space[sample keys {'>'.join(perm)}]", ctx, kit.tree_eq(got, spec) if tuple(got.shape) == tuple(spec.shape) else z3.BoolVal(False),
                function="lerax.space.dict:Dict.flatten_sample", replay=dict_order_replay,
                what="flatten_sample lays the sub-samples out in the space's key order whatever the insertion order of the member's keys: the flat numbers determine the sample")
    bad, n = native_canonical_flatten(int(S.seed))

    def rp(model):
        bad2, _ = native_canonical_flatten(int(S.seed))
        return dict(reproduced=bool(bad2), route="R1", observed=bad2[:6])
    S.bounded_check("native/canonical-sample-flatten", not bad, bound=f"{n} space constructions incl. infinite / huge bounds and nested containers, 3 seeded samples each", function="lerax.space:*.canonical/sample/flatten_sample",
                    what="canonical() and sample() are members; flatten_sample has flat_size entries", detail=bad[:8], replay=rp)


def structures():
    inf = jnp.inf
    A = [lambda: Box(jnp.array([-1.0, 0.0]), jnp.array([1.0, 2.0])), lambda: Box(jnp.array([-1.0, 0.0]), jnp.array([1.0, 2.5])), lambda: Box(-inf, inf, (2,)), lambda: Box(0.0, 1.0, (2, 1)),
         lambda: Discrete(2), lambda: Discrete(3), lambda: MultiBinary(3), lambda: MultiBinary((3, 1)), lambda: MultiDiscrete((2, 3)), lambda: MultiDiscrete((3, 2))]
    out = [(f"leaf{i}", f) for i, f in enumerate(A)]
    out += [("T(d2)", lambda: Tuple((Discrete(2),))), ("T(d2,d3)", lambda: Tuple((Discrete(2), Discrete(3)))), ("T(d3,d2)", lambda: Tuple((Discrete(3), Discrete(2)))),
            ("D(a:d2)", lambda: Dict({"a": Discrete(2)})), ("D(a:d2,b:d3)", lambda: Dict({"a": Discrete(2), "b": Discrete(3)})), ("D(b:d3,a:d2)", lambda: Dict({"b": Discrete(3), "a": Discrete(2)})),
            ("D(a:d3)", lambda: Dict({"a": Discrete(3)})), ("D(c:d2)", lambda: Dict({"c": Discrete(2)})),
            ("T(D(a:d2),box)", lambda: Tuple((Dict({"a": Discrete(2)}), A[0]()))), ("T(D(a:d3),box)", lambda: Tuple((Dict({"a": Discrete(3)}), A[0]()))),
            ("D(t:T(d2,mb))", lambda: Dict({"t": Tuple((Discrete(2), MultiBinary(3)))}))]
    # names up to "~" identify the space: +0.0 and -0.0 bounds describe the same box (equal, so they must hash alike); bounds one float32 ulp / less than 1e-8 apart are different boxes
    ulp = float(np.nextafter(np.float32(1.0), np.float32(2.0)))
    out += [("boxZ~pos", lambda: Box(jnp.array([0.0, 0.0]), jnp.array([1.0, 2.0]))), ("boxZ~neg", lambda: Box(jnp.array([-0.0, 0.0]), jnp.array([1.0, 2.0]))),
            ("T(boxZ)~pos", lambda: Tuple((Box(jnp.array([0.0]), jnp.array([1.0])),))), ("T(boxZ)~neg", lambda: Tuple((Box(jnp.array([-0.0]), jnp.array([1.0])),))),
            ("box-ulp", lambda: Box(jnp.array([-1.0, 0.0]), jnp.array([ulp, 2.0]))), ("box-tiny", lambda: Box(jnp.array([0.0, 1e-9]), jnp.array([1.0, 2.0]))),
            ("D(a:box-ulp)", lambda: Dict({"a": Box(jnp.array([-1.0, 0.0]), jnp.array([ulp, 2.0]))})), ("D(a:box)", lambda: Dict({"a": A[0]()}))]
    return out


def native_equality():
    st = structures()
    bad = []
    for (n1, f1), (n2, f2) in itertools.product(st, st):
        a, b = f1(), f2()
        same = n1.split("~")[0] == n2.split("~")[0]
        try:
            eq, eq2 = (a == b), (b == a)
            if bool(eq) != same or bool(eq2) != same:
                bad.append(dict(a=n1, b=n2, expected_equal=same, got=[bool(eq), bool(eq2)]))
            if same:
                ha, hb = hash(a), hash(b)
                if ha != hb:
                    bad.append(dict(a=n1, what="equal spaces hash differently"))
        except Exception as e:
            bad.append(dict(a=n1, b=n2, what=f"raised {type(e).__name__}: {str(e)[:60]}"))
    for n1, f1 in st:
        a = f1()
        if a == "Box" or a == 3 or a == None:  # noqa: E711
            bad.append(dict(a=n1, what="equal to a foreign object"))
    return bad, len(st) ** 2


def native_roundtrip():
    from lerax.compatibility.gym import gym_space_to_lerax_space, lerax_to_gym_space
    bad = []
    st = [(n, f) for n, f in structures() if "inf" not in n]
    for n, f in st:
        a = f()
        try:
            g = lerax_to_gym_space(a)
            back = gym_space_to_lerax_space(g)
            # Dict keys are compared in Gymnasium's own (sorted) order
            def norm(s):
                if isinstance(s, Dict):
                    return Dict(OrderedDict((k, norm(s.spaces[k])) for k in sorted(s.spaces)))
                if isinstance(s, Tuple):
                    return Tuple(tuple(norm(x) for x in s.spaces))
                return s
            if not (norm(back) == norm(a)):
                bad.append(dict(space=n, back=repr(back)[:100]))
        except Exception as e:
            bad.append(dict(space=n, what=f"raised {type(e).__name__}: {str(e)[:80]}"))
    return bad, len(st)


def native_box_eq_replay(model):
    """R1: real Box.__eq__ / __hash__ on pairs of boxes whose bounds are equal, nearly equal (one float32 ulp, tiny vs zero, large magnitudes), clearly different, infinite, and of
    different shape: a == b exactly when every bound is equal; equal boxes hash equally; a witness value separates unequal boxes."""
    one = np.float32(1.0)
    up = np.nextafter(one, np.float32(2.0))
    big = np.float32(1e6)
    cases = [((0.0, 1.0), (0.0, 1.0)), ((0.0, one), (0.0, up)), ((0.0, 1.0), (1e-9, 1.0)), ((-1e-9, 1.0), (0.0, 1.0)), ((0.0, big), (0.0, np.nextafter(big, np.float32(2e6)))),
             ((0.0, 1.0), (0.0, 2.0)), ((-np.inf, 1.0), (-np.inf, 1.0)), ((-np.inf, 1.0), (-np.inf, up)), ((0.0, np.inf), (0.0, np.inf)), ((0.0, 1.0), (-0.0, 1.0))]
    for (l1, h1), (l2, h2) in cases:
        for shape in ((), (2,), (2, 3)):
            a = Box(jnp.full(shape, l1, jnp.float32), jnp.full(shape, h1, jnp.float32))
            b = Box(jnp.full(shape, l2, jnp.float32), jnp.full(shape, h2, jnp.float32))
            exact = bool(np.array_equal(np.asarray(a.low), np.asarray(b.low)) and np.array_equal(np.asarray(a.high), np.asarray(b.high)))
            got, got_r = bool(a == b), bool(b == a)
            if got != exact or got_r != exact or (got and hash(a) != hash(b)):
                return dict(reproduced=True, route="R1 (real Box.__eq__ / __hash__)", inputs=dict(shape=list(shape), a=[float(l1), float(h1)], b=[float(l2), float(h2)]),
                            observed=dict(a_eq_b=got, b_eq_a=got_r, bounds_exactly_equal=exact, hashes_equal=hash(a) == hash(b)))
    a, b = Box(jnp.zeros((2,)), jnp.ones((2,))), Box(jnp.zeros((3,)), jnp.ones((3,)))
    if bool(a == b):
        return dict(reproduced=True, route="R1 (real Box.__eq__)", inputs=dict(shapes=[[2], [3]]), observed=dict(a_eq_b=True))
    return dict(reproduced=False, note=f"{3 * len(cases)} pairs incl. one-ulp and sub-atol differences: == is exact bound equality and agrees with hash")


def unit_equality(S):
    S.under_contract(*[f"lerax.space:{c}.__eq__" for c in ("Box", "Discrete", "MultiBinary", "MultiDiscrete", "Dict", "Tuple")], *[f"lerax.space:{c}.__hash__" for c in ("Box", "Dict", "Tuple")],
                     "lerax.compatibility.gym:gym_space_to_lerax_space", "lerax.compatibility.gym:lerax_to_gym_space")
    bad, n = native_equality()
    S.bounded_check("equality-and-hash/all-pairs", not bad, bound=f"{n} ordered pairs of enumerated space structures (kinds, parameters, container widths / nesting / key sets)", function="lerax.space:*.__eq__/__hash__",
                    what="a == b exactly for equal structure and parameters (symmetric, reflexive, not prefix-equal), equal spaces hash equally, hash is total, foreign objects are unequal",
                    detail=bad[:10], replay=lambda m: dict(reproduced=bool(native_equality()[0]), route="R1", observed=native_equality()[0][:6]))
    bad2, n2 = native_roundtrip()
    S.bounded_check("gymnasium-round-trip", not bad2, bound=f"{n2} enumerated structures", function="lerax.compatibility.gym:gym_space_to_lerax_space",
                    what="gym_space_to_lerax_space(lerax_to_gym_space(s)) == s (Dict keys compared in Gymnasium's own order)", detail=bad2[:10],
                    replay=lambda m: dict(reproduced=bool(native_roundtrip()[0]), route="R1", observed=native_roundtrip()[0][:6]))
    # symbolic part: Box equality is exactly equality of bounds (all values)
    ctx = Ctx()
    a = sym(ctx, "a", Box(jnp.zeros((2,)), jnp.ones((2,))))
    b = sym(ctx, "b", Box(jnp.zeros((2,)), jnp.ones((2,))))
    paths = fork_paths(lambda p, q: jnp.asarray(p == q), (a, b))
    goals = []
    for tr, dyn, dec in paths:
        conds, res = eval_traced(ctx, tr, dyn)
        pc = sand(*[ir.seq(c.scalar(), d) for c, d in zip(conds, dec)])
        same = z3.And(*[z3.And(a.low.at((i,)) == b.low.at((i,)), a.high.at((i,)) == b.high.at((i,))) for i in range(2)])
        goals.append(ir.simplies(pc, res.scalar() == same))
    S.prove("Box.__eq__/exactly-equal-bounds", ctx, sand(*goals), function="lerax.space.box:Box.__eq__", replay=native_box_eq_replay, what=f"Box == Box iff all bounds are equal, for all bound values ({len(paths)} paths)")


UNITS = [("contains", unit_contains), ("samples", unit_samples), ("canonical-flatten", unit_canonical_flatten), ("equality", unit_equality)]
