"""C03 - Advantages and returns equal the GAE definition, cut at episode ends.

Under contract:
  lerax.buffer.rollout:RolloutBuffer.compute_returns_and_advantages   (symbolic rollout length T, all reals)
  lerax.algorithm.on_policy:AbstractActorCriticOnPolicyAlgorithm.post_collect  (bootstrap value, gamma, lambda handed over)
Lemmas over the contract only: L1 (done cuts), L1-rel (nothing after an episode end leaks backwards), L2 (lambda=1
=> discounted Monte-Carlo), L3 (lambda=0 => TD error).
"""
from __future__ import annotations

import equinox as eqx
import jax
import jax.numpy as jnp
import numpy as np
import z3

from lerax.buffer import RolloutBuffer
from lerax.algorithm import PPO, A2C
from lerax.space import Box, Discrete

from lvc import kit, ir, extract, opaque
from lvc.extract import run, sym, symbolic_dims
from lvc.generic import GenericEnv, GenericActorCriticPolicy, GPState, GState, SimpleCallback, GCbStep
from lvc.kit import Ctx, sand

PROPERTY = "C03"
TRUSTED = ["A-REAL: float32 arithmetic treated as real arithmetic", "A-XLA: lax.scan semantics as encoded in lvc/ir.py (_scan_symbolic)",
           "A-PURE (post_collect obligations only)",
           "induction schema for the relational lemma L1-rel (base + step are discharged; the induction itself is meta-level)"]
ASSUMPTIONS = ["rollout length T >= 1 symbolic; rewards/values/dones arbitrary; gamma, lambda, last_value arbitrary reals (superset of [0,1])"]
DROPS = ["D3 reals instead of float32", "jnp.asarray / dtype casts of float inputs are identities"]
NOT_DECIDED = ["'each environment's stream on its own' is the vmap obligation of C12 (collect_rollout is vmapped per environment)"]

F_GAE = "lerax.buffer.rollout:RolloutBuffer.compute_returns_and_advantages"
F_POST = "lerax.algorithm.on_policy:AbstractActorCriticOnPolicyAlgorithm.post_collect"


def buffer_struct(T, act_shape=(), obs_dim=2, with_mask=False):
    f = jnp.float32
    sd = jax.ShapeDtypeStruct

    def mk(obs, act, rew, don, lp, val, h, ret, adv):
        return RolloutBuffer(obs, act, rew, don, lp, val, GPState(h), None, ret, adv)
    return jax.eval_shape(mk, sd((T, obs_dim), f), sd((T,) + act_shape, f), sd((T,), f), sd((T,), jnp.bool_), sd((T,), f),
                          sd((T,), f), sd((T, 1), f), sd((T,), f), sd((T,), f))


def gae_native_replay(model):
    """R1: run the real function on concrete numpy inputs and compare with the textbook recurrence."""
    rng = np.random.RandomState(0)
    for trial in range(20):
        T = int(rng.randint(1, 7))
        rew, val = rng.randn(T).astype(np.float32), rng.randn(T).astype(np.float32)
        don = rng.rand(T) < 0.4
        lv, lam, g = np.float32(rng.randn()), np.float32(rng.rand()), np.float32(rng.rand())
        # edge values of the two discount parameters first: lambda = 0 (TD errors), lambda = 1 (Monte-Carlo), gamma = 0 / 1, and the counter-model's own values
        edge = [(0.0, 0.9), (1.0, 0.9), (0.0, 1.0), (0.5, 0.0), (1.0, 1.0), (0, 0.9)]
        if trial < len(edge):
            lam, g = edge[trial]
            T = max(T, 3)
            rew, val, don = rng.randn(T).astype(np.float32), rng.randn(T).astype(np.float32), rng.rand(T) < 0.3
        elif trial == len(edge) and model is not None:
            lam, g = kit.model_float(model, "gae_lambda", float(lam)), kit.model_float(model, "gamma", float(g))
        buf = RolloutBuffer(jnp.zeros((T, 2)), jnp.zeros((T,)), rew, don, jnp.zeros((T,)), val, GPState(jnp.zeros((T, 1))))
        out = buf.compute_returns_and_advantages(lv, lam, g)
        A = np.zeros(T + 1)
        V = np.concatenate([val, [lv]])
        for t in range(T - 1, -1, -1):
            nd = 1.0 - float(don[t])
            A[t] = rew[t] + g * nd * V[t + 1] - V[t] + g * lam * nd * A[t + 1]
        ok = np.allclose(np.asarray(out.advantages), A[:T], atol=1e-4) and np.allclose(np.asarray(out.returns), A[:T] + val, atol=1e-4)
        frame_ok = np.array_equal(np.asarray(out.rewards), rew) and np.array_equal(np.asarray(out.dones), don) and np.array_equal(np.asarray(out.values), val)
        if not (ok and frame_ok):
            return dict(reproduced=True, route="R1", inputs=dict(T=T, rewards=rew.tolist(), values=val.tolist(), dones=don.tolist(),
                                                                last_value=float(lv), gae_lambda=float(lam), gamma=float(g)),
                        observed=dict(advantages=np.asarray(out.advantages).tolist(), returns=np.asarray(out.returns).tolist(),
                                      expected_advantages=A[:T].tolist(), frame_ok=bool(frame_ok)))
    return dict(reproduced=False, note="20 random native trials agree with the recurrence")


def unit_gae(S):
    S.under_contract(F_GAE)
    ctx = Ctx()
    ctx.unfold_depth = 1
    (T,) = symbolic_dims("T")
    buf = sym(ctx, "buf", buffer_struct(T))
    lv, lvc = kit.real_scalar("last_value")
    lam, lamc = kit.real_scalar("gae_lambda")
    g, gc = kit.real_scalar("gamma")
    res = run(ctx, lambda b, a, l, gg: b.compute_returns_and_advantages(a, l, gg), buf, lv, lam, g)
    Tz = ctx.dim(T)
    t = z3.Int("t")
    hyp = [Tz >= 1, t >= 0, t < Tz]
    one = z3.RealVal(1)
    nd = z3.If(buf.dones.at(t), z3.RealVal(0), one)
    A = lambda i: res.advantages.at(i)
    Vn = z3.If(t + 1 < Tz, buf.values.at(t + 1), lvc)
    An = z3.If(t + 1 < Tz, A(t + 1), z3.RealVal(0))
    delta = buf.rewards.at(t) + gc * nd * Vn - buf.values.at(t)
    S.prove("gae/advantage-recurrence", ctx, A(t) == delta + gc * lamc * nd * An, hyps=hyp, function=F_GAE, replay=gae_native_replay,
            what="for every T>=1 and 0<=t<T: A_t = delta_t + gamma*lambda*(1-done_t)*A_{t+1}, delta_t = r_t + gamma*(1-done_t)*V_{t+1} - V_t, V_T = last_value, A_T = 0")
    S.prove("gae/returns", ctx, res.returns.at(t) == A(t) + buf.values.at(t), hyps=hyp, function=F_GAE, replay=gae_native_replay,
            what="return_t = A_t + V_t")
    # frame: every other field is the input leaf
    named = jax.tree_util.tree_flatten_with_path(buf, is_leaf=kit.is_sarr)[0]
    named_out = jax.tree_util.tree_flatten_with_path(res, is_leaf=kit.is_sarr)[0]
    conj = []
    for (p, a), (q, b) in zip(named, named_out):
        ks = jax.tree_util.keystr(p)
        if "returns" in ks or "advantages" in ks:
            continue
        conj.append(kit.arr_eq_at(a, b, (t,)))
    S.prove("gae/frame", ctx, sand(*conj), hyps=hyp, function=F_GAE, replay=gae_native_replay,
            what="frame: observations, actions, rewards, dones, log_probs, values, states are returned unchanged (modifies returns, advantages only)")
    S.cover("gae/pre-satisfiable", ctx, sand(*hyp), function=F_GAE)
    S.samples.append(dict(obligation="gae/advantage-recurrence", index="t (fresh symbolic)", length="T (symbolic, >=1)",
                          scan_unfoldings=len(ctx.assumptions)))


def _contract_axioms(A, R, r, V, d, lv, g, lam, T, t):
    """the GAE contract instantiated at index t (as an assumption for lemmas over the contract)"""
    nd = z3.If(d(t), z3.RealVal(0), z3.RealVal(1))
    Vn = z3.If(t + 1 < T, V(t + 1), lv)
    An = z3.If(t + 1 < T, A(t + 1), z3.RealVal(0))
    return z3.And(A(t) == r(t) + g * nd * Vn - V(t) + g * lam * nd * An, R(t) == A(t) + V(t))


def unit_lemmas(S):
    S.under_contract(F_GAE)
    I, Rl, B = z3.IntSort(), z3.RealSort(), z3.BoolSort()
    ctx = Ctx()
    A, Rt, r, V = [z3.Function(n, I, Rl) for n in ("A", "Ret", "r", "V")]
    d = z3.Function("done", I, B)
    lv, g, lam = z3.Reals("last_value gamma lam")
    T, t = z3.Ints("T t")
    hyp = [T >= 1, t >= 0, t < T]
    c_t = _contract_axioms(A, Rt, r, V, d, lv, g, lam, T, t)
    c_t1 = z3.Implies(t + 1 < T, _contract_axioms(A, Rt, r, V, d, lv, g, lam, T, t + 1))
    S.prove("L1/done-cuts", ctx, z3.Implies(d(t), A(t) == r(t) - V(t)), hyps=hyp + [c_t], function=F_GAE,
            what="done_t => A_t = r_t - V_t : nothing after an episode end enters the estimate at t")
    S.prove("L3/lambda0-td", ctx, z3.Implies(lam == 0, A(t) == r(t) + g * z3.If(d(t), 0, 1) * z3.If(t + 1 < T, V(t + 1), lv) - V(t)),
            hyps=hyp + [c_t], function=F_GAE, what="lambda = 0 => A_t is the one-step TD error")
    retn = z3.If(t + 1 < T, Rt(t + 1), lv)
    S.prove("L2/lambda1-monte-carlo", ctx, z3.Implies(lam == 1, Rt(t) == r(t) + g * z3.If(d(t), 0, 1) * retn),
            hyps=hyp + [c_t, c_t1], function=F_GAE,
            what="lambda = 1 => return_t = r_t + gamma*(1-done_t)*return_{t+1}, return_T = last_value (discounted Monte-Carlo)")
    # relational lemma: two rollouts that agree up to and including an episode end at e agree on A_0..A_e
    A2, Rt2, r2, V2 = [z3.Function(n + "2", I, Rl) for n in ("A", "Ret", "r", "V")]
    d2 = z3.Function("done2", I, B)
    lv2 = z3.Real("last_value2")
    T2, e, s = z3.Ints("T2 e s")
    agree = lambda i: z3.And(r(i) == r2(i), V(i) == V2(i), d(i) == d2(i))
    base_h = [T >= 1, T2 >= 1, e >= 0, e < T, e < T2, d(e), agree(e),
              _contract_axioms(A, Rt, r, V, d, lv, g, lam, T, e), _contract_axioms(A2, Rt2, r2, V2, d2, lv2, g, lam, T2, e)]
    S.prove("L1-rel/base", ctx, A(e) == A2(e), hyps=base_h, function=F_GAE,
            what="two rollouts (different lengths, bootstrap values, later data) that agree at an episode end e have equal A_e")
    step_h = [T >= 1, T2 >= 1, s >= 0, s + 1 < T, s + 1 < T2, agree(s), agree(s + 1), A(s + 1) == A2(s + 1),
              _contract_axioms(A, Rt, r, V, d, lv, g, lam, T, s), _contract_axioms(A2, Rt2, r2, V2, d2, lv2, g, lam, T2, s)]
    S.prove("L1-rel/step", ctx, z3.And(A(s) == A2(s), Rt(s) == Rt2(s)), hyps=step_h, function=F_GAE,
            what="induction step: agreement at s, s+1 and A_{s+1} equal => A_s and return_s equal (so data after e never influences estimates before e)")


def unit_post_collect(S):
    """post_collect hands compute_returns_and_advantages the value of the post-rollout state, self.gae_lambda, self.gamma."""
    S.under_contract(F_POST)
    S.assume_ids("callee contract: RolloutBuffer.compute_returns_and_advantages (proved in unit gae)")
    from lerax.algorithm import REINFORCE
    NE, TS = extract.symbolic_dims("NE, TS")   # post_collect must not depend on the number of environments / steps
    for algo_name, mk in (("PPO", lambda: PPO(num_envs=NE, num_steps=TS, num_batches=1)),
                          ("A2C", lambda: A2C(num_envs=NE, num_steps=TS))):
        ctx = Ctx()
        env = GenericEnv(Box(-jnp.ones((2,)), jnp.ones((2,))))
        pol = GenericActorCriticPolicy(env.action_space, env.observation_space)
        algo = mk()
        g, gc = kit.real_scalar("gamma")
        lam, lamc = kit.real_scalar("gae_lambda")
        algo = eqx.tree_at(lambda a: (a.gamma, a.gae_lambda), algo, (g, lam))
        T = 4
        buf = sym(ctx, "buf", buffer_struct(T, act_shape=(2,)))
        from lerax.algorithm.on_policy import AbstractOnPolicyStepState
        ss = AbstractOnPolicyStepState.__new__(AbstractOnPolicyStepState)
        step_struct = jax.eval_shape(lambda x, h, c: AbstractOnPolicyStepState(GState(x), GPState(h), GCbStep(c)),
                                     jax.ShapeDtypeStruct((2,), jnp.float32), jax.ShapeDtypeStruct((1,), jnp.float32),
                                     jax.ShapeDtypeStruct((1,), jnp.float32))
        st = sym(ctx, "st", step_struct)
        env_in, pol_in = sym(ctx, "env", env), sym(ctx, "pi", pol)
        k, kc = kit.key_input("key")

        def stub(self, last_value, gae_lambda, gamma):
            struct = jax.tree.map(lambda x: jax.ShapeDtypeStruct(x.shape, x.dtype), self)
            return opaque.ocall("GAE#", struct, self, last_value, gae_lambda, gamma)

        with extract.patched((RolloutBuffer, "compute_returns_and_advantages", stub)):
            out = run(ctx, lambda a, e, p, s, b, kk: a.post_collect(e, p, s, b, key=kk), algo, env_in, pol_in, st, buf, k)
        calls = [c for c in ctx.calls if c.name == "GAE#"]
        S.fact(f"{algo_name}.post_collect/calls-gae-once", len(calls) == 1, function=F_POST,
               what="post_collect calls compute_returns_and_advantages exactly once and returns its result")
        if len(calls) != 1:
            continue
        call = calls[0]
        nbuf = len(kit.leaves(buf))
        ops = call.operands
        buf_ops, lv_op, lam_op, g_op = ops[:nbuf], ops[nbuf], ops[nbuf + 1], ops[nbuf + 2]
        S.prove(f"{algo_name}.post_collect/result-is-callee-result", ctx, kit.tree_eq(out, jax.tree.unflatten(jax.tree.structure(out, is_leaf=kit.is_sarr), call.outputs)),
                function=F_POST, what="returned buffer is the callee's result")
        S.prove(f"{algo_name}.post_collect/buffer-passed-intact", ctx, sand(*[kit.arr_eq_at(a, b, ()) for a, b in zip(buf_ops, kit.leaves(buf))]),
                function=F_POST, what="the collected buffer is passed unchanged")
        hs, holes = kit.holes_for(ctx, {"k": "env.observation"}, kc)
        spec_v = run(ctx, lambda e, p, s, kk: p.value(s.policy_state, e.observation(s.env_state, key=kk))[1], env_in, pol_in, st, hs["k"])
        S.prove(f"{algo_name}.post_collect/bootstrap-value", ctx, ir.seq(lv_op.scalar(), spec_v.scalar()), holes=holes, function=F_POST,
                what="last_value = policy.value(step_state.policy_state, env.observation(step_state.env_state, k))[1] - the value of the POST-rollout state")
        S.prove(f"{algo_name}.post_collect/gamma-lambda", ctx, sand(ir.seq(lam_op.scalar(), lamc), ir.seq(g_op.scalar(), gc)), function=F_POST,
                what="gae_lambda and gamma handed to the callee are the algorithm's own")


def unit_constructor(S):
    """The discount parameters the recurrence is run with are the ones the user configured: the constructor stores gamma and gae_lambda unchanged for EVERY real value it accepts (0
    and 1 included - a `value or default` normalisation fails at 0), so post_collect (unit post_collect) hands the callee the configured values.  Shared contract: contracts/_ctor.py"""
    from contracts import _ctor
    from lerax.algorithm import REINFORCE
    _ctor.unit_constructor([(PPO, {}, ("gamma", "gae_lambda")), (A2C, {}, ("gamma", "gae_lambda")), (REINFORCE, {}, ("gamma",))])(S)
    lam = [float(REINFORCE(gamma=g).gae_lambda) for g in (0.0, 0.5, 1.0)]
    S.fact("REINFORCE.__init__/lambda-is-one", lam == [1.0, 1.0, 1.0], function="lerax.algorithm:REINFORCE.__init__", shape=False, what="REINFORCE runs the recurrence with lambda = 1 (Monte-Carlo returns) whatever gamma",
           detail=lam, replay=lambda m: dict(reproduced=lam != [1.0, 1.0, 1.0], route="R1 (real REINFORCE constructor)", observed=dict(gae_lambda=lam)))


UNITS = [("gae", unit_gae), ("lemmas", unit_lemmas), ("post_collect", unit_post_collect), ("constructor", unit_constructor)]
