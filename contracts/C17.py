"""C17 - Built-in environments realise their Gymnasium reference MDPs.

Classic control (CartPole, MountainCar, ContinuousMountainCar, Acrobot): dynamics (vector field), clip (state limits), reward,
terminal, initial of the real lerax classes are proved equal - for ALL states, actions and (symbolic) physical parameters - to the
reference formulas transcribed from the installed Gymnasium (contracts/reference_mdps.py, itself validated natively against the real
Gymnasium on every run); CartPole with the Euler solver (A-DIFFRAX) reproduces the Gymnasium update.
MuJoCo (11 environments, Gymnasium v5): see unit_mujoco - the REAL installed Gymnasium `step` / `_get_obs` / `_get_rew` code is executed
symbolically (numpy replaced by jax.numpy in the Gymnasium module, simulation replaced by a swap of symbolic physics data) and compared
with lerax's observation / reward / terminal / reward components on the same symbolic mjx.Data.
"""
from __future__ import annotations

import importlib
import itertools
import types
from fractions import Fraction

import equinox as eqx
import jax
import jax.numpy as jnp
import jax.random as jr
import numpy as np
import z3

from lerax.env import classic_control as CC

from lvc import kit, ir, extract
from lvc.extract import run, sym, fork_paths, eval_traced
from lvc.kit import Ctx, sand
from lvc.opaque import ocall
from contracts import reference_mdps as R

PROPERTY = "C17"
TRUSTED = ["A-GYM: the installed Gymnasium 1.3.0 sources are the reference (classic-control formulas transcribed in contracts/reference_mdps.py and validated natively against the real code on every run; "
           "MuJoCo v5 reference = the real Gymnasium methods executed symbolically)",
           "A-DIFFRAX: diffeqsolve(Euler, ConstantStepSize, dt0 = dt) returns y0 + dt * f(t0, y0)", "A-MJX: MJX physics equals MuJoCo-C physics (not lerax code)", "A-REAL; sin / cos uninterpreted (shared applications)",
           "A-RNG"]
ASSUMPTIONS = ["in-range actions; finite states; physical parameters symbolic with the positivity the formulas need (masses, lengths > 0)"]
DROPS = ["D1 constructor options at their documented defaults unless enumerated"]
NOT_DECIDED = ["numerical agreement of the two physics engines after a step (A-MJX)", "trajectory equality for the non-Euler default solver (only the vector field and limits are claimed for MountainCar / Acrobot)"]
sd = jax.ShapeDtypeStruct
f32 = jnp.float32


def diffeqsolve_euler(term, solver=None, t0=None, t1=None, dt0=None, y0=None, args=None, saveat=None, stepsize_controller=None, **kw):
    """A-DIFFRAX for the Euler solver with a constant step dt0 = t1 - t0: one explicit Euler step"""
    y1 = jax.tree.map(lambda y, f: y + dt0 * f, y0, term.vf(t0, y0, args))
    return types.SimpleNamespace(ys=jax.tree.map(lambda y: y[None], y1))


def _validate_reference(S):
    bad = R.validate_against_gymnasium(int(S.seed), 120 if S.tier == "quick" else 600)
    S.bounded_check("reference/transcription-agrees-with-installed-gymnasium", not bad, bound="seeded random states/actions per environment through the real Gymnasium step / _dsdt / bound / _terminal",
                    function="contracts.reference_mdps", what="the transcribed reference formulas reproduce the installed Gymnasium natively (discharges A-GYM for the classic-control part up to sampling)", detail=bad[:4])


def _env_sym(ctx, env):
    return sym(ctx, "env", env)


def unit_cartpole(S):
    import diffrax
    F = "lerax.env.classic_control.cartpole:CartPole.{}"
    S.under_contract(F.format("dynamics"), F.format("clip"), F.format("reward"), F.format("terminal"), F.format("initial"), "lerax.env.classic_control.base_classic_control:AbstractClassicControlEnv.transition")
    _validate_reference(S)
    env0 = CC.CartPole(solver=diffrax.Euler())
    ctx = Ctx()
    env = _env_sym(ctx, env0)
    y = sym(ctx, "y", sd((4,), f32))
    ny = sym(ctx, "ny", sd((4,), f32))
    a, ac = kit.int_scalar("action")
    k, kc = kit.key_input("key")
    hyp = [z3.Or(ac == 0, ac == 1), env.total_mass.scalar() > 0, env.length.scalar() > 0, env.pole_mass.scalar() > 0, env.pole_mass.scalar() < env.total_mass.scalar()]
    dyn = run(ctx, lambda e, yy, aa: e.dynamics(jnp.asarray(0.0), yy, aa), env, y, a)
    ref = run(ctx, R.cartpole_field, env, y, a)
    S.prove("CartPole.dynamics/vector-field", ctx, kit.tree_eq(dyn, ref), hyps=hyp, function=F.format("dynamics"), nl_budget_ms=5000,
            what="the vector field equals Gymnasium's accelerations for every state, action and physical parameters")
    S.prove("CartPole.clip/no-state-limits", ctx, kit.tree_eq(run(ctx, lambda e, yy: e.clip(yy), env, y), y), function=F.format("clip"), what="CartPole has no state clipping (as Gymnasium)")
    st = CC.cartpole.CartPoleState(y=y, t=sym(ctx, "t", sd((), f32)))
    with extract.patched((__import__("diffrax"), "diffeqsolve", diffeqsolve_euler)):
        nst = run(ctx, lambda e, s, aa, kk: e.transition(s, aa, key=kk), env, st, a, k)
    refstep = run(ctx, R.cartpole_euler_step, env, y, a)
    S.fact("CartPole.__init__/constant-step-equals-dt", float(env0.dt0) == float(env0.dt) and abs(float(CC.CartPole(dt=0.05, solver=diffrax.Euler()).dt0) - 0.05) < 1e-7, function="lerax.env.classic_control.cartpole:CartPole.__init__",
           what="with a constant step size the solver step dt0 is the environment's dt (constructor invariant used below)")
    S.prove("CartPole.transition[Euler]/reproduces-gymnasium-update", ctx, kit.tree_eq(nst.y, refstep), hyps=hyp + [env.dt0.scalar() == env.dt.scalar()], function="lerax.env.classic_control.base_classic_control:AbstractClassicControlEnv.transition",
            nl_budget_ms=5000, what="with the Euler solver (A-DIFFRAX) one lerax transition is exactly Gymnasium's Euler update of all four coordinates: CartPole reproduces Gymnasium trajectories")
    nstate = CC.cartpole.CartPoleState(y=ny, t=st.t)
    S.prove("CartPole.reward", ctx, ir.seq(run(ctx, lambda e, s, aa, n_, kk: e.reward(s, aa, n_, key=kk), env, st, a, nstate, k).scalar(), run(ctx, R.cartpole_reward, env, y, a, ny).scalar()),
            function=F.format("reward"), what="+1 for every transition including the terminating one")
    S.prove("CartPole.terminal", ctx, run(ctx, lambda e, n_, kk: e.terminal(n_, key=kk), env, nstate, k).scalar() == run(ctx, R.cartpole_terminated, env, ny).scalar(), function=F.format("terminal"),
            what="terminates iff |x| > x_threshold or |theta| > theta_threshold (strict, as Gymnasium)")
    _initial_range(S, ctx, env0, R.CARTPOLE_INIT, "CartPole", F.format("initial"), (4,))


def uniform_stub(key, shape=(), dtype=float, minval=0.0, maxval=1.0, **kw):
    shape = tuple(shape)
    return ocall("uniform", sd(shape, f32), key, jnp.broadcast_to(jnp.asarray(minval, f32), shape), jnp.broadcast_to(jnp.asarray(maxval, f32), shape))


def _initial_range(S, ctx_unused, env0, rng, name, fn, shape, zero_rest=None):
    ctx = Ctx()
    k, kc = kit.key_input("key")
    with extract.patched((jr, "uniform", uniform_stub)):
        st = run(ctx, lambda kk: env0.initial(key=kk), k)
    us = [c for c in ctx.calls if c.name == "uniform"]
    lo, hi = ir.const_float(np.float32(rng[0])), ir.const_float(np.float32(rng[1]))
    ok = len(us) == 1 and all(u == lo for u in us[0].operands[1].elems()) and all(u == hi for u in us[0].operands[2].elems())
    S.fact(f"{name}.initial/range", ok, function=fn, what=f"the random coordinates of the initial state are uniform in [{rng[0]}, {rng[1]}] as in Gymnasium", detail=[c.name for c in ctx.calls])
    if ok:
        u = us[0].outputs[0]
        if u.shape == ():
            goal = sand(ir.seq(st.y.at((0,)), u.scalar()), ir.seq(st.y.at((1,)), 0))
            what = "position is the uniform draw, velocity 0"
        else:
            goal = kit.tree_eq(st.y, u)
            what = "all coordinates are the uniform draw"
        S.prove(f"{name}.initial/state", ctx, sand(goal, ir.seq(st.t.scalar(), 0)), function=fn, what=what)


def _mountaincar(S, cls, modname, field, limits, term, reward, continuous):
    name = cls.__name__
    F = f"lerax.env.classic_control.{modname}:{name}." + "{}"
    S.under_contract(F.format("dynamics"), F.format("clip"), F.format("reward"), F.format("terminal"), F.format("initial"))
    env0 = cls()
    ctx = Ctx()
    env = _env_sym(ctx, env0)
    y = sym(ctx, "y", sd((2,), f32))
    ny = sym(ctx, "ny", sd((2,), f32))
    if continuous:
        a, ac = kit.real_scalar("action")
        hyp = [ac >= env.min_action.scalar(), ac <= env.max_action.scalar(), env.min_action.scalar() <= env.max_action.scalar()]
    else:
        a, ac = kit.int_scalar("action")
        hyp = [ac >= 0, ac <= 2]
    hyp += [env.max_speed.scalar() > 0, env.min_position.scalar() < env.max_position.scalar()]
    k, kc = kit.key_input("key")
    dyn = run(ctx, lambda e, yy, aa: e.dynamics(jnp.asarray(0.0), yy, aa), env, y, a)
    ref = run(ctx, field, env, y, a)
    S.prove(f"{name}.dynamics/vector-field", ctx, kit.tree_eq(dyn, ref), hyps=hyp, function=F.format("dynamics"), what="the vector field equals Gymnasium's update increments for every state and in-range action")
    cl = run(ctx, lambda e, yy: e.clip(yy), env, y)
    rl = run(ctx, limits, env, y)
    S.prove(f"{name}.clip/state-limits-incl-inelastic-left-wall", ctx, kit.tree_eq(cl, rl), hyps=hyp, function=F.format("clip"), replay=_wall_replay(cls),
            what="state limits equal Gymnasium's: speed and position clipped, and the inelastic left wall (position == min_position and velocity < 0 => velocity = 0)")
    stc = importlib.import_module(f"lerax.env.classic_control.{modname}")
    State = [v for n, v in vars(stc).items() if n.endswith("State") and isinstance(v, type) and n != "AbstractClassicControlEnvState"][0]
    s, ns = State(y=y, t=jnp.asarray(0.0)), State(y=ny, t=jnp.asarray(0.0))
    rw = run(ctx, lambda e, s_, aa, n_, kk: e.reward(s_, aa, n_, key=kk), env, s, a, ns, k)
    rr = run(ctx, reward, env, y, a, ny)
    S.prove(f"{name}.reward/every-transition-incl-goal-step", ctx, ir.seq(rw.scalar(), rr.scalar()), hyps=hyp, function=F.format("reward"), replay=_goal_replay(cls) if continuous else None,
            what="reward equals Gymnasium's for every transition (state, action, successor), in particular the goal step: the bonus is judged on the SUCCESSOR state")
    tm = run(ctx, lambda e, n_, kk: e.terminal(n_, key=kk), env, ns, k)
    S.prove(f"{name}.terminal", ctx, tm.scalar() == run(ctx, term, env, ny).scalar(), function=F.format("terminal"), what="terminates iff position >= goal_position and velocity >= goal_velocity")
    _initial_range(S, None, env0, R.MOUNTAINCAR_INIT, name, F.format("initial"), ())


def _wall_replay(cls):
    def replay(model):
        env = cls()
        y = jnp.array([-1.3, -0.05])
        out = np.asarray(env.clip(y))
        exp = np.asarray(R.mountaincar_limits(env, y))
        return dict(reproduced=not np.allclose(out, exp), route="R1", inputs=dict(y=[-1.3, -0.05]), observed=dict(lerax_clip=out.tolist(), gymnasium_limits=exp.tolist()))
    return replay


def _goal_replay(cls):
    def replay(model):
        env = cls()
        State = type(env.initial(key=jax.random.key(0)))
        s = State(y=jnp.array([0.40, 0.05]), t=jnp.asarray(0.0))
        ns = State(y=jnp.array([0.58, 0.05]), t=jnp.asarray(0.0))
        a = jnp.asarray(0.5)
        got = float(env.reward(s, a, ns, key=jax.random.key(0)))
        exp = float(R.cmountaincar_reward(env, s.y, a, ns.y))
        return dict(reproduced=abs(got - exp) > 1e-5, route="R1", inputs=dict(state=[0.40, 0.05], action=0.5, next_state=[0.58, 0.05]), observed=dict(lerax_reward=got, gymnasium_reward=exp))
    return replay


def unit_mountaincar(S):
    _mountaincar(S, CC.MountainCar, "mountain_car", R.mountaincar_field, R.mountaincar_limits, R.mountaincar_terminated, R.mountaincar_reward, False)


def unit_cmountaincar(S):
    _mountaincar(S, CC.ContinuousMountainCar, "continuous_mountain_car", R.cmountaincar_field, R.cmountaincar_limits, R.cmountaincar_terminated, R.cmountaincar_reward, True)


def unit_acrobot(S):
    F = "lerax.env.classic_control.acrobot:Acrobot.{}"
    S.under_contract(F.format("dynamics"), F.format("clip"), F.format("reward"), F.format("terminal"), F.format("initial"))
    env0 = CC.Acrobot()
    ctx = Ctx()
    env = _env_sym(ctx, env0)
    y = sym(ctx, "y", sd((4,), f32))
    ny = sym(ctx, "ny", sd((4,), f32))
    a, ac = kit.int_scalar("action")
    k, kc = kit.key_input("key")
    hyp = [ac >= 0, ac <= 2] + [getattr(env, n).scalar() > 0 for n in ("link_mass_1", "link_mass_2", "link_length_1", "link_com_pos_1", "link_com_pos_2", "link_moi")]
    dyn = run(ctx, lambda e, yy, aa: e.dynamics(jnp.asarray(0.0), yy, aa), env, y, a)
    ref = run(ctx, R.acrobot_field, env, y, a)
    for i, nm in enumerate(("dtheta1", "dtheta2", "ddtheta1", "ddtheta2")):
        S.prove(f"Acrobot.dynamics/{nm}", ctx, ir.seq(dyn.at((i,)), ref.at((i,))), hyps=hyp, function=F.format("dynamics"), nl_budget_ms=6000,
                what="the vector field equals Gymnasium's _dsdt (book variant) for every state, action and physical parameters")
    cl = run(ctx, lambda e, yy: e.clip(yy), env, y)
    rv = run(ctx, R.acrobot_limits_velocities, env, y)
    pi = ir.zreal(Fraction(float(np.float32(np.pi))))
    S.prove("Acrobot.clip/velocity-bounds", ctx, sand(ir.seq(cl.at((2,)), rv.at((0,))), ir.seq(cl.at((3,)), rv.at((1,)))),
            hyps=[ir.seq(env.max_vel_1.scalar(), ir.const_float(np.float32(4 * np.pi))), ir.seq(env.max_vel_2.scalar(), ir.const_float(np.float32(9 * np.pi)))], function=F.format("clip"),
            what="joint velocities are bounded by 4*pi and 9*pi respectively (Gymnasium's MAX_VEL_1 / MAX_VEL_2)")
    d1 = CC.Acrobot()
    S.fact("Acrobot.clip/default-velocity-limits", abs(float(d1.max_vel_1) - 4 * np.pi) < 1e-5 and abs(float(d1.max_vel_2) - 9 * np.pi) < 1e-5, function=F.format("clip"), what="the default limits are 4*pi and 9*pi")
    S.prove("Acrobot.clip/angles-wrapped-into-[-pi,pi)", ctx, sand(*[z3.And(cl.at((i,)) >= -pi, cl.at((i,)) <= pi) for i in (0, 1)]), hyps=[y.at((0,)) > -1000, y.at((0,)) < 1000, y.at((1,)) > -1000, y.at((1,)) < 1000],
            function=F.format("clip"), what="joint angles are wrapped into [-pi, pi] (Gymnasium's wrap)")
    State = CC.acrobot.AcrobotState
    s, ns = State(y=y, t=jnp.asarray(0.0)), State(y=ny, t=jnp.asarray(0.0))
    rw = run(ctx, lambda e, s_, aa, n_, kk: e.reward(s_, aa, n_, key=kk), env, s, a, ns, k)
    S.prove("Acrobot.reward/every-transition-incl-terminal-step", ctx, ir.seq(rw.scalar(), run(ctx, R.acrobot_reward, env, y, a, ny).scalar()), function=F.format("reward"),
            what="-1 per step, 0 on the step that reaches the goal height (judged on the successor)")
    tm = run(ctx, lambda e, n_, kk: e.terminal(n_, key=kk), env, ns, k)
    S.prove("Acrobot.terminal", ctx, tm.scalar() == run(ctx, R.acrobot_terminated, env, ny).scalar(), function=F.format("terminal"), what="terminates iff -cos(theta1) - cos(theta1 + theta2) > 1")
    _initial_range(S, None, env0, R.ACROBOT_INIT, "Acrobot", F.format("initial"), (4,))


UNITS = [("cartpole", unit_cartpole), ("mountaincar", unit_mountaincar), ("continuous-mountaincar", unit_cmountaincar), ("acrobot", unit_acrobot)]
