"""C17 - Built-in environments realise their Gymnasium reference MDPs.

Classic control (CartPole, MountainCar, ContinuousMountainCar, Acrobot): dynamics (vector field), clip (state limits), reward,
terminal, initial of the real lerax classes are proved equal - for ALL states, actions and (symbolic) physical parameters - to the
reference formulas transcribed from the installed Gymnasium (contracts/reference_mdps.py, itself validated natively against the real
Gymnasium on every run); CartPole with the Euler solver (A-DIFFRAX) reproduces the Gymnasium update.
MuJoCo (11 environments, Gymnasium v5): see unit_mujoco - the REAL installed Gymnasium `step` / `_get_obs` / `_get_rew` code is executed
symbolically (numpy replaced by jax.numpy in the Gymnasium module, simulation replaced by a swap of symbolic physics data) and compared
with lerax's observation / reward / terminal / reward components on the same symbolic mjx.Data.
"""
from __future__ import annotations

import importlib
import itertools
import types
from fractions import Fraction

import equinox as eqx
import jax
import jax.numpy as jnp
import jax.random as jr
import numpy as np
import z3

from lerax.env import classic_control as CC

from lvc import kit, ir, extract
from lvc.extract import run, sym, fork_paths, eval_traced
from lvc.kit import Ctx, sand
from lvc.opaque import ocall
from contracts import reference_mdps as R

PROPERTY = "C17"
TRUSTED = ["A-GYM: the installed Gymnasium 1.3.0 sources are the reference (classic-control formulas transcribed in contracts/reference_mdps.py and validated natively against the real code on every run; "
           "MuJoCo v5 reference = the real Gymnasium methods executed symbolically)",
           "A-DIFFRAX: diffeqsolve(Euler, ConstantStepSize, dt0 = dt) returns y0 + dt * f(t0, y0)", "A-MJX: MJX physics equals MuJoCo-C physics (not lerax code)", "A-REAL; sin / cos uninterpreted (shared applications)",
           "A-RNG"]
ASSUMPTIONS = ["in-range actions; finite states; physical parameters symbolic with the positivity the formulas need (masses, lengths > 0)"]
DROPS = ["D1 constructor options at their documented defaults unless enumerated"]
NOT_DECIDED = ["numerical agreement of the two physics engines after a step (A-MJX)", "trajectory equality for the non-Euler default solver (only the vector field and limits are claimed for MountainCar / Acrobot)"]
sd = jax.ShapeDtypeStruct
f32 = jnp.float32


def diffeqsolve_euler(term, solver=None, t0=None, t1=None, dt0=None, y0=None, args=None, saveat=None, stepsize_controller=None, **kw):
    """A-DIFFRAX for the Euler solver with a constant step dt0 = t1 - t0: one explicit Euler step"""
    y1 = jax.tree.map(lambda y, f: y + dt0 * f, y0, term.vf(t0, y0, args))
    return types.SimpleNamespace(ys=jax.tree.map(lambda y: y[None], y1))


def _validate_reference(S):
    bad = R.validate_against_gymnasium(int(S.seed), 120 if S.tier == "quick" else 600)
    S.bounded_check("reference/transcription-agrees-with-installed-gymnasium", not bad, bound="seeded random states/actions per environment through the real Gymnasium step / _dsdt / bound / _terminal",
                    function="contracts.reference_mdps", what="the transcribed reference formulas reproduce the installed Gymnasium natively (discharges A-GYM for the classic-control part up to sampling)", detail=bad[:4])


def _env_sym(ctx, env):
    return sym(ctx, "env", env)


def cc_replay(cls, kind, ref, n, continuous=False, n_actions=3, env_kw=None):
    """R1 for the classic-control obligations: the counter-model's state / successor / action, then a battery of random states at scales 1, 10 and 40
    (beyond every velocity limit), through the REAL method of a default-constructed environment vs the Gymnasium reference formula evaluated natively."""
    def replay(model):
        env = cls(**(env_kw or {}))
        State = type(env.initial(key=jax.random.key(0)))
        rng = np.random.RandomState(9)
        cands = []
        if model is not None:
            try:
                y = [kit.model_float(model, f"y[{i}]", 0.0) for i in range(n)]
                ny = [kit.model_float(model, f"ny[{i}]", 0.0) for i in range(n)]
                cands.append((y, ny, kit.model_float(model, "action", 0.0)))
            except Exception:
                pass
        for scale in (1.0, 10.0, 40.0):
            for _ in range(6):
                act = float(rng.uniform(-1, 1)) if continuous else float(rng.randint(0, n_actions))
                cands.append(((rng.randn(n) * scale).tolist(), (rng.randn(n) * scale).tolist(), act))
        for y, ny, act in cands:
            yv, nyv = jnp.asarray(y, f32), jnp.asarray(ny, f32)
            a = jnp.asarray(act, f32) if continuous else jnp.asarray(int(act))
            s, ns = State(y=yv, t=jnp.asarray(0.0)), State(y=nyv, t=jnp.asarray(0.0))
            kk = jax.random.key(0)
            got, exp = dict(dynamics=lambda: (env.dynamics(jnp.asarray(0.0), yv, a), ref(env, yv, a)), clip=lambda: (env.clip(yv), ref(env, yv)),
                            reward=lambda: (env.reward(s, a, ns, key=kk), ref(env, yv, a, nyv)), terminal=lambda: (env.terminal(ns, key=kk), ref(env, nyv)))[kind]()
            got, exp = np.asarray(got, np.float64), np.asarray(exp, np.float64)
            if got.shape != exp.shape or not np.allclose(got, exp, rtol=1e-4, atol=1e-4):
                return dict(reproduced=True, route=f"R1 (real {cls.__name__}.{kind} of a default-constructed environment vs the Gymnasium formula)", inputs=dict(y=y, ny=ny, action=act),
                            observed=dict(lerax=got.tolist(), gymnasium=exp.tolist()))
        return dict(reproduced=False, note=f"{len(cands)} states (counter-model first, then random at scales 1/10/40): lerax and Gymnasium agree")
    return replay


def unit_cartpole(S):
    import diffrax
    F = "lerax.env.classic_control.cartpole:CartPole.{}"
    S.under_contract(F.format("dynamics"), F.format("clip"), F.format("reward"), F.format("terminal"), F.format("initial"), "lerax.env.classic_control.base_classic_control:AbstractClassicControlEnv.transition")
    _validate_reference(S)
    env0 = CC.CartPole(solver=diffrax.Euler())
    ctx = Ctx()
    env = _env_sym(ctx, env0)
    y = sym(ctx, "y", sd((4,), f32))
    ny = sym(ctx, "ny", sd((4,), f32))
    a, ac = kit.int_scalar("action")
    k, kc = kit.key_input("key")
    hyp = [z3.Or(ac == 0, ac == 1), env.total_mass.scalar() > 0, env.length.scalar() > 0, env.pole_mass.scalar() > 0, env.pole_mass.scalar() < env.total_mass.scalar()]
    dyn = run(ctx, lambda e, yy, aa: e.dynamics(jnp.asarray(0.0), yy, aa), env, y, a)
    ref = run(ctx, R.cartpole_field, env, y, a)
    S.prove("CartPole.dynamics/vector-field", ctx, kit.tree_eq(dyn, ref), hyps=hyp, function=F.format("dynamics"), nl_budget_ms=5000, replay=cc_replay(CC.CartPole, "dynamics", R.cartpole_field, 4, n_actions=2),
            what="the vector field equals Gymnasium's accelerations for every state, action and physical parameters")
    S.prove("CartPole.clip/no-state-limits", ctx, kit.tree_eq(run(ctx, lambda e, yy: e.clip(yy), env, y), y), function=F.format("clip"), what="CartPole has no state clipping (as Gymnasium)")
    st = CC.cartpole.CartPoleState(y=y, t=sym(ctx, "t", sd((), f32)))
    with extract.patched((__import__("diffrax"), "diffeqsolve", diffeqsolve_euler)):
        nst = run(ctx, lambda e, s, aa, kk: e.transition(s, aa, key=kk), env, st, a, k)
    refstep = run(ctx, R.cartpole_euler_step, env, y, a)
    S.fact("CartPole.__init__/constant-step-equals-dt", float(env0.dt0) == float(env0.dt) and abs(float(CC.CartPole(dt=0.05, solver=diffrax.Euler()).dt0) - 0.05) < 1e-7, function="lerax.env.classic_control.cartpole:CartPole.__init__",
           what="with a constant step size the solver step dt0 is the environment's dt (constructor invariant used below)")
    S.prove("CartPole.transition[Euler]/reproduces-gymnasium-update", ctx, kit.tree_eq(nst.y, refstep), hyps=hyp + [env.dt0.scalar() == env.dt.scalar()], function="lerax.env.classic_control.base_classic_control:AbstractClassicControlEnv.transition",
            nl_budget_ms=5000, what="with the Euler solver (A-DIFFRAX) one lerax transition is exactly Gymnasium's Euler update of all four coordinates: CartPole reproduces Gymnasium trajectories")
    nstate = CC.cartpole.CartPoleState(y=ny, t=st.t)
    S.prove("CartPole.reward", ctx, ir.seq(run(ctx, lambda e, s, aa, n_, kk: e.reward(s, aa, n_, key=kk), env, st, a, nstate, k).scalar(), run(ctx, R.cartpole_reward, env, y, a, ny).scalar()),
            function=F.format("reward"), replay=cc_replay(CC.CartPole, "reward", R.cartpole_reward, 4, n_actions=2), what="+1 for every transition including the terminating one")
    S.prove("CartPole.terminal", ctx, run(ctx, lambda e, n_, kk: e.terminal(n_, key=kk), env, nstate, k).scalar() == run(ctx, R.cartpole_terminated, env, ny).scalar(), function=F.format("terminal"), replay=cc_replay(CC.CartPole, "terminal", R.cartpole_terminated, 4, n_actions=2),
            what="terminates iff |x| > x_threshold or |theta| > theta_threshold (strict, as Gymnasium)")
    _initial_range(S, ctx, env0, R.CARTPOLE_INIT, "CartPole", F.format("initial"), (4,))


def uniform_stub(key, shape=(), dtype=float, minval=0.0, maxval=1.0, **kw):
    shape = tuple(shape)
    return ocall("uniform", sd(shape, f32), key, jnp.broadcast_to(jnp.asarray(minval, f32), shape), jnp.broadcast_to(jnp.asarray(maxval, f32), shape))


def _initial_range(S, ctx_unused, env0, rng, name, fn, shape, zero_rest=None):
    ctx = Ctx()
    k, kc = kit.key_input("key")
    with extract.patched((jr, "uniform", uniform_stub)):
        st = run(ctx, lambda kk: env0.initial(key=kk), k)
    us = [c for c in ctx.calls if c.name == "uniform"]
    lo, hi = ir.const_float(np.float32(rng[0])), ir.const_float(np.float32(rng[1]))
    ok = len(us) == 1 and all(u == lo for u in us[0].operands[1].elems()) and all(u == hi for u in us[0].operands[2].elems())
    S.fact(f"{name}.initial/range", ok, function=fn, what=f"the random coordinates of the initial state are uniform in [{rng[0]}, {rng[1]}] as in Gymnasium", detail=[c.name for c in ctx.calls])
    if ok:
        u = us[0].outputs[0]
        if u.shape == ():
            goal = sand(ir.seq(st.y.at((0,)), u.scalar()), ir.seq(st.y.at((1,)), 0))
            what = "position is the uniform draw, velocity 0"
        else:
            goal = kit.tree_eq(st.y, u)
            what = "all coordinates are the uniform draw"
        S.prove(f"{name}.initial/state", ctx, sand(goal, ir.seq(st.t.scalar(), 0)), function=fn, what=what)


def _mountaincar(S, cls, modname, field, limits, term, reward, continuous):
    name = cls.__name__
    F = f"lerax.env.classic_control.{modname}:{name}." + "{}"
    S.under_contract(F.format("dynamics"), F.format("clip"), F.format("reward"), F.format("terminal"), F.format("initial"))
    env0 = cls()
    ctx = Ctx()
    env = _env_sym(ctx, env0)
    y = sym(ctx, "y", sd((2,), f32))
    ny = sym(ctx, "ny", sd((2,), f32))
    if continuous:
        a, ac = kit.real_scalar("action")
        hyp = [ac >= env.min_action.scalar(), ac <= env.max_action.scalar(), env.min_action.scalar() <= env.max_action.scalar()]
    else:
        a, ac = kit.int_scalar("action")
        hyp = [ac >= 0, ac <= 2]
    hyp += [env.max_speed.scalar() > 0, env.min_position.scalar() < env.max_position.scalar()]
    k, kc = kit.key_input("key")
    dyn = run(ctx, lambda e, yy, aa: e.dynamics(jnp.asarray(0.0), yy, aa), env, y, a)
    ref = run(ctx, field, env, y, a)
    S.prove(f"{name}.dynamics/vector-field", ctx, kit.tree_eq(dyn, ref), hyps=hyp, function=F.format("dynamics"), replay=cc_replay(cls, "dynamics", field, 2, continuous), what="the vector field equals Gymnasium's update increments for every state and in-range action")
    cl = run(ctx, lambda e, yy: e.clip(yy), env, y)
    rl = run(ctx, limits, env, y)
    S.prove(f"{name}.clip/state-limits-incl-inelastic-left-wall", ctx, kit.tree_eq(cl, rl), hyps=hyp, function=F.format("clip"), replay=_wall_replay(cls),
            what="state limits equal Gymnasium's: speed and position clipped, and the inelastic left wall (position == min_position and velocity < 0 => velocity = 0)")
    stc = importlib.import_module(f"lerax.env.classic_control.{modname}")
    State = [v for n, v in vars(stc).items() if n.endswith("State") and isinstance(v, type) and n != "AbstractClassicControlEnvState"][0]
    s, ns = State(y=y, t=jnp.asarray(0.0)), State(y=ny, t=jnp.asarray(0.0))
    rw = run(ctx, lambda e, s_, aa, n_, kk: e.reward(s_, aa, n_, key=kk), env, s, a, ns, k)
    rr = run(ctx, reward, env, y, a, ny)
    S.prove(f"{name}.reward/every-transition-incl-goal-step", ctx, ir.seq(rw.scalar(), rr.scalar()), hyps=hyp, function=F.format("reward"), replay=_goal_replay(cls) if continuous else cc_replay(cls, "reward", reward, 2),
            what="reward equals Gymnasium's for every transition (state, action, successor), in particular the goal step: the bonus is judged on the SUCCESSOR state")
    tm = run(ctx, lambda e, n_, kk: e.terminal(n_, key=kk), env, ns, k)
    S.prove(f"{name}.terminal", ctx, tm.scalar() == run(ctx, term, env, ny).scalar(), function=F.format("terminal"), replay=cc_replay(cls, "terminal", term, 2, continuous), what="terminates iff position >= goal_position and velocity >= goal_velocity")
    _initial_range(S, None, env0, R.MOUNTAINCAR_INIT, name, F.format("initial"), ())


def _wall_replay(cls):
    """R1: the real clip against Gymnasium's limit rule on a grid of (position, velocity) pairs around both walls - beyond / exactly on / inside the wall, moving into it / away from
    it / at rest, velocities beyond the speed limit - with the counter-model's own state first."""
    def replay(model):
        env = cls()
        lo, hi, ms = float(env.min_position), float(env.max_position), float(env.max_speed)
        ys = []
        try:
            ys.append([kit.model_float(model, "y[0]", lo), kit.model_float(model, "y[1]", 0.01)])
        except Exception:
            pass
        for x in (lo - 0.1, lo, float(np.nextafter(np.float32(lo), np.float32(0))), lo + 0.05, 0.0, hi - 0.05, hi, hi + 0.1):
            for v in (-2 * ms, -0.05, -1e-4, 0.0, 1e-4, 0.0032419, 0.05, 2 * ms):
                ys.append([x, v])
        for yv in ys:
            y = jnp.asarray(yv, jnp.float32)
            out = np.asarray(env.clip(y))
            exp = np.asarray(R.mountaincar_limits(env, y))
            if not np.allclose(out, exp, atol=1e-7):
                return dict(reproduced=True, route="R1 (real clip vs Gymnasium's position / velocity limits)", inputs=dict(y=[float(v_) for v_ in yv]), observed=dict(lerax_clip=out.tolist(), gymnasium_limits=exp.tolist()))
        return dict(reproduced=False, note=f"{len(ys)} (position, velocity) pairs around both walls agree with Gymnasium's limits")
    return replay


def _goal_replay(cls):
    def replay(model):
        env = cls()
        State = type(env.initial(key=jax.random.key(0)))
        s = State(y=jnp.array([0.40, 0.05]), t=jnp.asarray(0.0))
        ns = State(y=jnp.array([0.58, 0.05]), t=jnp.asarray(0.0))
        a = jnp.asarray(0.5)
        got = float(env.reward(s, a, ns, key=jax.random.key(0)))
        exp = float(R.cmountaincar_reward(env, s.y, a, ns.y))
        return dict(reproduced=abs(got - exp) > 1e-5, route="R1", inputs=dict(state=[0.40, 0.05], action=0.5, next_state=[0.58, 0.05]), observed=dict(lerax_reward=got, gymnasium_reward=exp))
    return replay


def unit_mountaincar(S):
    _mountaincar(S, CC.MountainCar, "mountain_car", R.mountaincar_field, R.mountaincar_limits, R.mountaincar_terminated, R.mountaincar_reward, False)


def unit_cmountaincar(S):
    _mountaincar(S, CC.ContinuousMountainCar, "continuous_mountain_car", R.cmountaincar_field, R.cmountaincar_limits, R.cmountaincar_terminated, R.cmountaincar_reward, True)


def unit_acrobot(S):
    F = "lerax.env.classic_control.acrobot:Acrobot.{}"
    S.under_contract(F.format("dynamics"), F.format("clip"), F.format("reward"), F.format("terminal"), F.format("initial"))
    env0 = CC.Acrobot()
    ctx = Ctx()
    env = _env_sym(ctx, env0)
    y = sym(ctx, "y", sd((4,), f32))
    ny = sym(ctx, "ny", sd((4,), f32))
    a, ac = kit.int_scalar("action")
    k, kc = kit.key_input("key")
    hyp = [ac >= 0, ac <= 2] + [getattr(env, n).scalar() > 0 for n in ("link_mass_1", "link_mass_2", "link_length_1", "link_com_pos_1", "link_com_pos_2", "link_moi")]
    dyn = run(ctx, lambda e, yy, aa: e.dynamics(jnp.asarray(0.0), yy, aa), env, y, a)
    ref = run(ctx, R.acrobot_field, env, y, a)
    for i, nm in enumerate(("dtheta1", "dtheta2", "ddtheta1", "ddtheta2")):
        S.prove(f"Acrobot.dynamics/{nm}", ctx, ir.seq(dyn.at((i,)), ref.at((i,))), hyps=hyp, function=F.format("dynamics"), nl_budget_ms=6000, replay=cc_replay(CC.Acrobot, "dynamics", R.acrobot_field, 4),
                what="the vector field equals Gymnasium's _dsdt (book variant) for every state, action and physical parameters")
    cl = run(ctx, lambda e, yy: e.clip(yy), env, y)
    rv = run(ctx, R.acrobot_limits_velocities, env, y)
    pi = ir.zreal(Fraction(float(np.float32(np.pi))))
    S.prove("Acrobot.clip/velocity-bounds", ctx, sand(ir.seq(cl.at((2,)), rv.at((0,))), ir.seq(cl.at((3,)), rv.at((1,)))),
            hyps=[ir.seq(env.max_vel_1.scalar(), ir.const_float(np.float32(4 * np.pi))), ir.seq(env.max_vel_2.scalar(), ir.const_float(np.float32(9 * np.pi)))], function=F.format("clip"), replay=cc_replay(CC.Acrobot, "clip", lambda e, yy: jnp.concatenate([e.clip(yy)[:2], R.acrobot_limits_velocities(e, yy)]), 4),
            what="joint velocities are bounded by 4*pi and 9*pi respectively (Gymnasium's MAX_VEL_1 / MAX_VEL_2)")
    d1 = CC.Acrobot()
    S.fact("Acrobot.clip/default-velocity-limits", abs(float(d1.max_vel_1) - 4 * np.pi) < 1e-5 and abs(float(d1.max_vel_2) - 9 * np.pi) < 1e-5, function=F.format("clip"), what="the default limits are 4*pi and 9*pi")
    S.prove("Acrobot.clip/angles-wrapped-into-[-pi,pi)", ctx, sand(*[z3.And(cl.at((i,)) >= -pi, cl.at((i,)) <= pi) for i in (0, 1)]), hyps=[y.at((0,)) > -1000, y.at((0,)) < 1000, y.at((1,)) > -1000, y.at((1,)) < 1000],
            function=F.format("clip"), what="joint angles are wrapped into [-pi, pi] (Gymnasium's wrap)")
    State = CC.acrobot.AcrobotState
    s, ns = State(y=y, t=jnp.asarray(0.0)), State(y=ny, t=jnp.asarray(0.0))
    rw = run(ctx, lambda e, s_, aa, n_, kk: e.reward(s_, aa, n_, key=kk), env, s, a, ns, k)
    S.prove("Acrobot.reward/every-transition-incl-terminal-step", ctx, ir.seq(rw.scalar(), run(ctx, R.acrobot_reward, env, y, a, ny).scalar()), function=F.format("reward"), replay=cc_replay(CC.Acrobot, "reward", R.acrobot_reward, 4),
            what="-1 per step, 0 on the step that reaches the goal height (judged on the successor)")
    tm = run(ctx, lambda e, n_, kk: e.terminal(n_, key=kk), env, ns, k)
    S.prove("Acrobot.terminal", ctx, tm.scalar() == run(ctx, R.acrobot_terminated, env, ny).scalar(), function=F.format("terminal"), replay=cc_replay(CC.Acrobot, "terminal", R.acrobot_terminated, 4), what="terminates iff -cos(theta1) - cos(theta1 + theta2) > 1")
    _initial_range(S, None, env0, R.ACROBOT_INIT, "Acrobot", F.format("initial"), (4,))


UNITS = [("cartpole", unit_cartpole), ("mountaincar", unit_mountaincar), ("continuous-mountaincar", unit_cmountaincar), ("acrobot", unit_acrobot)]


# ======================================================================================================================
# MuJoCo (Gymnasium v5): the REAL installed Gymnasium step / _get_obs / _get_rew code executed symbolically
# ======================================================================================================================

MUJOCO = {
    "Ant": ("ant_v5", "AntEnv"), "HalfCheetah": ("half_cheetah_v5", "HalfCheetahEnv"), "Hopper": ("hopper_v5", "HopperEnv"), "Humanoid": ("humanoid_v5", "HumanoidEnv"),
    "HumanoidStandup": ("humanoidstandup_v5", "HumanoidStandupEnv"), "InvertedDoublePendulum": ("inverted_double_pendulum_v5", "InvertedDoublePendulumEnv"),
    "InvertedPendulum": ("inverted_pendulum_v5", "InvertedPendulumEnv"), "Pusher": ("pusher_v5", "PusherEnv"), "Reacher": ("reacher_v5", "ReacherEnv"), "Swimmer": ("swimmer_v5", "SwimmerEnv"),
    "Walker2d": ("walker2d_v5", "Walker2dEnv"),
}


class NPShim:
    """jax.numpy standing in for numpy inside the Gymnasium module while its code is executed on symbolic data"""
    def __getattr__(self, n):
        if n in ("float64", "float32"):
            return jnp.float32
        if n == "ndarray":
            return jnp.ndarray
        return getattr(jnp, n)


class FakeBody:
    def __init__(self, d, i):
        self._d, self._i = d, i

    def __getattr__(self, n):
        return getattr(self._d, n)[self._i]


class FakeData:
    """mujoco.MjData look-alike backed by a (symbolic) mjx.Data"""
    def __init__(self, d, model):
        self._d, self._m = d, model

    def __getattr__(self, n):
        return getattr(self._d, n)

    def body(self, key):
        import mujoco
        i = key if isinstance(key, (int, np.integer)) else mujoco.mj_name2id(self._m, mujoco.mjtObj.mjOBJ_BODY, key)
        return FakeBody(self._d, int(i))

    def site(self, key):
        import mujoco
        i = key if isinstance(key, (int, np.integer)) else mujoco.mj_name2id(self._m, mujoco.mjtObj.mjOBJ_SITE, key)
        d = self._d
        return types.SimpleNamespace(xpos=d.site_xpos[int(i)])


class FakeModel:
    """the Gymnasium environment's MjModel with float arrays as float32 jax arrays (the precision the compared code runs in), so that
    constants derived from the model (e.g. the total mass) are computed in the same arithmetic on both sides"""
    def __init__(self, m):
        self._m = m

    def __getattr__(self, n):
        v = getattr(self._m, n)
        if isinstance(v, np.ndarray) and v.dtype.kind == "f":
            return jnp.asarray(v, jnp.float32)
        return v


def _install_flat():
    from jax._src import core as jcore
    if not getattr(jcore.ShapedArray, "_lvc_flat", False):
        jcore.ShapedArray.flat = jcore.aval_property(lambda self: self.ravel())
        jcore.ShapedArray._lvc_flat = True


def gym_step(gmod, genv, d0, d1, action):
    """run the real Gymnasium step(): physics replaced by a swap from the symbolic pre-step data to the symbolic post-step data"""
    from gymnasium.envs.mujoco import mujoco_env as ME
    _install_flat()
    old_np, old_me = gmod.np, ME.np
    gmod.np = NPShim()
    ME.np = NPShim()
    real_data, real_model = genv.data, genv.model
    try:
        genv.data = FakeData(d0, real_model)
        genv.model = FakeModel(real_model)

        def do_sim(ctrl, n):
            genv.data = FakeData(d1, real_model)
        genv.do_simulation = do_sim
        return genv.step(action)
    finally:
        gmod.np, ME.np = old_np, old_me
        genv.data, genv.model = real_data, real_model


def _variant_options(name):
    """a second constructor configuration within the property's quantifier ('the documented observation/termination constructor options'): every boolean option flipped and every
    healthy / contact range moved off its default (same keyword names in lerax and Gymnasium v5).  Scalar reward WEIGHTS are left at their defaults: they are outside the stated
    quantifier, and Gymnasium v5's HumanoidStandup ignores its own uph_cost_weight (lerax follows the documented formula) - an out-of-scope difference that must not raise an alarm."""
    import inspect
    from lerax.env import mujoco as LM
    gmodname, gcls = MUJOCO[name]
    gmod = importlib.import_module(f"gymnasium.envs.mujoco.{gmodname}")
    L = inspect.signature(getattr(LM, name).__init__).parameters
    G = inspect.signature(getattr(gmod, gcls).__init__).parameters
    opts = {}
    for k_, p in L.items():
        if k_ not in G or k_ in ("self", "xml_file", "frame_skip", "reset_noise_scale", "default_camera_config", "key"):
            continue
        d, dg = p.default, G[k_].default
        if isinstance(d, bool) and isinstance(dg, bool):
            opts[k_] = not d
        elif isinstance(d, tuple) and isinstance(dg, tuple) and len(d) == 2 and all(isinstance(x, (int, float)) for x in d) and all(np.isfinite(d)):
            opts[k_] = (float(d[0]) + 0.0625, float(d[1]) + 0.1875)
    return opts


def _memo_replay(f):
    memo = {}

    def g(model):
        if "r" not in memo:
            memo["r"] = f(model)
        return memo["r"]
    return g


def mujoco_native_replay(name, opts):
    """R1: the real Gymnasium v5 environment (real MuJoCo physics) stepped with random in-range actions, also past unhealthy states; lerax's observation / reward / terminal /
    reward components are evaluated on mjx.Data copies of EXACTLY Gymnasium's pre- and post-step MjData (mjx.put_data), so any difference is semantic, not engine numerics."""
    def replay(model):
        import copy
        import warnings
        from mujoco import mjx
        from lerax.env import mujoco as LM
        from lerax.env.mujoco.base_mujoco import MujocoEnvState
        gmodname, gcls = MUJOCO[name]
        gmod = importlib.import_module(f"gymnasium.envs.mujoco.{gmodname}")
        genv, lenv = getattr(gmod, gcls)(**opts), getattr(LM, name)(**opts)
        mk = lambda x: MujocoEnvState(sim_state=x, t=jnp.asarray(0.0))
        rng = np.random.RandomState(0)
        lo, hi = np.asarray(genv.action_space.low, np.float64), np.asarray(genv.action_space.high, np.float64)
        k = jax.random.key(0)
        close = lambda a, b: np.allclose(np.asarray(a, np.float64), np.asarray(b, np.float64), rtol=2e-3, atol=2e-3)
        with warnings.catch_warnings():
            warnings.simplefilter("ignore")
            for ep in range(3):
                genv.reset(seed=ep)
                for t in range(40):
                    before = copy.copy(genv.data)
                    a = rng.uniform(lo, hi)
                    gobs, grew, gterm, _, ginfo = genv.step(a.astype(np.float32))
                    d0, d1 = mjx.put_data(genv.model, before), mjx.put_data(genv.model, genv.data)
                    aj = jnp.asarray(a, f32)
                    lobs, lrew, lterm = lenv.observation(mk(d1), key=k), lenv.reward(mk(d0), aj, mk(d1), key=k), bool(lenv.terminal(mk(d1), key=k))
                    linfo = lenv.transition_info(mk(d0), aj, mk(d1))
                    bad = {}
                    if np.shape(lobs) != np.shape(gobs) or not close(lobs, gobs):
                        bad["observation"] = dict(lerax=np.asarray(lobs).tolist(), gymnasium=np.asarray(gobs).tolist())
                    if not close(lrew, grew):
                        bad["reward"] = dict(lerax=float(lrew), gymnasium=float(grew))
                    if lterm != bool(gterm):
                        bad["terminated"] = dict(lerax=lterm, gymnasium=bool(gterm))
                    for kk_, gv in ginfo.items():
                        if kk_.startswith("reward_") and kk_ in linfo and not close(linfo[kk_], gv):
                            bad[kk_] = dict(lerax=float(linfo[kk_]), gymnasium=float(gv))
                    if bad:
                        return dict(reproduced=True, route="R1 (real Gymnasium v5 step on real MuJoCo; lerax evaluated on mjx.put_data copies of the same MjData)",
                                    inputs=dict(env=name, constructor=opts, reset_seed=ep, step=t, action=a.tolist(), qpos_before=np.asarray(before.qpos).tolist(), qvel_before=np.asarray(before.qvel).tolist()),
                                    observed=bad)
        return dict(reproduced=False, note="3 episodes x 40 random steps (continued past unhealthy states): observation, reward, components and termination agree with Gymnasium v5")
    return replay


def unit_mujoco(name, variant=False):
    def unit(S):
        from mujoco import mjx
        from lerax.env import mujoco as LM
        from lerax.env.mujoco.base_mujoco import MujocoEnvState
        gmodname, gcls = MUJOCO[name]
        gmod = importlib.import_module(f"gymnasium.envs.mujoco.{gmodname}")
        fnp = f"lerax.env.mujoco:{name}"
        S.under_contract(fnp + ".observation", fnp + ".reward", fnp + ".terminal", fnp + ".transition_info", fnp + ".initial")
        opts = _variant_options(name) if variant else {}
        if variant:
            S.note(f"constructor options (both sides): {opts}")
        genv = getattr(gmod, gcls)(**opts)
        lenv = getattr(LM, name)(**opts)
        name_ = name
        ctx = Ctx()
        dstruct = jax.eval_shape(lambda: mjx.make_data(lenv.model))
        d0, d1 = sym(ctx, "d0", dstruct), sym(ctx, "d1", dstruct)
        a = sym(ctx, "a", sd(lenv.action_space.shape, f32))
        k = jax.random.key(0)
        S.fact(f"{name}/same-model-and-frame-skip", genv.model.nq == lenv.mujoco_model.nq and genv.model.nv == lenv.mujoco_model.nv and genv.frame_skip == lenv.frame_skip
               and abs(genv.dt - float(lenv.dt)) < 1e-9 and np.allclose(genv.init_qpos, np.asarray(lenv.init_qpos)) and np.allclose(genv.model.body_mass, lenv.mujoco_model.body_mass),
               function=fnp + ".__init__", what="same MuJoCo model (dimensions, body masses, initial configuration), frame_skip and dt as the Gymnasium v5 environment")
        paths = fork_paths(lambda x0, x1, aa: gym_step(gmod, genv, x0, x1, aa), (d0, d1, a), max_paths=4096)
        mk = lambda x: MujocoEnvState(sim_state=x, t=jnp.asarray(0.0))
        lobs = run(ctx, lambda x1: lenv.observation(mk(x1), key=k), d1)
        lrew = run(ctx, lambda x0, x1, aa: lenv.reward(mk(x0), aa, mk(x1), key=k), d0, d1, a)
        lterm = run(ctx, lambda x1: lenv.terminal(mk(x1), key=k), d1)
        linfo = run(ctx, lambda x0, x1, aa: lenv.transition_info(mk(x0), aa, mk(x1)), d0, d1, a)
        fin = []
        for fld in ("qpos", "qvel"):
            for dd in (d0, d1):
                arr = getattr(dd, fld)
                fin += [z3.And(arr.at(i) > -ir.INF, arr.at(i) < ir.INF) for i in arr.indices()]
        # A-MJX (kinematics): xipos_b = xpos_b + R_b * ipos_b; for bodies whose inertial frame sits at the body origin (ipos_b = 0 in the model) the two coincide
        ipos = np.asarray(lenv.mujoco_model.body_ipos)
        for b in range(ipos.shape[0]):
            if np.all(ipos[b] == 0):
                for dd in (d0, d1):
                    fin += [dd.xipos.at((b, c_)) == dd.xpos.at((b, c_)) for c_ in range(3)]
        # AbstractMujocoEnv.transition writes ctrl = action before stepping and mjx.step leaves ctrl untouched (A-MJX): the post-step data carries the action
        fin += [d1.ctrl.at(i) == a.at(i) for i in a.indices()]
        in_range = [z3.And(a.at(i) >= ir.zreal(ir.const_float(np.float32(lenv.action_space.low[i]))), a.at(i) <= ir.zreal(ir.const_float(np.float32(lenv.action_space.high[i])))) for i in a.indices()]
        goals = dict(observation=[], reward=[], terminated=[])
        sat_paths = 0
        from lvc.vc import _solve_z3
        for tr, dyn, dec in paths:
            conds, (gobs, grew, gterm, gtrunc, ginfo) = eval_traced(ctx, tr, dyn)
            pc = sand(*[ir.seq(c.scalar(), d) for c, d in zip(conds, dec)])
            st, _, _, _ = _solve_z3(list(ctx.assumptions) + [ir.zbool(pc), ir.INF_AXIOM] + fin, 3000)
            if st == "unsat":
                continue  # contradictory decision vector (the same predicate decided differently twice)
            sat_paths += 1
            goals["observation"].append(ir.simplies(pc, kit.tree_eq(gobs, lobs) if tuple(gobs.shape) == tuple(lobs.shape) else False))
            goals["reward"].append(ir.simplies(pc, ir.seq(grew.scalar() if kit.is_sarr(grew) else grew, lrew.scalar())))
            gt = gterm.scalar() if kit.is_sarr(gterm) else bool(gterm)
            goals["terminated"].append(ir.simplies(pc, ir.seq(gt, lterm.scalar())))
            for key_, gv in ginfo.items():
                if key_.startswith("reward_") and key_ in linfo:
                    goals.setdefault("component:" + key_, []).append(ir.simplies(pc, ir.seq(gv.scalar() if kit.is_sarr(gv) else gv, linfo[key_].scalar())))
        S.fact(f"{name}/reference-paths-explored", sat_paths >= 1, function=fnp, what=f"the real Gymnasium step was executed symbolically on {sat_paths} feasible Python-level paths ({len(paths)} decision vectors)")
        what = dict(observation="observation(successor) equals Gymnasium v5's _get_obs() on the same physical state (documented default options)",
                    reward="reward(state, action, successor) equals Gymnasium v5's reward for every pair of physical states and every in-range action",
                    terminated="terminal(successor) equals Gymnasium v5's terminated flag",
                    components="the reward components reported in transition_info equal Gymnasium v5's info entries")
        rp = _memo_replay(mujoco_native_replay(name, opts))
        nat = rp(None)
        S.bounded_check(f"{name}/native-rollouts-agree-with-gymnasium", not nat.get("reproduced"), bound="3 episodes x 40 random in-range steps of the real Gymnasium v5 environment (real MuJoCo), continued past unhealthy states; tolerance 2e-3",
                        function=fnp, what="observation, reward, reward components and termination of lerax evaluated on copies of Gymnasium's own MjData agree with Gymnasium's outputs", detail=nat.get("observed"), replay=rp)
        for gname, gl in goals.items():
            S.prove(f"{name}/{gname}", ctx, sand(*gl), hyps=fin + in_range, replay=rp, function=fnp + "." + {"observation": "observation", "reward": "reward", "terminated": "terminal"}.get(gname, "transition_info"),
                    what=what.get(gname, f"the reward component {gname.split(':')[-1]} reported in transition_info equals Gymnasium v5's info entry"), nl_budget_ms=-8000)
        # reset: derived kinematics consistent with the sampled configuration (Gymnasium's set_state runs mj_forward)
        ctx2 = Ctx()
        kk, kc = kit.key_input("key")
        mod = importlib.import_module(type(lenv).__module__)

        def fwd_stub(model, data):
            return data.replace(xpos=ocall("mjx.forward.xpos", sd(data.xpos.shape, f32), data.qpos, data.qvel))

        def normal_stub(key, shape=(), dtype=float, **kw):
            return ocall("normal", sd(tuple(shape), f32), key)
        base_data = mjx.make_data(lenv.model)
        with extract.patched((jr, "uniform", uniform_stub), (jr, "normal", normal_stub), (mod.mjx, "forward", fwd_stub), (mod.mjx, "make_data", lambda m: base_data)):
            st0 = run(ctx2, lambda q: lenv.initial(key=q), kk)
        dat = st0.sim_state
        spec = run(ctx2, lambda q, v: ocall("mjx.forward.xpos", sd(tuple(dat.xpos.shape), f32), q, v), dat.qpos, dat.qvel)
        nb = dat.xpos.shape[0]
        S.prove(f"{name}/reset-kinematics-consistent", ctx2, sand(*[ir.seq(dat.xpos.at((b, c_)), spec.at((b, c_))) for b in sorted({0, 1, nb - 1}) for c_ in range(3)]), function=fnp + ".initial",
                replay=_reset_replay(name), what="the reset state's derived kinematics are mjx.forward of its sampled configuration (as Gymnasium's set_state + mj_forward): reset observations and the first step's reward use consistent body positions")
    return unit


def _reset_replay(name):
    def replay(model):
        from lerax.env import mujoco as LM
        from mujoco import mjx
        env = getattr(LM, name)()
        st = jax.jit(lambda k: env.initial(key=k))(jax.random.key(0))
        fw = jax.jit(lambda d: mjx.forward(env.model, d))(st.sim_state)
        err = float(jnp.max(jnp.abs(fw.xpos - st.sim_state.xpos)))
        return dict(reproduced=err > 1e-6, route="R1", inputs=dict(env=name, key_seed=0), observed=dict(max_abs_xpos_difference_to_forward_kinematics=err))
    return replay


UNITS = UNITS + [(f"mujoco:{n}", unit_mujoco(n)) for n in MUJOCO] + [(f"mujoco-options:{n}", unit_mujoco(n, True)) for n in MUJOCO if n != "InvertedPendulum"]


def unit_mujoco_transition(S):
    """AbstractMujocoEnv.transition (shared by the 11 environments): ctrl := action, then frame_skip applications of mjx.step, t' = t + dt."""
    from mujoco import mjx
    from lerax.env import mujoco as LM
    from lerax.env.mujoco import base_mujoco as BM
    from lerax.env.mujoco.base_mujoco import MujocoEnvState
    fn = "lerax.env.mujoco.base_mujoco:AbstractMujocoEnv.transition"
    S.under_contract(fn)
    for name in ("InvertedPendulum", "HalfCheetah"):
        lenv = getattr(LM, name)()
        ctx = Ctx()
        ctx.unroll_limit = 0  # keep the frame-skip loop symbolic: its trip count is read off the scan record
        dstruct = jax.eval_shape(lambda: mjx.make_data(lenv.model))
        d0 = sym(ctx, "d0", dstruct)
        a = sym(ctx, "a", sd(lenv.action_space.shape, f32))
        t, tc = kit.real_scalar("t")

        def step_stub(model, data):
            return data.replace(qpos=ocall("mjx.step.qpos", sd(data.qpos.shape, f32), data.qpos, data.qvel, data.ctrl), qvel=ocall("mjx.step.qvel", sd(data.qvel.shape, f32), data.qpos, data.qvel, data.ctrl))
        with extract.patched((BM.mjx, "step", step_stub)):
            ns = run(ctx, lambda x0, aa, tt: lenv.transition(MujocoEnvState(sim_state=x0, t=tt), aa, key=jax.random.key(0)), d0, a, t)
        ok = len(ctx.scans) == 1 and ctx.scans[0].length == lenv.frame_skip or (len(ctx.scans) == 1 and ir.is_z3(ctx.scans[0].length) is False and int(ctx.scans[0].length) == lenv.frame_skip)
        S.fact(f"{name}.transition/frame_skip-physics-steps", bool(ok), function=fn, what="one loop of exactly frame_skip applications of mjx.step", detail=dict(scans=len(ctx.scans), frame_skip=lenv.frame_skip))
        if len(ctx.scans) == 1:
            rec = ctx.scans[0]
            n0 = len(ctx.calls)
            rec.body(rec.init, 0)  # the first physics step, on the loop's initial carry
            c = [x for x in ctx.calls[n0:] if x.name == "mjx.step.qpos"][0]
            S.prove(f"{name}.transition/ctrl-is-the-action", ctx, sand(*[ir.seq(c.operands[2].at(i), a.at(i)) for i in a.indices()]), function=fn, what="the physics is driven with ctrl = action")
            S.prove(f"{name}.transition/starts-from-the-state", ctx, sand(*[ir.seq(c.operands[0].at(i), d0.qpos.at(i)) for i in d0.qpos.indices()],
                                                                         *[ir.seq(c.operands[1].at(i), d0.qvel.at(i)) for i in d0.qvel.indices()]), function=fn, what="the loop starts from the state's physics data")
        S.prove(f"{name}.transition/time-advances-by-dt", ctx, ir.seq(ns.t.scalar(), tc + ir.zreal(ir.const_float(np.float32(lenv.dt)))), function=fn, what="t' = t + dt (dt = frame_skip * timestep)")


def _step_composition(stack):
    """`step` (AbstractEnvLike.step, inherited by every built-in environment; contract stated in C01): the reward, flags and info step reports are reward / terminal / truncate /
    transition_info of the transition TAKEN (evaluated at the successor state before any auto-reset).  With the per-environment obligations above (reward, terminal, observation
    agree with Gymnasium's formulas) this gives Gymnasium's `step` results, also on the step that ends an episode."""
    def unit(S):
        from contracts import C01
        C01.unit_stack(stack)(S)
    return unit


UNITS = UNITS + [("mujoco-transition", unit_mujoco_transition)] + [(f"step:{s}", _step_composition(s)) for s in ("plain-box", "plain-discrete")]
