"""C13 - Wrappers and adapters change only what they declare; TimeLimit is exact.

Under contract: every component method of Identity, TimeLimit, AbstractPureTransformActionWrapper (TransformAction, ClipAction,
RescaleAction), AbstractPureObservationWrapper (TransformObservation, ClipObservation, RescaleObservation, FlattenObservation),
AbstractPureTransformRewardWrapper (TransformReward, ClipReward); rescale_box; AbstractWrapper.unwrapped/name;
AbstractWrapperState.unwrapped; GymnaxToLeraxEnv, LeraxToGymnaxEnv, GymToLeraxEnv (LeraxToGymEnv is in C01).
The inner environment is generic (uninterpreted), so it may itself be any wrapper stack.
"""
from __future__ import annotations

import os
import itertools

import equinox as eqx
import jax
import jax.numpy as jnp
import jax.random as jr
import numpy as np
import z3

from lerax.space import Box, Discrete
from lerax import wrapper as W
from lerax.wrapper.utils import rescale_box

from lvc import kit, ir, extract, opaque
from lvc.extract import run, sym
from lvc.generic import GenericEnv, GenericInnerEnv, GState
from lvc.kit import Ctx, sand

PROPERTY = "C13"
TRUSTED = ["A-PURE", "A-REAL: affine exactness of rescaling is over the reals", "A-XLA",
           "induction over the episode history for TimeLimit (initiation + consecution discharged)",
           "A-GYM: adapted Gymnasium / Gymnax environments are opaque objects; only the projections made by the adapter are checked"]
ASSUMPTIONS = ["inner env generic; Box action f32[2], observation Box f32[2] with symbolic finite bounds low <= high (low < high for rescaling)"]
DROPS = ["rescale_box: the jnp.isfinite masks are static (the check builds the wrapper eagerly on finite bounds: the property's 'bounded boxes')",
         "D2: constructor assertions / ValueError paths are separate constructibility obligations"]
NOT_DECIDED = ["exact float32 equality of rescaled bounds (proved over the reals)"]
sd = jax.ShapeDtypeStruct
f32 = jnp.float32


def inner_env():
    return GenericInnerEnv(Box(jnp.array([-1.0, -2.0]), jnp.array([1.0, 3.0])), observation_space=Box(jnp.array([-2.0, 0.0]), jnp.array([2.0, 5.0])))


def inner_discrete():
    return GenericInnerEnv(Discrete(3), masked=True)


WRAPPERS = {
    "Identity": (inner_env, lambda e: W.Identity(e), {}),
    "TimeLimit": (inner_env, lambda e: W.TimeLimit(e, 7), {}),
    "TimeLimit/discrete-masked": (inner_discrete, lambda e: W.TimeLimit(e, 7), {}),
    "TransformAction": (inner_env, lambda e: W.TransformAction(e, lambda a: 2.0 * a + 1.0, e.action_space), {"action": lambda a, env: 2.0 * a + 1.0}),
    "TransformAction/masked": (inner_discrete, lambda e: W.TransformAction(e, lambda a: 2 - a, e.action_space, mask_func=lambda m: m[::-1]),
                               {"action": lambda a, env: 2 - a, "mask": lambda m: m[::-1]}),
    "ClipAction": (inner_env, lambda e: W.ClipAction(e), {"action": lambda a, env: jnp.clip(a, env.action_space.low, env.action_space.high)}),
    "RescaleAction": (inner_env, lambda e: W.RescaleAction(e), {"action": "rescale"}),
    "TransformObservation": (inner_env, lambda e: W.TransformObservation(e, lambda o: o * 3.0 - 1.0, e.observation_space), {"obs": lambda o, env: o * 3.0 - 1.0}),
    "ClipObservation": (inner_env, lambda e: W.ClipObservation(e), {"obs": lambda o, env: jnp.clip(o, env.observation_space.low, env.observation_space.high)}),
    "RescaleObservation": (inner_env, lambda e: W.RescaleObservation(e), {"obs": "rescale"}),
    "FlattenObservation": (inner_env, lambda e: W.FlattenObservation(e), {"obs": lambda o, env: jnp.ravel(o)}),
    "TransformReward": (inner_env, lambda e: W.TransformReward(e, lambda r: 0.5 * r - 1.0), {"reward": lambda r: 0.5 * r - 1.0}),
    "ClipReward": (inner_env, lambda e: W.ClipReward(e, -0.5, 2.0), {"reward": lambda r: jnp.clip(r, -0.5, 2.0)}),
}


def _struct(E):
    st = jax.eval_shape(lambda k: E.initial(key=k), jax.random.key(0))
    a = sd((), jnp.int32) if isinstance(E.action_space, Discrete) else sd(E.action_space.shape, f32)
    return st, a


def unit_constructible(S):
    """every documented wrapper can be constructed on an environment of the right kind (native obligation, replayed natively)"""
    for name, (mk, build, _) in WRAPPERS.items():
        fn = f"lerax.wrapper:{name.split('/')[0]}.__init__"
        S.under_contract(fn)
        try:
            w = build(mk())
            ok, detail = True, type(w).__name__
        except Exception as e:  # constructor failure = failed obligation with the native exception as witness
            ok, detail = False, f"{type(e).__name__}: {e}"
        msg = detail

        def replay(model, mk=mk, build=build, name=name):
            try:
                build(mk())
                return dict(reproduced=False)
            except Exception as e:
                return dict(reproduced=True, route="R1", inputs=dict(wrapper=name, inner="generic environment with Box action/observation spaces"),
                            observed=f"{type(e).__name__}: {e}")
        S.fact(f"constructible/{name}", ok, function=fn, what=f"{name} can be constructed", detail=msg, replay=replay)


def _space_replay(cls, which):
    """R1: the wrapper placed OUTSIDE a space-changing wrapper over a real environment: the advertised space must be the inner wrapper's."""
    def replay(model):
        from lerax.env.classic_control import Pendulum
        base = Pendulum()
        mid = W.TransformObservation(base, lambda o: o[:2] * 10.0 + 20.0, Box(jnp.array([10.0, 10.0]), jnp.array([30.0, 30.0]))) if which == "observation_space" else \
            W.TransformAction(base, lambda a: a[0:1] * 2.0, Box(-jnp.ones((3,)), jnp.ones((3,))))
        build = {"Identity": lambda e: W.Identity(e), "TimeLimit": lambda e: W.TimeLimit(e, 5), "TransformReward": lambda e: W.TransformReward(e, lambda r: r), "ClipReward": lambda e: W.ClipReward(e, -1.0, 1.0),
                 "TransformAction": lambda e: W.TransformAction(e, lambda a: a, e.action_space), "ClipAction": lambda e: W.ClipAction(e), "RescaleAction": lambda e: W.RescaleAction(e),
                 "TransformObservation": lambda e: W.TransformObservation(e, lambda o: o, e.observation_space), "ClipObservation": lambda e: W.ClipObservation(e),
                 "RescaleObservation": lambda e: W.RescaleObservation(e), "FlattenObservation": lambda e: W.FlattenObservation(e)}[cls]
        outer = build(mid)
        got, exp = getattr(outer, which), getattr(mid, which)
        if not (got is exp or got == exp):
            return dict(reproduced=True, route=f"R1 ({cls} over a space-changing wrapper over Pendulum)", inputs=dict(stack=f"{cls}({type(mid).__name__}(Pendulum))", attribute=which),
                        observed=dict(advertised=str(got), inner=str(exp), base=str(getattr(base, which))))
        return dict(reproduced=False, note="advertised space equals the wrapped environment-like object's")
    return replay


def unit_passthrough(name):
    def unit(S):
        mk, build, changes = WRAPPERS[name]
        cls = name.split("/")[0]
        try:
            E0 = build(mk())
        except Exception as e:
            S.undecided("pass-through", f"wrapper not constructible ({type(e).__name__}); see constructible/{name}", function=f"lerax.wrapper:{cls}")
            return
        fnp = f"lerax.wrapper:{type(E0).__mro__[1].__name__ if type(E0).__mro__[1].__name__.startswith('Abstract') else cls}"
        ctx = Ctx()
        eager = cls.startswith("Rescale") or cls.startswith("Flatten")  # rescale_box asserts on concrete bounds: built eagerly, bounds concrete
        inner0 = mk()
        env_in = E0 if eager else sym(ctx, "env", inner0)  # inner env with symbolic space bounds; wrapper built inside the trace
        wrap = (lambda e: e) if eager else build
        st_s, a_s = _struct(E0)
        s = sym(ctx, "s", st_s)
        ns = sym(ctx, "ns", st_s)
        a = sym(ctx, "a", a_s)
        k, kc = kit.key_input("key")
        inner = lambda e: e.env
        # the declared action map / observation map / reward map as spec functions
        act_map = changes.get("action")
        obs_map = changes.get("obs")
        rew_map = changes.get("reward")
        mask_map = changes.get("mask")
        hyps = []
        if act_map == "rescale" or obs_map == "rescale":
            hyps = []  # concrete affine map (wrapper built eagerly); exactness at the bounds is in unit rescale

        def A(x, e):
            if act_map is None:
                return x
            if act_map == "rescale":
                return e.func(x)
            return act_map(x, inner(e))

        def O(x, e):
            if obs_map is None:
                return x
            if obs_map == "rescale":
                return e.func(x)
            return obs_map(x, inner(e))
        R = rew_map or (lambda r: r)
        M = mask_map or (lambda m: m)
        methods = {
            "initial": (lambda e, s_, ns_, a_, kk: e.initial(key=kk).env_state, lambda e, s_, ns_, a_, kk: inner(e).initial(key=kk)),
            "action_mask": (lambda e, s_, ns_, a_, kk: e.action_mask(s_, key=kk),
                            lambda e, s_, ns_, a_, kk: (lambda m: None if m is None else M(m))(inner(e).action_mask(s_.env_state, key=kk))),
            "transition": (lambda e, s_, ns_, a_, kk: e.transition(s_, a_, key=kk).env_state, lambda e, s_, ns_, a_, kk: inner(e).transition(s_.env_state, A(a_, e), key=kk)),
            "observation": (lambda e, s_, ns_, a_, kk: e.observation(s_, key=kk), lambda e, s_, ns_, a_, kk: O(inner(e).observation(s_.env_state, key=kk), e)),
            "reward": (lambda e, s_, ns_, a_, kk: e.reward(s_, a_, ns_, key=kk), lambda e, s_, ns_, a_, kk: R(inner(e).reward(s_.env_state, A(a_, e), ns_.env_state, key=kk))),
            "terminal": (lambda e, s_, ns_, a_, kk: e.terminal(s_, key=kk), lambda e, s_, ns_, a_, kk: inner(e).terminal(s_.env_state, key=kk)),
            "state_info": (lambda e, s_, ns_, a_, kk: e.state_info(s_), lambda e, s_, ns_, a_, kk: inner(e).state_info(s_.env_state)),
            "transition_info": (lambda e, s_, ns_, a_, kk: e.transition_info(s_, a_, ns_), lambda e, s_, ns_, a_, kk: inner(e).transition_info(s_.env_state, A(a_, e), ns_.env_state)),
        }
        if cls != "TimeLimit":
            methods["truncate"] = (lambda e, s_, ns_, a_, kk: e.truncate(s_), lambda e, s_, ns_, a_, kk: inner(e).truncate(s_.env_state))
        S.default_replay = _pass_battery(name, [m for m in methods])      # also the native witness if a method cannot be extracted on the symbolic stack
        for m, (real_f, spec_f) in methods.items():
            fn = f"{fnp}.{m}"
            S.under_contract(fn)
            r = run(ctx, lambda e, *rest, f=real_f: f(wrap(e), *rest), env_in, s, ns, a, k)
            sp = run(ctx, lambda e, *rest, f=spec_f: f(wrap(e), *rest), env_in, s, ns, a, k)
            if r is None or sp is None:
                S.fact(f"{name}.{m}/pass-through", r is None and sp is None, function=fn, what="no mask offered by the inner env => none offered by the wrapper")
                continue
            S.prove(f"{name}.{m}/pass-through", ctx, kit.tree_eq(r, sp), hyps=hyps, function=fn, replay=_pass_replay(name, m),
                    what=f"{name}.{m} = inner.{m} on state.env_state with the same key, " + (
                        "fed the mapped action" if (act_map is not None and m in ("transition", "reward", "transition_info")) else
                        "post-processed by the declared observation map" if (obs_map is not None and m == "observation") else
                        "post-processed by the declared reward map" if (rew_map is not None and m == "reward") else
                        "mask mapped by mask_func" if (mask_map is not None and m == "action_mask") else "unchanged"))
        # Python-level pass-through: unwrapped env / state, name
        st_c = E0.initial(key=jax.random.key(1)) if False else None
        S.fact(f"{name}/unwrapped-env", E0.unwrapped is E0.env.unwrapped and E0.name == E0.env.name, function=f"lerax.wrapper.base_wrapper:AbstractWrapper.unwrapped",
               what="wrapper.unwrapped is the inner-most environment; wrapper.name is the inner name")
        s_obj = jax.tree.map(lambda x: x, s, is_leaf=kit.is_sarr)
        S.fact(f"{name}/unwrapped-state", s_obj.unwrapped is s_obj.env_state.unwrapped, function="lerax.wrapper.base_wrapper:AbstractWrapperState.unwrapped",
               what="state.unwrapped is the inner-most state")
        # advertised spaces
        inn = E0.env
        same = lambda a, b: a is b or a == b
        if cls not in ("TransformObservation", "ClipObservation", "RescaleObservation", "FlattenObservation"):
            S.fact(f"{name}/observation-space-is-the-inner-one", same(E0.observation_space, inn.observation_space), function=f"lerax.wrapper:{cls}.observation_space", replay=_space_replay(cls, "observation_space"),
                   what="a wrapper that does not declare an observation change advertises the observation space of the environment-like object it wraps (self.env, not the unwrapped base environment)")
        if cls not in ("TransformAction", "ClipAction", "RescaleAction"):
            S.fact(f"{name}/action-space-is-the-inner-one", same(E0.action_space, inn.action_space), function=f"lerax.wrapper:{cls}.action_space", replay=_space_replay(cls, "action_space"),
                   what="a wrapper that does not declare an action change advertises the action space of the environment-like object it wraps")
        if cls in ("Identity", "TimeLimit", "TransformReward", "ClipReward"):
            S.fact(f"{name}/spaces-pass-through", E0.action_space is inn.action_space and E0.observation_space is inn.observation_space, function=f"lerax.wrapper:{cls}",
                   what="action and observation spaces are the inner ones")
        if cls == "ClipAction":
            sp_ = E0.action_space
            S.fact(f"{name}/advertised-space", isinstance(sp_, Box) and sp_.shape == inn.action_space.shape and bool(jnp.all(sp_.low == -jnp.inf)) and bool(jnp.all(sp_.high == jnp.inf))
                   and E0.observation_space is inn.observation_space, function="lerax.wrapper:ClipAction", what="ClipAction advertises Box(-inf, inf, shape) and the inner observation space")
        if cls == "ClipObservation":
            S.fact(f"{name}/advertised-space", E0.observation_space == inn.observation_space and E0.action_space is inn.action_space, function="lerax.wrapper:ClipObservation",
                   what="ClipObservation keeps the observation space (clipping maps into it) and the action space")
        if cls == "FlattenObservation":
            sp_ = E0.observation_space
            S.fact(f"{name}/advertised-space", isinstance(sp_, Box) and sp_.shape == (inn.observation_space.flat_size,) and bool(jnp.all(jnp.isinf(sp_.low))), function="lerax.wrapper:FlattenObservation",
                   what="FlattenObservation advertises Box(-inf, inf, (flat_size,))")
        if cls in ("TransformAction", "TransformObservation"):
            S.fact(f"{name}/advertised-space", (E0.action_space is inn.action_space) and (E0.observation_space is inn.observation_space), function=f"lerax.wrapper:{cls}",
                   what="the space given to the constructor is advertised, the other one passes through")
    return unit


def _pass_battery(name, methods):
    """every component function of the wrapper natively on concrete members of its spaces, against the inner function through the declared maps; the real wrapper RAISING on such
    inputs counts as a failing input too (it cannot forward a member of the space it declares)"""
    def replay(model):
        for m in methods:
            try:
                r = _pass_replay(name, m)(model)
            except Exception as e:
                import traceback
                repo = os.environ.get("LVC_REPO", "/repo").rstrip("/") + "/"
                if any(fs.filename.startswith(repo) for fs in traceback.extract_tb(e.__traceback__)):
                    return dict(reproduced=True, route="R1 (real wrapper on concrete members of its declared spaces)", inputs=dict(wrapper=name, method=m), observed=dict(raised=f"{type(e).__name__}: {e}"[:300]))
                raise
            if r.get("reproduced"):
                return r
        return dict(reproduced=False, note=f"{name}: {len(methods)} component functions agree natively with the inner functions through the declared maps")
    return replay


def _pass_replay(name, m):
    def replay(model):
        mk, build, changes = WRAPPERS[name]

        def make_inputs(rng):
            E = build(mk())
            st_s, a_s = _struct(E)
            return E, kit.concrete_like(st_s, rng), kit.concrete_like(st_s, rng), kit.concrete_like(a_s, rng), jax.random.key(int(rng.randint(1 << 30)))

        def check(E, s, ns, a, k):
            inn = E.env
            am, om, rm = changes.get("action"), changes.get("obs"), changes.get("reward")
            A = (lambda x: x) if am is None else (E.func if am == "rescale" else (lambda x: am(x, inn)))
            O = (lambda x: x) if om is None else (E.func if om == "rescale" else (lambda x: om(x, inn)))
            R = rm or (lambda r: r)
            real = dict(transition=lambda: E.transition(s, a, key=k).env_state, observation=lambda: E.observation(s, key=k), reward=lambda: E.reward(s, a, ns, key=k),
                        terminal=lambda: E.terminal(s, key=k), truncate=lambda: E.truncate(s), transition_info=lambda: E.transition_info(s, a, ns),
                        state_info=lambda: E.state_info(s), initial=lambda: E.initial(key=k).env_state, action_mask=lambda: E.action_mask(s, key=k))
            spec = dict(transition=lambda: inn.transition(s.env_state, A(a), key=k), observation=lambda: O(inn.observation(s.env_state, key=k)),
                        reward=lambda: R(inn.reward(s.env_state, A(a), ns.env_state, key=k)), terminal=lambda: inn.terminal(s.env_state, key=k),
                        truncate=lambda: inn.truncate(s.env_state), transition_info=lambda: inn.transition_info(s.env_state, A(a), ns.env_state),
                        state_info=lambda: inn.state_info(s.env_state), initial=lambda: inn.initial(key=k), action_mask=lambda: (changes.get("mask") or (lambda mm: mm))(inn.action_mask(s.env_state, key=k)))
            r, sp = real[m](), spec[m]()
            return kit.trees_close(r, sp), dict(real=kit.tolist(r), expected=kit.tolist(sp))
        return kit.native_search(check, make_inputs, trials=4, ignore_keys=False)
    return replay


def native_rescale_replay(model):
    """R1: the real rescale_box on the counter-model's box (when finite and ordered), then on a family of asymmetric boxes."""
    cands = []
    try:
        g = lambda nm, i: kit.model_float(model, f"{nm}[{i}]", None)
        for n in (2, 1):
            v = [[g(nm, i) for i in range(n)] for nm in ("low", "high", "min", "max")]
            if all(t is not None for r in v for t in r) and all(v[0][i] < v[1][i] and v[2][i] < v[3][i] for i in range(n)):
                cands.append(tuple(tuple(r) for r in v))
                break
    except Exception:
        pass
    cands += [((-2.0,), (2.0,), (0.0,), (1.0,)), ((0.0, -3.0), (10.0, 5.0), (-1.0, 2.0), (1.0, 3.0)), ((-1.0, -2.0), (1.0, 3.0), (-1.0, -1.0), (1.0, 1.0))]
    # same width, shifted (gradient exactly 1); one dimension same width and one not; identical box (a true no-op)
    cands += [((-2.0,), (2.0,), (0.0,), (4.0,)), ((0.0, -3.0), (10.0, 5.0), (5.0, -1.0), (15.0, 1.0)), ((-1.0, -2.0), (1.0, 3.0), (-1.0, -2.0), (1.0, 3.0))]
    for lo, hi, mn, mx in cands:
        box = Box(jnp.array(lo, f32), jnp.array(hi, f32))
        nb, fwd, bwd = rescale_box(box, jnp.array(mn, f32), jnp.array(mx, f32))
        x = jnp.array([0.3 * (h - l) + l for l, h in zip(lo, hi)], f32)
        obs = dict(forward_low=np.asarray(fwd(box.low)).tolist(), forward_high=np.asarray(fwd(box.high)).tolist(), backward_min=np.asarray(bwd(jnp.array(mn, f32))).tolist(),
                   backward_max=np.asarray(bwd(jnp.array(mx, f32))).tolist(), backward_forward_x=np.asarray(bwd(fwd(x))).tolist(), x=np.asarray(x).tolist(),
                   new_low=np.asarray(nb.low).tolist(), new_high=np.asarray(nb.high).tolist())
        c = lambda a, b: np.allclose(np.asarray(a, np.float64), np.asarray(b, np.float64), rtol=1e-4, atol=1e-4)
        if not (c(obs["forward_low"], mn) and c(obs["forward_high"], mx) and c(obs["backward_min"], lo) and c(obs["backward_max"], hi) and c(obs["backward_forward_x"], obs["x"])
                and c(obs["new_low"], mn) and c(obs["new_high"], mx)):
            return dict(reproduced=True, route="R1 (real rescale_box, concrete box)", inputs=dict(low=lo, high=hi, min=mn, max=mx), observed=obs)
    return dict(reproduced=False, note=f"{len(cands)} concrete boxes: bounds map onto bounds, maps mutually inverse")


def native_rescale_onesided_replay(model):
    """R1: the real RescaleObservation / rescale_box with one-sided target ranges on real bounded boxes: every inner bound and interior point maps into the declared box."""
    inf = float("inf")
    for lo, hi in (((-1.0, -2.0), (1.0, 3.0)), ((0.0, 0.0), (10.0, 5.0))):
        for mn, mx in ((-inf, 0.0), (-inf, -5.0), (2.0, inf), (-inf, inf), ((-inf, 1.0), (0.0, inf))):
            box = Box(jnp.array(lo, f32), jnp.array(hi, f32))
            try:
                nb, fwd, bwd = rescale_box(box, jnp.asarray(mn, f32), jnp.asarray(mx, f32))
            except AssertionError:
                continue
            pts = np.stack([np.array(lo), np.array(hi), 0.5 * (np.array(lo) + np.array(hi))])
            out = np.asarray(jax.vmap(fwd)(jnp.asarray(pts, f32)), np.float64)
            dl, dh = np.asarray(nb.low, np.float64), np.asarray(nb.high, np.float64)
            if np.any(out < dl - 1e-5) or np.any(out > dh + 1e-5):
                return dict(reproduced=True, route="R1 (real rescale_box, one-sided target range)", inputs=dict(low=lo, high=hi, min=mn, max=mx),
                            observed=dict(forward_of_low_high_mid=out.tolist(), declared_low=dl.tolist(), declared_high=dh.tolist()))
    return dict(reproduced=False, note="one-sided target ranges: inner bounds and mid-points map into the declared box")


def rescale_onesided_obligations(S, fn):
    from lvc.extract import fork_paths, eval_traced
    # symbolic part 1b: one-sided target ranges.  Per dimension the target is two-sided (F), lower-unbounded (L: min = -inf), upper-unbounded (U: max = +inf) or unbounded (B); the
    # infinities are concrete, every finite bound symbolic, and the two isfinite masks rescale_box computes are fixed to the pattern (first call: min, second: max).  Declared box =
    # Box(min, max); forward maps every value of the inner box [low, high] INTO it, and backward . forward = id
    import itertools
    pats = [p for p in itertools.product("FLUB", repeat=2) if set(p) != {"F"}]
    for pat in pats:
        pattern = "".join(pat)
        ctx = Ctx()
        n = len(pat)
        low, high, x, mn_s, mx_s = [sym(ctx, nm, sd((n,), f32)) for nm in ("low", "high", "x", "min", "max")]
        mn_fin = np.array([p in "FU" for p in pat])
        mx_fin = np.array([p in "FL" for p in pat])
        masks = itertools.cycle([mn_fin, mx_fin])

        def prog(lo_, hi_, mn_, mx_, x_):
            mn_ = jnp.where(mn_fin, mn_, -jnp.inf)
            mx_ = jnp.where(mx_fin, mx_, jnp.inf)
            nb, fwd, bwd = rescale_box(Box(lo_, hi_), mn_, mx_)
            return nb.low, nb.high, fwd(x_), bwd(fwd(x_))
        with extract.patched((jnp, "isfinite", lambda a_: next(masks))):
            paths = [p for p in fork_paths(prog, (low, high, mn_s, mx_s, x), raises=(AssertionError,)) if p[0] is not None]
        if len(paths) != 1:
            S.fact(f"rescale_box[{pattern}]/one-accepting-path", False, function=fn, what="exactly one accepting path", detail=len(paths))
            continue
        conds, (nlo, nhi, fx, bfx) = eval_traced(ctx, paths[0][0], paths[0][1])
        pc = [ir.seq(c_.scalar(), d_) for c_, d_ in zip(conds, paths[0][2])]
        inner = [z3.And(low.at((i,)) <= x.at((i,)), x.at((i,)) <= high.at((i,)), low.at((i,)) < high.at((i,))) for i in range(n)]
        fin = [z3.And(t.at((i,)) > -ir.INF, t.at((i,)) < ir.INF) for t in (low, high, x, mn_s, mx_s) for i in range(n)] + [ir.INF_AXIOM]
        fin += [mn_s.at((i,)) < mx_s.at((i,)) for i in range(n) if mn_fin[i] and mx_fin[i]]      # a two-sided target of width 0 has no inverse
        goal = []
        for i in range(n):
            if mn_fin[i]:
                goal += [ir.zreal(fx.at((i,))) >= ir.zreal(mn_s.at((i,))), ir.seq(nlo.at((i,)), mn_s.at((i,)))]
            else:
                goal.append(ir.seq(nlo.at((i,)), -ir.INF))
            if mx_fin[i]:
                goal += [ir.zreal(fx.at((i,))) <= ir.zreal(mx_s.at((i,))), ir.seq(nhi.at((i,)), mx_s.at((i,)))]
            else:
                goal.append(ir.seq(nhi.at((i,)), ir.INF))
            goal.append(ir.seq(bfx.at((i,)), x.at((i,))))
        S.prove(f"rescale_box[{pattern}]/forward-maps-the-inner-box-into-the-declared-box", ctx, sand(*goal), hyps=pc + inner + fin, function=fn, nl_budget_ms=5000, replay=native_rescale_onesided_replay,
                what=f"per-dimension target pattern {pattern} (F two-sided, L min=-inf, U max=+inf, B both infinite): the declared box is Box(min, max), every inner value in [low, high] is mapped into it "
                     "(a shift where one side is infinite), and backward undoes forward: RescaleObservation's observations are members of the space it declares")


def _rescale_battery(model):
    for f in (native_rescale_replay, native_rescale_onesided_replay):
        r = f(model)
        if r.get("reproduced"):
            return r
    return dict(reproduced=False, note="rescale_box: bounded and one-sided target ranges map the inner box onto / into the declared box")


def unit_rescale(S):
    """rescale_box on a bounded box: new box = Box(min, max); forward/backward are affine, mutually inverse, and take the
    bounds exactly onto each other (over the reals): backward(min) = low, backward(max) = high, forward(low) = min, forward(high) = max.
    RescaleAction uses backward (new -> original), RescaleObservation uses forward (original -> new)."""
    S.default_replay = _rescale_battery      # also the native witness if rescale_box can no longer be extracted path by path
    fn = "lerax.wrapper.utils:rescale_box"
    S.under_contract(fn, "lerax.wrapper:RescaleAction.__init__", "lerax.wrapper:RescaleObservation.__init__")
    S.note("rescale_box is evaluated eagerly (its isfinite masks index arrays with boolean masks, not traceable); its outputs for "
           "a family of concrete bounded boxes are checked exactly over the rationals - bounded in the choice of boxes, exact per box")
    from fractions import Fraction as Fr
    rng = np.random.RandomState(int(S.seed) + 7)
    boxes = [((-1.0, -2.0), (1.0, 3.0), (-1.0, -1.0), (1.0, 1.0)), ((0.0,), (10.0,), (-1.0,), (1.0,)), ((-3.0, 2.0, 0.5), (-1.0, 4.0, 8.0), (0.0, -5.0, 2.0), (1.0, 5.0, 3.0))]
    for _ in range(5 if S.tier == "quick" else 40):
        n = rng.randint(1, 4)
        lo = np.round(rng.uniform(-8, 8, n), 2)
        hi = lo + np.round(rng.uniform(0.25, 9, n), 2)
        mn = np.round(rng.uniform(-4, 4, n), 2)
        mx = mn + np.round(rng.uniform(0.25, 6, n), 2)
        boxes.append((tuple(lo), tuple(hi), tuple(mn), tuple(mx)))
    bad = []
    for lo, hi, mn, mx in boxes:
        box = Box(jnp.array(lo), jnp.array(hi))
        nb, fwd, bwd = rescale_box(box, jnp.array(mn), jnp.array(mx))
        # symbolic evaluation of the affine maps (exact rational arithmetic on the float32 constants)
        ctx = Ctx()
        x = sym(ctx, "x", sd((len(lo),), f32))
        fx = run(ctx, lambda v: fwd(v), x)
        bx = run(ctx, lambda v: bwd(v), x)
        f32v = lambda t: [Fr(float(np.float32(v))) for v in t]
        LO, HI, MN, MX = f32v(lo), f32v(hi), f32v(mn), f32v(mx)
        sub = lambda arr, vals: [z3.simplify(z3.substitute(ir.zreal(arr.at(i)), *[(x.at(j), ir.zreal(vals[j])) for j in range(len(lo))])) for i in range(len(lo))]
        tol = Fr(1, 10**5)

        def close(terms, vals):
            return all(abs(Fr(t.as_fraction()) - v) <= tol * (1 + abs(v)) for t, v in zip(terms, vals))
        ok = (close(sub(bx, MN), LO) and close(sub(bx, MX), HI) and close(sub(fx, LO), MN) and close(sub(fx, HI), MX)
              and bool(jnp.allclose(nb.low, jnp.array(mn))) and bool(jnp.allclose(nb.high, jnp.array(mx))))
        if not ok:
            bad.append(dict(low=lo, high=hi, min=mn, max=mx))
    S.bounded_check("rescale_box/bounds-onto-bounds", not bad, bound=f"{len(boxes)} concrete bounded boxes (seeded), exact rational evaluation of the extracted affine maps, tolerance 1e-5 for float32 coefficients",
                    function=fn, what="backward(min)=low, backward(max)=high, forward(low)=min, forward(high)=max; new box = Box(min,max)", detail=bad[:3], replay=native_rescale_replay)
    # symbolic part 1: rescale_box itself on arbitrary FINITE bounds (isfinite masks fixed to all-true during the trace; the Python asserts fork the trace)
    from lvc.extract import fork_paths, eval_traced
    for n in (1, 2):
        ctx = Ctx()
        low, high, mn, mx, x = [sym(ctx, nm, sd((n,), f32)) for nm in ("low", "high", "min", "max", "x")]

        def prog(lo_, hi_, mn_, mx_, x_):
            nb, fwd, bwd = rescale_box(Box(lo_, hi_), mn_, mx_)
            return nb.low, nb.high, fwd(x_), bwd(x_), fwd(lo_), fwd(hi_), bwd(mn_), bwd(mx_), bwd(fwd(x_)), fwd(bwd(x_))
        with extract.patched((jnp, "isfinite", lambda a: np.ones(jnp.shape(a), bool))):
            paths = fork_paths(prog, (low, high, mn, mx, x), raises=(AssertionError,))
        okp = [p for p in paths if p[0] is not None]
        S.fact(f"rescale_box[n={n}]/one-accepting-path", len(okp) == 1 and len(paths) == 3, function=fn,
               what="the two Python asserts (min <= max, low <= high) give exactly one accepting path; the others raise AssertionError", detail=[str(p[2]) for p in paths])
        if len(okp) != 1:
            continue
        tr, dyn, decisions = okp[0]
        conds, (nlo, nhi, fx, bx, flo, fhi, bmn, bmx, bfx, fbx) = eval_traced(ctx, tr, dyn)
        pc = [ir.seq(c.scalar(), d) for c, d in zip(conds, decisions)]
        ordered = sand(*[sand(low.at(i) <= high.at(i), mn.at(i) <= mx.at(i)) for i in range(n)])
        S.prove(f"rescale_box[n={n}]/accepts-iff-ordered", ctx, sand(*pc) == ordered, function=fn, what="precondition: the asserts pass iff min <= max and low <= high component-wise")
        strict = [sand(low.at(i) < high.at(i), mn.at(i) < mx.at(i)) for i in range(n)]
        rp = native_rescale_replay
        S.prove(f"rescale_box[n={n}]/new-box-is-min-max", ctx, sand(kit.tree_eq(nlo, mn), kit.tree_eq(nhi, mx)), hyps=pc, function=fn, replay=rp, what="the advertised box is Box(min, max)")
        S.prove(f"rescale_box[n={n}]/forward-maps-bounds-onto-bounds", ctx, sand(kit.tree_eq(flo, mn), kit.tree_eq(fhi, mx)), hyps=pc + strict, function=fn, nl_budget_ms=5000, replay=rp,
                what="for all finite low < high, min < max: forward(low) = min and forward(high) = max (over the reals)")
        S.prove(f"rescale_box[n={n}]/backward-maps-bounds-onto-bounds", ctx, sand(kit.tree_eq(bmn, low), kit.tree_eq(bmx, high)), hyps=pc + strict, function=fn, nl_budget_ms=5000, replay=rp,
                what="backward(min) = low and backward(max) = high")
        S.prove(f"rescale_box[n={n}]/mutually-inverse", ctx, sand(kit.tree_eq(bfx, x), kit.tree_eq(fbx, x)), hyps=pc + strict, function=fn, nl_budget_ms=5000, replay=rp,
                what="backward(forward(x)) = x and forward(backward(x)) = x for every x")
        S.prove(f"rescale_box[n={n}]/monotone-affine", ctx, sand(*[z3.And(ir.zreal(fx.at(i)) - ir.zreal(flo.at(i)) == (ir.zreal(fhi.at(i)) - ir.zreal(flo.at(i))) * ((ir.zreal(x.at(i)) - ir.zreal(low.at(i))) / (ir.zreal(high.at(i)) - ir.zreal(low.at(i))))) for i in range(n)]),
                hyps=pc + strict, function=fn, nl_budget_ms=5000, replay=rp, what="forward is the affine interpolation: (f(x) - f(low)) = (f(high) - f(low)) * (x - low)/(high - low)")
    rescale_onesided_obligations(S, fn)
    # symbolic part 2: the wrappers use the right direction and advertise the right space
    E = inner_env()
    ra = W.RescaleAction(E)
    ctx = Ctx()
    a = sym(ctx, "a", sd((2,), f32))
    fa = run(ctx, lambda v: ra.func(v), a)
    # affine and exact at the corners over the reals up to float32 coefficient rounding: checked as |f(min) - low| tiny
    lows, highs = [-1.0, -2.0], [1.0, 3.0]
    corner_lo = [z3.simplify(z3.substitute(ir.zreal(fa.at(i)), (a.at(0), z3.RealVal(-1)), (a.at(1), z3.RealVal(-1)))) for i in range(2)]
    corner_hi = [z3.simplify(z3.substitute(ir.zreal(fa.at(i)), (a.at(0), z3.RealVal(1)), (a.at(1), z3.RealVal(1)))) for i in range(2)]
    okc = all(abs(float(c.as_fraction()) - l) < 1e-5 for c, l in zip(corner_lo, lows)) and all(abs(float(c.as_fraction()) - h) < 1e-5 for c, h in zip(corner_hi, highs))
    S.fact("RescaleAction/maps-new-bounds-onto-original", okc and bool(jnp.all(ra.action_space.low == -1.0)) and bool(jnp.all(ra.action_space.high == 1.0)),
           function="lerax.wrapper:RescaleAction.__init__", what="RescaleAction(min=-1,max=1): advertised Box(-1,1); func(-1) = low and func(1) = high of the inner box (direction new -> original)",
           detail=dict(f_min=[str(c) for c in corner_lo], f_max=[str(c) for c in corner_hi]), replay=native_rescale_replay)
    # affinity: f(x) - f(0) is linear: second differences vanish
    ctx2 = Ctx()
    u = sym(ctx2, "u", sd((2,), f32))
    v = sym(ctx2, "v", sd((2,), f32))
    fu, fv = run(ctx2, lambda t: ra.func(t), u), run(ctx2, lambda t: ra.func(t), v)
    fm = run(ctx2, lambda p, q: ra.func((p + q) / 2), u, v)
    S.prove("RescaleAction/affine", ctx2, sand(*[ir.seq(fm.at(i), (ir.zreal(fu.at(i)) + ir.zreal(fv.at(i))) / 2) for i in range(2)]), function="lerax.wrapper:RescaleAction.__init__",
            what="the action map is affine: f((u+v)/2) = (f(u)+f(v))/2 for all u, v")
    ro = W.RescaleObservation(E)
    ctx3 = Ctx()
    o = sym(ctx3, "o", sd((2,), f32))
    fo = run(ctx3, lambda t: ro.func(t), o)
    ilo, ihi = [-2.0, 0.0], [2.0, 5.0]
    c_lo = [z3.simplify(z3.substitute(ir.zreal(fo.at(i)), *[(o.at(j), ir.zreal(__import__('fractions').Fraction(ilo[j]))) for j in range(2)])) for i in range(2)]
    c_hi = [z3.simplify(z3.substitute(ir.zreal(fo.at(i)), *[(o.at(j), ir.zreal(__import__('fractions').Fraction(ihi[j]))) for j in range(2)])) for i in range(2)]
    oko = all(abs(float(c.as_fraction()) + 1.0) < 1e-5 for c in c_lo) and all(abs(float(c.as_fraction()) - 1.0) < 1e-5 for c in c_hi)
    S.fact("RescaleObservation/maps-original-bounds-onto-new", oko and bool(jnp.all(ro.observation_space.low == -1.0)) and bool(jnp.all(ro.observation_space.high == 1.0)),
           function="lerax.wrapper:RescaleObservation.__init__", what="RescaleObservation: func(inner low) = -1, func(inner high) = 1; advertised Box(-1,1)")


def native_timelimit_replay(model):
    """R1: TimeLimit(N) over a deterministic generic environment (pseudo-random terminal / truncate flags) driven through the functional API: for every step j the truncate flag must be
    inner.truncate or (j >= N), whatever the inner terminal flag says - including histories whose termination coincides with step N (all four flag combinations are forced)."""
    from lvc import opaque
    old_ik, old_ov = opaque.IGNORE_KEYS, dict(opaque.OVERRIDES)
    opaque.IGNORE_KEYS = True
    try:
        for N in (1, 2, 3, 5):
            for term_at_N in (False, True):
                for inner_trunc in (False, True):
                    E = W.TimeLimit(inner_env(), N)
                    with jax.disable_jit():
                        s = E.initial(key=jax.random.key(0))
                        for j in range(1, N + 3):
                            s = E.transition(s, jnp.zeros((2,)), key=jax.random.key(j))
                            opaque.OVERRIDES["env.terminal"] = [np.asarray(term_at_N and j == N)]
                            opaque.OVERRIDES["env.truncate"] = [np.asarray(inner_trunc and j == N - 1)]
                            got = bool(E.truncate(s))
                            exp = (inner_trunc and j == N - 1) or j >= N
                            if got != exp or int(s.step_count) != j:
                                return dict(reproduced=True, route="R1 (real TimeLimit over a generic environment with forced inner flags, functional API, eager)",
                                            inputs=dict(N=N, step=j, inner_terminal_at_this_step=bool(term_at_N and j == N), inner_truncate_at_this_step=bool(inner_trunc and j == N - 1)),
                                            observed=dict(truncate=got, expected=exp, step_count=int(s.step_count)))
        return dict(reproduced=False, note="N in {1,2,3,5} x inner terminal at step N x inner truncation: truncation raised exactly from step N on (or when the inner env truncates)")
    finally:
        opaque.IGNORE_KEYS = old_ik
        opaque.OVERRIDES.clear()
        opaque.OVERRIDES.update(old_ov)


def timelimit_ctor_obligation(S):
    """the limit the wrapper enforces is the one it was constructed with (stacks whose leaves are made symbolic bypass __init__)"""
    fn = "lerax.wrapper.misc:TimeLimit"
    ctxc = Ctx()
    n_in = sym(ctxc, "max_episode_steps", sd((), jnp.int32))
    stored = run(ctxc, lambda n_: jnp.asarray(W.TimeLimit(inner_env(), n_).max_episode_steps), n_in)
    S.prove("TimeLimit.__init__/stores-the-limit", ctxc, ir.seq(stored.scalar(), n_in.scalar()), function=fn + ".__init__", replay=native_timelimit_replay,
            what="for every integer N: TimeLimit(env, N).max_episode_steps == N")


def unit_timelimit(S):
    """TimeLimit(N): ghost c = number of transitions since initial.  Inv: step_count = c.  truncate(s) = inner.truncate(s.env_state) or c >= N."""
    fn = "lerax.wrapper.misc:TimeLimit"
    S.under_contract(fn + ".transition", fn + ".truncate", fn + ".initial")
    ctx = Ctx()
    E0 = W.TimeLimit(inner_env(), 7)
    env_in = sym(ctx, "env", E0)
    N = env_in.max_episode_steps.scalar()
    st_s, a_s = _struct(E0)
    s = sym(ctx, "s", st_s)
    a = sym(ctx, "a", a_s)
    k, kc = kit.key_input("key")
    timelimit_ctor_obligation(S)
    ns = run(ctx, lambda e, s_, a_, kk: e.transition(s_, a_, key=kk), env_in, s, a, k)
    S.prove("TimeLimit.transition/count-increments", ctx, ir.seq(ns.step_count.scalar(), s.step_count.scalar() + 1), replay=native_timelimit_replay, function=fn + ".transition",
            what="every transition advances the episode clock by exactly one")
    tr = run(ctx, lambda e, s_: e.truncate(s_), env_in, s)
    itr = run(ctx, lambda e, s_: e.env.truncate(s_.env_state), env_in, s)
    S.prove("TimeLimit.truncate/exact", ctx, tr.scalar() == z3.Or(itr.scalar(), s.step_count.scalar() >= N), replay=native_timelimit_replay, function=fn + ".truncate",
            what="truncate(s) = inner.truncate(s.env_state) or step_count >= N")
    s0 = run(ctx, lambda e, kk: e.initial(key=kk), env_in, k)
    S.prove("TimeLimit.initial/count-zero", ctx, ir.seq(s0.step_count.scalar(), 0), replay=native_timelimit_replay, function=fn + ".initial", what="the clock restarts at 0 on reset")
    # lemma over the three contracts (inner env never truncates): along any history the first truncated state is the one after exactly N transitions
    c, j = z3.Ints("c j")
    cnt = z3.Function("count", z3.IntSort(), z3.IntSort())  # count after j transitions
    lemma_h = [N >= 1, cnt(0) == 0, z3.ForAll([j], z3.Implies(j >= 0, cnt(j + 1) == cnt(j) + 1))]
    S.prove("TimeLimit/lemma-count-is-number-of-steps(step)", Ctx(), z3.Implies(cnt(j) == j, cnt(j + 1) == j + 1), hyps=[j >= 0, cnt(j + 1) == cnt(j) + 1], function=fn,
            what="loop rule: Inv(j): count = j is preserved by transition (initiation by initial/count-zero)")
    S.prove("TimeLimit/lemma-exactly-Nth-step", Ctx(), z3.And(z3.Implies(z3.And(c >= 0, c < N), z3.Not(c >= N)), z3.Implies(c == N, c >= N)), hyps=[N >= 1], function=fn,
            what="with count = number of transitions: no truncation after fewer than N steps, truncation after exactly N (never earlier or later), for every N >= 1")


def unit_gymnax(S):
    """GymnaxToLeraxEnv: each component is the corresponding projection of the adapted env's step_env / reset_env result.
    LeraxToGymnaxEnv: step_env/reset_env delegate to the lerax env's step / initial+observation; done = term | trunc; time+1."""
    from lerax.compatibility import gymnax as GX
    fn = "lerax.compatibility.gymnax:GymnaxToLeraxEnv"
    S.under_contract(fn + ".initial", fn + ".transition", fn + ".observation", fn + ".reward", fn + ".terminal", fn + ".truncate",
                     "lerax.compatibility.gymnax:LeraxToGymnaxEnv.step_env", "lerax.compatibility.gymnax:LeraxToGymnaxEnv.reset_env")

    class FakeGymnax:
        name = "fake"

        def action_space(self, params):
            from gymnax.environments import spaces
            return spaces.Discrete(3)

        def observation_space(self, params):
            from gymnax.environments import spaces
            return spaces.Box(-1.0, 1.0, (2,), jnp.float32)

        def reset_env(self, key, params):
            obs, st = opaque.ocall("gx.reset_env", (sd((2,), f32), sd((3,), f32)), key)
            return obs, st

        def step_env(self, key, state, action, params):
            obs, st, r, d = opaque.ocall("gx.step_env", (sd((2,), f32), sd((3,), f32), sd((), f32), sd((), jnp.bool_)), key, state, action)
            return obs, st, r, d, {}

    env = GX.GymnaxToLeraxEnv(FakeGymnax(), None)
    ctx = Ctx()
    k, kc = kit.key_input("key")
    s0 = run(ctx, lambda kk: env.initial(key=kk), k)
    ro, rs = run(ctx, lambda kk: opaque.ocall("gx.reset_env", (sd((2,), f32), sd((3,), f32)), kk), k)
    S.prove("GymnaxToLerax.initial/is-reset_env", ctx, sand(kit.tree_eq(s0.env_state, rs), kit.tree_eq(s0.observation, ro), ir.seq(s0.terminal.scalar(), False)), function=fn + ".initial",
            what="initial(key) holds exactly reset_env(key)'s state and observation, not terminal")
    st_s = jax.eval_shape(lambda kk: env.initial(key=kk), jax.random.key(0))
    s = sym(ctx, "s", st_s)
    a = sym(ctx, "a", sd((), jnp.int32))
    ns = run(ctx, lambda s_, a_, kk: env.transition(s_, a_, key=kk), s, a, k)
    o2, st2, r2, d2 = run(ctx, lambda s_, a_, kk: opaque.ocall("gx.step_env", (sd((2,), f32), sd((3,), f32), sd((), f32), sd((), jnp.bool_)), kk, s_.env_state, a_), s, a, k)
    S.prove("GymnaxToLerax.transition/is-step_env", ctx, sand(kit.tree_eq(ns.env_state, st2), kit.tree_eq(ns.observation, o2), ir.seq(ns.reward.scalar(), r2.scalar()), ir.seq(ns.terminal.scalar(), d2.scalar())),
            function=fn + ".transition", what="transition(s, a, key) stores exactly step_env(key, s.env_state, a)'s (obs, state, reward, done)")
    obs = run(ctx, lambda s_, kk: env.observation(s_, key=kk), ns, k)
    rew = run(ctx, lambda s_, a_, n_, kk: env.reward(s_, a_, n_, key=kk), s, a, ns, k)
    ter = run(ctx, lambda n_, kk: env.terminal(n_, key=kk), ns, k)
    tru = run(ctx, lambda n_: env.truncate(n_), ns)
    S.prove("GymnaxToLerax/components-are-projections", ctx, sand(kit.tree_eq(obs, o2), ir.seq(rew.scalar(), r2.scalar()), ir.seq(ter.scalar(), d2.scalar()), ir.seq(tru.scalar(), False)),
            function=fn, what="observation / reward / terminal of the successor are the adapted env's own obs / reward / done; truncation is never raised (documented)")
    # LeraxToGymnaxEnv
    E = inner_discrete()
    ctx = Ctx()
    env_in = sym(ctx, "env", E)
    es = sym(ctx, "es", sd((2,), f32))
    t, tc = kit.int_scalar("time")
    a = sym(ctx, "a", sd((), jnp.int32))
    k, kc = kit.key_input("key")

    def do_step(e, x, tt, a_, kk):
        g = GX.LeraxToGymnaxEnv(e)
        o, st, r, d, info = g.step_env(kk, GX.LeraxEnvState(env_state=GState(x), time=tt), a_, GX.LeraxEnvParams())
        return o, st.env_state, st.time, r, d, info
    o, st, t2, r, d, info = run(ctx, do_step, env_in, es, t, a, k)
    sp = run(ctx, lambda e, x, a_, kk: e.step(GState(x), a_, key=kk), env_in, es, a, k)
    S.prove("LeraxToGymnax.step_env/delegates", ctx, sand(kit.tree_eq(st, sp[0]), kit.tree_eq(o, sp[1]), ir.seq(r.scalar(), sp[2].scalar()),
                                                          d.scalar() == z3.Or(sp[3].scalar(), sp[4].scalar()), kit.tree_eq(info, sp[5]), ir.seq(t2.scalar(), tc + 1)),
            function="lerax.compatibility.gymnax:LeraxToGymnaxEnv.step_env", what="step_env = env.step with the same key; done = terminated | truncated; time + 1")

    def do_reset(e, kk):
        g = GX.LeraxToGymnaxEnv(e)
        o, st = g.reset_env(kk, GX.LeraxEnvParams())
        return o, st.env_state, st.time
    o, st, t0 = run(ctx, do_reset, env_in, k)
    hs, holes = kit.holes_for(ctx, {"k1": "env.initial", "k2": "env.observation"}, kc)
    sp = run(ctx, lambda e, k1, k2: (lambda s_: (e.observation(s_, key=k2), s_))(e.initial(key=k1)), env_in, hs["k1"], hs["k2"])
    S.prove("LeraxToGymnax.reset_env/initial-and-its-observation", ctx, sand(kit.tree_eq(o, sp[0]), kit.tree_eq(st, sp[1]), ir.seq(t0.scalar(), 0)), holes=holes,
            function="lerax.compatibility.gymnax:LeraxToGymnaxEnv.reset_env", what="reset_env returns env.initial(k1), its own observation, time 0")


def unit_gym(S):
    """GymToLeraxEnv: transition forwards the action to env.step through ONE ordered io_callback and stores its (obs, reward, terminated,
    truncated); observation/reward/terminal/truncate are projections of that result."""
    from lerax.compatibility import gym as G
    fn = "lerax.compatibility.gym:GymToLeraxEnv"
    S.under_contract(fn + ".transition", fn + ".initial", fn + ".observation", fn + ".reward", fn + ".terminal", fn + ".truncate")
    import gymnasium
    calls = []

    def io_stub(cb, result_shape, *args, ordered=False, **kw):
        calls.append(dict(ordered=ordered))
        struct = jax.tree.map(lambda x: sd(jnp.shape(x), jnp.asarray(x).dtype), result_shape)
        return opaque.ocall(f"gym.io#{len(calls)}", struct, *args)

    class FakeGym:
        action_space = gymnasium.spaces.Discrete(3)
        observation_space = gymnasium.spaces.Box(-1.0, 1.0, (2,), np.float32)

    with extract.patched((G, "io_callback", io_stub)):
        env = G.GymToLeraxEnv(FakeGym())
        ctx = Ctx()
        s = sym(ctx, "s", G.GymEnvState(sd((2,), f32), sd((), f32), sd((), jnp.bool_), sd((), jnp.bool_)))
        a = sym(ctx, "a", sd((), jnp.int32))
        k, kc = kit.key_input("key")
        ns = run(ctx, lambda s_, a_, kk: env.transition(s_, a_, key=kk), s, a, k)
        n_step_calls = len(calls)
        ordered = all(c["ordered"] for c in calls)
        io = [c for c in ctx.calls if c.name.startswith("gym.io#")]
        S.fact("GymToLerax.transition/one-ordered-io-callback", n_step_calls == 1 and ordered and len(io) == 1, function=fn + ".transition",
               what="exactly one io_callback with ordered=True per transition (steps reach the Gymnasium env in program order)")
        if len(io) == 1:
            c = io[0]
            S.prove("GymToLerax.transition/forwards-action-stores-result", ctx, sand(kit.arr_eq_at(c.operands[0], a, ()), kit.arr_eq_at(ns.observation, c.outputs[0], ()),
                                                                                      ir.seq(ns.reward.scalar(), c.outputs[1].scalar()), ir.seq(ns.terminal.scalar(), c.outputs[2].scalar()),
                                                                                      ir.seq(ns.truncated.scalar(), c.outputs[3].scalar())), function=fn + ".transition",
                    what="the callback receives the action; the successor state stores the adapted env's (obs, reward, terminated, truncated) unchanged")
        obs = run(ctx, lambda n_, kk: env.observation(n_, key=kk), ns, k)
        rew = run(ctx, lambda s_, a_, n_, kk: env.reward(s_, a_, n_, key=kk), s, a, ns, k)
        ter = run(ctx, lambda n_, kk: env.terminal(n_, key=kk), ns, k)
        tru = run(ctx, lambda n_: env.truncate(n_), ns)
        S.prove("GymToLerax/components-are-projections", ctx, sand(kit.tree_eq(obs, ns.observation), ir.seq(rew.scalar(), ns.reward.scalar()), ir.seq(ter.scalar(), ns.terminal.scalar()),
                                                                     ir.seq(tru.scalar(), ns.truncated.scalar())), function=fn,
                what="observation / reward / terminal / truncate are the stored fields of the successor state")

        # initial: the seed handed to env.reset - an explicit seed (0 included) overrides the key; otherwise a seed drawn from the key
        for seed in (0, 7, None):
            calls.clear()
            ctx2 = Ctx()
            k2, kc2 = kit.key_input("key")
            with extract.patched((jr, "randint", lambda key, shape, minval, maxval, dtype=int: opaque.ocall("randint", sd(tuple(shape), jnp.int32), key))):
                st0 = run(ctx2, (lambda kk: env.initial(key=kk)) if seed is None else (lambda kk, seed=seed: env.initial(key=kk, seed=seed)), k2)
            io0 = [c_ for c_ in ctx2.calls if c_.name.startswith("gym.io#")]
            tag = f"GymToLerax.initial[seed={seed}]"
            S.fact(f"{tag}/one-ordered-reset-callback", len(io0) == 1 and all(c_["ordered"] for c_ in calls), function=fn + ".initial", replay=native_gym_seed_replay, what="one ordered io_callback resets the Gymnasium env")
            if len(io0) == 1:
                sv = io0[0].operands[0].scalar()
                if seed is None:
                    from lvc.vc import term_contains
                    S.fact(f"{tag}/seed-drawn-from-the-key", ir.is_z3(sv) and term_contains(sv, kc2), function=fn + ".initial", replay=native_gym_seed_replay, what="without an explicit seed the reset seed is derived from the key")
                else:
                    S.fact(f"{tag}/explicit-seed-overrides-the-key", (not ir.is_z3(sv)) and int(sv) == seed, function=fn + ".initial", replay=native_gym_seed_replay,
                           what="an explicit seed - 0 included - is the seed handed to env.reset, whatever the key", detail=str(sv))
                S.prove(f"{tag}/state-holds-the-reset-observation", ctx2, sand(kit.tree_eq(st0.observation, io0[0].outputs[0]), ir.seq(st0.reward.scalar(), 0), ir.seq(st0.terminal.scalar(), False), ir.seq(st0.truncated.scalar(), False)),
                        function=fn + ".initial", replay=native_gym_seed_replay, what="the initial state holds the reset observation, reward 0 and both flags False")


def native_gym_seed_replay(model):
    """R1: the real GymToLeraxEnv over Gymnasium CartPole-v1: initial(key, seed=s) must give Gymnasium's own reset(seed=s) observation for s in {0, 1, 7}, under two different keys;
    without a seed, two different keys give different resets and the same key the same one."""
    import gymnasium
    from lerax.compatibility import gym as G
    genv = gymnasium.make("CartPole-v1")
    env = G.GymToLeraxEnv(genv)
    ref = gymnasium.make("CartPole-v1")
    for s in (0, 1, 7):
        exp, _ = ref.reset(seed=s)
        for ks in (0, 5):
            got = np.asarray(env.initial(key=jax.random.key(ks), seed=s).observation)
            if not np.allclose(got, exp, atol=1e-6):
                return dict(reproduced=True, route="R1 (real GymToLeraxEnv over gymnasium CartPole-v1)", inputs=dict(seed=s, key_seed=ks), observed=dict(adapter_reset_observation=got.tolist(), gymnasium_reset_observation=np.asarray(exp).tolist()))
    a = np.asarray(env.initial(key=jax.random.key(1)).observation)
    b = np.asarray(env.initial(key=jax.random.key(2)).observation)
    a2 = np.asarray(env.initial(key=jax.random.key(1)).observation)
    if np.allclose(a, b) or not np.allclose(a, a2):
        return dict(reproduced=True, route="R1 (real GymToLeraxEnv over gymnasium CartPole-v1)", inputs=dict(keys=[1, 2, 1]), observed=dict(obs_key1=a.tolist(), obs_key2=b.tolist(), obs_key1_again=a2.tolist()))
    return dict(reproduced=False, note="explicit seeds (0 included) reproduce Gymnasium's resets; key-derived seeds are a function of the key")


def _lerax_to_gym(S):
    """the LeraxToGymEnv adapter (contract stated in C01: step / reset delegate to env.step / env.reset on (state, key), seeded resets determine the episode, no hidden state):
    together with C01's step contract this is 'the adapter reproduces the trajectory of the environment it adapts'"""
    from contracts import C01
    C01.unit_gym_adapter(S)


def _step_through(stack):
    """`step` of a wrapper stack (the shared AbstractEnvLike.step every wrapper inherits; contract stated in C01): the flags step reports are terminal / truncate of the transition
    taken, so TimeLimit(N) raises truncation through `step` at exactly the N-th step, also when the inner environment terminates on that very step"""
    def unit(S):
        from contracts import C01
        C01.unit_stack(stack)(S)
    return unit


UNITS = [("constructible", unit_constructible)] + [(f"pass:{n}", unit_passthrough(n)) for n in WRAPPERS] + \
        [("rescale", unit_rescale), ("timelimit", unit_timelimit), ("gymnax", unit_gymnax), ("gym", unit_gym), ("lerax-to-gym", _lerax_to_gym)] + \
        [(f"step:{s}", _step_through(s)) for s in ("TimeLimit", "TimeLimit-discrete-masked", "ClipReward(TimeLimit)", "Flatten(Rescale(TimeLimit))", "TimeLimit(TimeLimit)")]
