"""C07 - TD targets bootstrap through truncation, never through termination.

Under contract: DQN.dqn_loss, DQN.dqn_loss_grad, DQN.dqn_train, DQN.train; SAC.sac_train (incl. its inner compute_target),
SAC.q_loss, SAC.actor_loss, SAC.alpha_loss.
Batch size B symbolic; Q policy / SAC policy / critics generic (uninterpreted, differentiable); optimisers generic.
Gradient frame clauses are decided on the extracted gradient programs, where every reverse-mode use of a collaborator
shows up as an opaque `vjp:<name>` call: which network is differentiated, at which inputs, is read off those calls.
"""
from __future__ import annotations

import equinox as eqx
import jax
import jax.numpy as jnp
import numpy as np
import z3

from lerax.algorithm import DQN, SAC
from lerax.algorithm import sac as SACM
from lerax.buffer import ReplayBuffer
from lerax.space import Box, Discrete

from lvc import kit, ir, extract, opaque
from lvc.extract import run, sym, symbolic_dims
from lvc.generic import GenericQPolicy, GenericSACPolicy, GPState
from lvc.kit import Ctx, sand
from lvc.opaque import dcall, ocall

PROPERTY = "C07"
TRUSTED = ["A-PURE", "A-REAL", "A-XLA incl. jax reverse-mode autodiff (custom_vjp of the generic collaborators: a `vjp:` call is issued exactly where a cotangent reaches the collaborator)",
           "A-OPTAX: optimisers are generic objects (update is an uninterpreted function of gradients, state, params); apply_updates(p, u) = p + u is traced through",
           "ReplayBuffer.sample abstracted by its contract (C06): returns stored rows; here the batch is an arbitrary symbolic batch",
           "reduction congruence for means over the symbolic batch"]
ASSUMPTIONS = ["batch size B >= 1 symbolic; 3 discrete actions for DQN; observation f32[2], action f32[2] for SAC"]
DROPS = ["D1: autotune enumerated"]
NOT_DECIDED = []
sd = jax.ShapeDtypeStruct
f32 = jnp.float32
OBS = Box(-jnp.ones((2,)), jnp.ones((2,)))
F_DQN = "lerax.algorithm.dqn:DQN.dqn_loss"
F_DQNG = "lerax.algorithm.dqn:DQN.dqn_loss_grad"
F_DQNT = "lerax.algorithm.dqn:DQN.dqn_train"
F_SACT = "lerax.algorithm.sac:SAC.sac_train"


def dqn_batch_struct(B):
    return jax.eval_shape(lambda h: ReplayBuffer(B, OBS, Discrete(3), GPState(h)), sd((1,), f32))


def spec_dqn_loss(policy, batch, target_policy, gamma):
    """Double DQN: y = r + gamma*(1-terminated)*Q_target(s')[argmax_a Q_online(s')], loss = mean((Q_online(s)[a] - y)^2)/2,
    terminated = done and not timeout."""
    _, q = jax.vmap(policy.q_values)(batch.states, batch.observations)
    a = batch.actions.astype(int)
    q_taken = jnp.take_along_axis(q, a[:, None], axis=1)[:, 0]
    _, q_next_online = jax.vmap(policy.q_values)(batch.next_states, batch.next_observations)
    greedy = jnp.argmax(q_next_online, axis=-1)
    _, q_next_target = jax.vmap(target_policy.q_values)(batch.next_states, batch.next_observations)
    v_next = jnp.take_along_axis(q_next_target, greedy[:, None], axis=1)[:, 0]
    terminated = batch.dones & ~batch.timeouts
    y = batch.rewards + gamma * (1.0 - terminated.astype(float)) * v_next
    return jnp.mean(jnp.square(q_taken - y)) / 2


def native_dqn_replay(model):
    """R1: real dqn_loss with real MLPQPolicy networks vs the published target computed in numpy, all four (done, timeout) combinations."""
    from lerax.policy import MLPQPolicy
    from lvc.generic import GenericEnv
    E = GenericEnv(Discrete(3), observation_space=OBS)
    for tied in (False, True):
        r = _native_dqn_replay_one(E, tied)
        if r.get("reproduced"):
            return r
    rs = _native_dqn_replay_stateful()
    return rs if rs.get("reproduced") else r


def _native_dqn_replay_stateful():
    """R1 with STATEFUL Q-policies (the replay buffer stores policy states for them): the generic collaborators evaluated natively (a fixed pseudo-random function of parameters,
    policy state and observation), states != next_states; the real dqn_loss against the published target evaluated by the same JAX."""
    from lvc.generic import GenericQPolicy, GPState, PS_DIM
    rng = np.random.RandomState(5)
    B = 8
    pol = GenericQPolicy(Discrete(3), OBS, tag="q", theta=jnp.asarray([0.3, -0.7], f32))
    tgt = GenericQPolicy(Discrete(3), OBS, tag="q", theta=jnp.asarray([1.1, 0.2], f32))
    rb = ReplayBuffer(B, OBS, Discrete(3), GPState(jnp.zeros((PS_DIM,), f32)))
    rb = eqx.tree_at(lambda b: (b.observations, b.next_observations, b.actions, b.rewards, b.dones, b.timeouts, b.states, b.next_states), rb,
                     (jnp.asarray(rng.randn(B, 2), f32), jnp.asarray(rng.randn(B, 2), f32), jnp.asarray(rng.randint(0, 3, B)), jnp.asarray(rng.randn(B), f32),
                      jnp.asarray([0, 0, 1, 1, 0, 1, 1, 0], bool), jnp.asarray([0, 1, 0, 1, 0, 0, 1, 1], bool),
                      GPState(jnp.asarray(rng.randn(B, PS_DIM), f32)), GPState(jnp.asarray(rng.randn(B, PS_DIM), f32))))
    gamma = 0.9
    got = float(DQN.dqn_loss(pol, rb, tgt, gamma))
    exp = float(spec_dqn_loss(pol, rb, tgt, gamma))
    if not abs(got - exp) <= 1e-4 * (1 + abs(exp)):
        return dict(reproduced=True, route="R1 (real dqn_loss, stateful Q-policies with policy state != next policy state)",
                    inputs=dict(dones=np.asarray(rb.dones).tolist(), timeouts=np.asarray(rb.timeouts).tolist(), gamma=gamma, policy="stateful (generic collaborator evaluated natively)"),
                    observed=dict(loss=got, published=exp))
    return dict(reproduced=False, note="native loss agrees with the published Double-DQN target with stateful Q-policies")


def _native_dqn_replay_one(E, tied):
    from lerax.policy import MLPQPolicy
    pol = MLPQPolicy(E, width_size=8, depth=1, key=jax.random.key(0))
    tgt = MLPQPolicy(E, width_size=8, depth=1, key=jax.random.key(1))
    if tied:   # exactly tied online Q-values at every state (zeroed output layer): the greedy action is the FIRST arg-max, one action
        leaves, td = jax.tree.flatten(pol)
        arr = [i for i, l in enumerate(leaves) if eqx.is_inexact_array(l)]
        for i in arr[-2:]:
            leaves[i] = jnp.zeros_like(leaves[i])
        pol = jax.tree.unflatten(td, leaves)
    rng = np.random.RandomState(2)
    B = 8
    rb = ReplayBuffer(B, OBS, Discrete(3), None)
    rb = eqx.tree_at(lambda b: (b.observations, b.next_observations, b.actions, b.rewards, b.dones, b.timeouts), rb,
                     (jnp.asarray(rng.randn(B, 2), f32), jnp.asarray(rng.randn(B, 2), f32), jnp.asarray(rng.randint(0, 3, B)), jnp.asarray(rng.randn(B), f32),
                      jnp.asarray([0, 0, 1, 1, 0, 1, 1, 0], bool), jnp.asarray([0, 1, 0, 1, 0, 0, 1, 1], bool)))
    gamma = 0.9
    got = float(DQN.dqn_loss(pol, rb, tgt, gamma))
    q = np.asarray(jax.vmap(lambda o: pol.q_values(None, o)[1])(rb.observations))
    qn = np.asarray(jax.vmap(lambda o: pol.q_values(None, o)[1])(rb.next_observations))
    qt = np.asarray(jax.vmap(lambda o: tgt.q_values(None, o)[1])(rb.next_observations))
    a = np.asarray(rb.actions)
    term = np.asarray(rb.dones) & ~np.asarray(rb.timeouts)
    y = np.asarray(rb.rewards) + gamma * (1 - term.astype(np.float32)) * qt[np.arange(B), qn.argmax(1)]
    exp = float(np.mean((q[np.arange(B), a] - y) ** 2) / 2)
    if abs(got - exp) > 1e-4 * (1 + abs(exp)):
        return dict(reproduced=True, route="R1", inputs=dict(dones=np.asarray(rb.dones).tolist(), timeouts=np.asarray(rb.timeouts).tolist(), gamma=gamma, online_q_values_tied=tied),
                    observed=dict(loss=got, published=exp))
    return dict(reproduced=False, note="native loss agrees with the published Double-DQN target on all done/timeout combinations")


def native_dqn_grad_replay(entry):
    """R1: gradient (dqn_loss_grad) / SGD update (train) of the real code with real MLPQPolicy networks vs the semi-gradient of the published loss
    (targets held constant: jax.lax.stop_gradient around y, target network = the policy passed as target)."""
    def replay(model):
        import optax
        from lerax.policy import MLPQPolicy
        from lvc.generic import GenericEnv
        E = GenericEnv(Discrete(3), observation_space=OBS)
        pol = MLPQPolicy(E, width_size=8, depth=1, key=jax.random.key(0))
        tgt = MLPQPolicy(E, width_size=8, depth=1, key=jax.random.key(1))
        rng = np.random.RandomState(3)
        B, gamma = 8, 0.9
        rb = ReplayBuffer(B, OBS, Discrete(3), None)
        rb = eqx.tree_at(lambda b: (b.observations, b.next_observations, b.actions, b.rewards, b.dones, b.timeouts), rb,
                         (jnp.asarray(rng.randn(B, 2), f32), jnp.asarray(rng.randn(B, 2), f32), jnp.asarray(rng.randint(0, 3, B)), jnp.asarray(rng.randn(B), f32),
                          jnp.asarray([0, 0, 1, 1, 0, 1, 1, 0], bool), jnp.asarray([0, 1, 0, 1, 0, 0, 1, 1], bool)))

        def semi(p, t, g):
            def loss(pp):
                _, q = jax.vmap(pp.q_values)(rb.states, rb.observations)
                qa = jnp.take_along_axis(q, rb.actions.astype(int)[:, None], axis=1)[:, 0]
                _, qn = jax.vmap(p.q_values)(rb.next_states, rb.next_observations)       # constants: not the differentiated copy
                _, qt = jax.vmap(t.q_values)(rb.next_states, rb.next_observations)
                v = jnp.take_along_axis(qt, jnp.argmax(qn, -1)[:, None], axis=1)[:, 0]
                y = jax.lax.stop_gradient(rb.rewards + g * (1.0 - (rb.dones & ~rb.timeouts).astype(float)) * v)
                return jnp.mean(jnp.square(qa - y)) / 2
            return eqx.filter_grad(loss)(p)

        if entry == "dqn_loss_grad":
            _, got = DQN.dqn_loss_grad(pol, rb, tgt, gamma)
            exp = semi(pol, tgt, gamma)
        else:
            algo = DQN(num_envs=1, buffer_size=8, learning_starts=2, batch_size=4, gamma=gamma)
            algo = eqx.tree_at(lambda a: a.optimizer, algo, optax.sgd(1.0))
            ost = algo.optimizer.init(eqx.filter(pol, eqx.is_inexact_array))
            with extract.patched((ReplayBuffer, "sample", lambda self, n, *, key: self)):
                newp, _, _ = algo.train(pol, ost, rb, key=jax.random.key(0))
            got = jax.tree.map(lambda a, b: a - b, eqx.filter(pol, eqx.is_inexact_array), eqx.filter(newp, eqx.is_inexact_array))
            exp = semi(pol, pol, gamma)      # DQN.train: the target network is the online network, held constant
        gl, el = jax.tree.leaves(eqx.filter(got, eqx.is_inexact_array)), jax.tree.leaves(eqx.filter(exp, eqx.is_inexact_array))
        err = max(float(jnp.max(jnp.abs(a - b))) for a, b in zip(gl, el))
        scale = max(float(jnp.max(jnp.abs(b))) for b in el)
        if err > 1e-4 * (1 + scale):
            return dict(reproduced=True, route="R1 (real MLPQPolicy networks, real autodiff; SGD(1.0) for train, ReplayBuffer.sample = identity)",
                        inputs=dict(B=B, gamma=gamma, dones=np.asarray(rb.dones).tolist(), timeouts=np.asarray(rb.timeouts).tolist(), seed=3),
                        observed=dict(max_abs_gradient_difference=err, semi_gradient_scale=scale))
        return dict(reproduced=False, note="native gradient equals the semi-gradient of the published loss")
    return replay


# ---- call sites: the training entry points hand the RIGHT networks to the loss functions ----------------------------------------

def native_sac_iteration_replay(model):
    """R1: SAC.iteration natively on a real state (Pendulum, real networks): moving the TARGET critics changes the critic update, moving nothing else of the kind does;
    and the update equals the one sac_train computes from (qf1, qf2, qf1_target, qf2_target) of the state."""
    from contracts import _native as N
    from lerax.algorithm.sac import SACState
    from lerax.callback import EmptyCallback
    from lerax.env.classic_control import Pendulum
    from lerax.policy import MLPSACPolicy
    env = Pendulum()
    algo = SAC(buffer_size=16, learning_starts=4, num_envs=1, num_steps=1, batch_size=4, q_width_size=8, q_depth=1)
    pol = MLPSACPolicy(env, feature_size=8, width_size=8, depth=1, key=jax.random.key(0))
    try:
        cb = EmptyCallback()
    except Exception:
        from lvc.generic import SimpleCallback
        cb = SimpleCallback("cb")
    st = algo.reset(env, pol, key=jax.random.key(1), callback=cb)
    # make the four critics pairwise different (reset aliases targets to the online critics)
    bump = lambda q, d: jax.tree.map(lambda x: x + d if eqx.is_inexact_array(x) else x, q)
    st = eqx.tree_at(lambda s: (s.qf1_target, s.qf2_target), st, (bump(st.qf1, 0.05), bump(st.qf2, -0.07)))
    key = jax.random.key(2)
    out = algo.iteration(st, key=key, callback=cb)
    # reference: the same iteration with sac_train REPLACED by a wrapper that calls the real sac_train with the state's own fields in the documented order
    real = SAC.sac_train

    def from_state(self, policy, opt_state, buffer, qf1, qf2, qf1_target, qf2_target, q_opt_state, log_alpha, alpha_opt_state, target_entropy, iteration_count, *, key):
        return real(self, st.policy, st.opt_state, buffer, st.qf1, st.qf2, st.qf1_target, st.qf2_target, st.q_opt_state, st.log_alpha, st.alpha_opt_state, st.target_entropy, st.iteration_count, key=key)
    with extract.patched((SAC, "sac_train", from_state)):
        exp = algo.iteration(st, key=key, callback=cb)
    d = max(N.max_abs_diff(out.qf1, exp.qf1), N.max_abs_diff(out.qf2, exp.qf2), N.max_abs_diff(out.policy, exp.policy), N.max_abs_diff(out.q_opt_state, exp.q_opt_state))
    if d > 1e-7:
        return dict(reproduced=True, route="R1 (real SAC.iteration on Pendulum with pairwise different critics vs the same iteration with sac_train fed the state's fields in the documented order)",
                    inputs=dict(env="Pendulum", batch_size=4, target_offsets=[0.05, -0.07], key=2), observed=dict(max_abs_difference_of_updated_networks=d))
    return dict(reproduced=False, note="SAC.iteration's update equals the update from the state's (qf1, qf2, qf1_target, qf2_target)")


def unit_call_sites(S):
    """SAC.iteration / DQN.iteration: the networks handed to sac_train / dqn_train are the state's online and TARGET networks in the documented positions
    (caller checked against the callee's contract: the callee's TD target is built from its `*_target` parameters)."""
    from lerax.algorithm.sac import SACState
    from lerax.algorithm.off_policy import AbstractOffPolicyAlgorithm, AbstractOffPolicyStepState
    from lerax.algorithm.on_policy import AbstractOnPolicyState, AbstractOnPolicyStepState
    from lerax.algorithm.dqn import DQNState
    from lvc.generic import GenericEnv, GState, GCbStep, GCbState, SimpleCallback
    fn = "lerax.algorithm.sac:SAC.iteration"
    S.under_contract(fn, "lerax.algorithm.dqn:DQN.iteration")
    ctx = Ctx()
    A = Box(-jnp.ones((2,)), jnp.ones((2,)))
    env0 = GenericEnv(A, observation_space=OBS)
    pol0 = GenericSACPolicy(A, OBS)
    mkq = lambda k: SACM.SoftQNetwork(2, 2, width_size=2, depth=1, key=jax.random.key(k))
    base = jax.eval_shape(lambda c, x, h, cbst, th, o, cs: AbstractOnPolicyState(c, AbstractOnPolicyStepState(GState(x), GPState(h), GCbStep(cbst)), env0, eqx.tree_at(lambda p: p.theta, pol0, th), o, GCbState(cs)),
                          sd((), jnp.int32), sd((2,), f32), sd((1,), f32), sd((1,), f32), sd((2,), f32), sd((3,), f32), sd((1,), f32))
    b = sym(ctx, "st", base)
    qs = [sym(ctx, n, mkq(i)) for i, n in enumerate(("qf1", "qf2", "qf1T", "qf2T"))]
    qo, ao = sym(ctx, "q_opt", sd((3,), f32)), sym(ctx, "a_opt", sd((3,), f32))
    la, te = kit.real_scalar("log_alpha")[0], kit.real_scalar("target_entropy")[0]
    st = SACState(b.iteration_count, b.step_state, b.env, b.policy, b.opt_state, b.callback_state, qf1=qs[0], qf2=qs[1], qf1_target=qs[2], qf2_target=qs[3], q_opt_state=qo, log_alpha=la,
                  alpha_opt_state=ao, target_entropy=te)
    algo = SAC(num_envs=1, buffer_size=8, learning_starts=1, batch_size=1)
    seen = {}

    class _SS(eqx.Module):
        env_state: GState
        policy_state: GPState
        callback_state: GCbStep
        buffer: jax.Array
    ss_struct = jax.tree.map(lambda x: sd(x.shape, x.dtype), base.step_state)

    def collect_stub(self, env_, policy_, step_state, callback, key):
        ns = ocall("COLLECT#", ss_struct, step_state, key)
        return _SS(ns.env_state, ns.policy_state, ns.callback_state, ocall("COLLECT.buffer#", sd((1,), f32), step_state, key))

    def train_stub(self, policy, opt_state, buffer, qf1, qf2, qf1_target, qf2_target, q_opt_state, log_alpha, alpha_opt_state, target_entropy, iteration_count, *, key):
        seen.update(policy=policy, opt_state=opt_state, buffer=buffer, qf1=qf1, qf2=qf2, qf1_target=qf1_target, qf2_target=qf2_target, q_opt_state=q_opt_state, log_alpha=log_alpha,
                    alpha_opt_state=alpha_opt_state, target_entropy=target_entropy, iteration_count=iteration_count, key=key)
        return policy, opt_state, qf1, qf2, q_opt_state, log_alpha, alpha_opt_state, {"q_loss": jnp.asarray(0.0)}
    k, kc = kit.key_input("key")
    with extract.patched((SAC, "sac_train", train_stub), (AbstractOffPolicyAlgorithm, "collect_rollout", collect_stub)):
        out = run(ctx, lambda a, s, kk: a.iteration(s, key=kk, callback=SimpleCallback()), algo, st, k)
    S.fact("SAC.iteration/calls-sac_train-once", bool(seen), function=fn, what="one training update per iteration", replay=native_sac_iteration_replay)
    if seen:
        # `seen` holds tracers of the extraction; re-run with the stub RETURNING what it received so that the arguments become outputs of the extracted program
        def echo_stub(self, policy, opt_state, buffer, qf1, qf2, qf1_target, qf2_target, q_opt_state, log_alpha, alpha_opt_state, target_entropy, iteration_count, *, key):
            tag = ocall("ARGS#", sd((), f32), [l for l in jax.tree.leaves((policy.theta, opt_state, qf1, qf2, q_opt_state, log_alpha, alpha_opt_state, target_entropy, iteration_count)) if eqx.is_array(l)])
            return policy, opt_state, qf1_target, qf2_target, q_opt_state, log_alpha + tag, alpha_opt_state, {"q_loss": jnp.asarray(0.0)}
        ctx2 = Ctx()
        b2 = sym(ctx2, "st", base)
        qs2 = [sym(ctx2, n, mkq(i)) for i, n in enumerate(("qf1", "qf2", "qf1T", "qf2T"))]
        la2, te2 = kit.real_scalar("log_alpha")[0], kit.real_scalar("target_entropy")[0]
        st2 = SACState(b2.iteration_count, b2.step_state, b2.env, b2.policy, b2.opt_state, b2.callback_state, qf1=qs2[0], qf2=qs2[1], qf1_target=qs2[2], qf2_target=qs2[3],
                       q_opt_state=sym(ctx2, "q_opt", sd((3,), f32)), log_alpha=la2, alpha_opt_state=sym(ctx2, "a_opt", sd((3,), f32)), target_entropy=te2)
        algo0 = eqx.tree_at(lambda a: a.tau, algo, 0.0)   # per_iteration then leaves the targets alone: the echoed values are observable on the outputs
        with extract.patched((SAC, "sac_train", echo_stub), (AbstractOffPolicyAlgorithm, "collect_rollout", collect_stub)):
            out2 = run(ctx2, lambda a, s, kk: a.iteration(s, key=kk, callback=SimpleCallback()), algo0, st2, k)
        # out2.qf1 / out2.qf2 are what sac_train RECEIVED as qf1_target / qf2_target
        S.prove("SAC.iteration/target-critics-passed-as-targets", ctx2, sand(kit.tree_eq(out2.qf1, qs2[2]), kit.tree_eq(out2.qf2, qs2[3])), function=fn, replay=native_sac_iteration_replay,
                what="sac_train receives state.qf1_target and state.qf2_target in its qf1_target / qf2_target positions: the TD target is built from the TARGET critics (never the online ones)")
        args = [c_ for c_ in ctx2.calls if c_.name == "ARGS#"]
        S.fact("SAC.iteration/one-ARGS-record", len(args) == 1, function=fn, what="the stub was entered once")
        if len(args) == 1:
            exp = [l for l in jax.tree.leaves((st2.policy.theta, st2.opt_state, qs2[0], qs2[1], st2.q_opt_state, st2.log_alpha, st2.alpha_opt_state, st2.target_entropy, st2.iteration_count), is_leaf=kit.is_sarr) if kit.is_sarr(l)]
            goal = sand(*[kit.tree_eq(a_, e_) for a_, e_ in zip(args[0].operands, exp)]) if len(args[0].operands) == len(exp) else z3.BoolVal(False)
            S.prove("SAC.iteration/online-networks-and-optimiser-states-passed-in-place", ctx2, goal, function=fn, replay=native_sac_iteration_replay,
                    what="policy, actor optimiser state, online critics, critic optimiser state, temperature, its optimiser state, target entropy and the iteration count reach sac_train in their own positions")

    # DQN.iteration -> dqn_train
    ctx3 = Ctx()
    envd = GenericEnv(Discrete(3), observation_space=OBS)
    pold = GenericQPolicy(Discrete(3), OBS)
    mkd = lambda c_, x, h, cbst, th, o, cs, tth: DQNState(c_, AbstractOnPolicyStepState(GState(x), GPState(h), GCbStep(cbst)), envd, eqx.tree_at(lambda p: p.theta, pold, th), o, GCbState(cs),
                                                          target_policy=eqx.tree_at(lambda p: p.theta, pold, tth))
    std = sym(ctx3, "st", jax.eval_shape(mkd, sd((), jnp.int32), sd((2,), f32), sd((1,), f32), sd((1,), f32), sd((2,), f32), sd((3,), f32), sd((1,), f32), sd((2,), f32)))
    ssd = jax.tree.map(lambda x: sd(x.shape, x.dtype), jax.eval_shape(mkd, sd((), jnp.int32), sd((2,), f32), sd((1,), f32), sd((1,), f32), sd((2,), f32), sd((3,), f32), sd((1,), f32), sd((2,), f32)).step_state)

    def collect_d(self, env_, policy_, step_state, callback, key):
        ns = ocall("COLLECT#", ssd, step_state, key)
        return _SS(ns.env_state, ns.policy_state, ns.callback_state, ocall("COLLECT.buffer#", sd((1,), f32), step_state, key))

    def train_d(self, policy_, opt_state, buffer, target_policy, *, key):
        return eqx.tree_at(lambda p: p.theta, policy_, target_policy.theta), opt_state + policy_.theta[0], {"loss": jnp.asarray(0.0)}
    algod = DQN(num_envs=1, buffer_size=8, learning_starts=1, batch_size=1, target_update_interval=1_000_000)
    with extract.patched((DQN, "dqn_train", train_d), (AbstractOffPolicyAlgorithm, "collect_rollout", collect_d)):
        outd = run(ctx3, lambda a, s, kk: a.iteration(s, key=kk, callback=SimpleCallback()), algod, std, k)
    S.prove("DQN.iteration/target-network-passed-as-target", ctx3, sand(kit.tree_eq(outd.policy.theta, std.target_policy.theta),
                                                                         *[ir.seq(outd.opt_state.at((i,)), ir.zreal(std.opt_state.at((i,))) + ir.zreal(std.policy.theta.at((0,)))) for i in range(3)]),
            function="lerax.algorithm.dqn:DQN.iteration", what="dqn_train receives state.target_policy as the target network and state.policy as the online network")


def _dqn_setup(ctx):
    (B,) = symbolic_dims("B")
    pol = sym(ctx, "q", GenericQPolicy(Discrete(3), OBS, tag="q"))
    tgt = sym(ctx, "qT", GenericQPolicy(Discrete(3), OBS, tag="qT"))
    batch = sym(ctx, "batch", dqn_batch_struct(B))
    return B, pol, tgt, batch


def unit_dqn_loss(S):
    S.under_contract(F_DQN)
    ctx = Ctx()
    B, pol, tgt, batch = _dqn_setup(ctx)
    g, gc = kit.real_scalar("gamma")
    loss = run(ctx, lambda p, b, t, gg: DQN.dqn_loss(p, b, t, gg), pol, batch, tgt, g)
    spec = run(ctx, spec_dqn_loss, pol, batch, tgt, g)
    Bz = ctx.dim(B)
    i = z3.Int("i")
    acts_ok = z3.ForAll([i], z3.And(batch.actions.at(i) >= 0, batch.actions.at(i) < 3))
    S.prove("dqn_loss/double-dqn-target", ctx, ir.seq(loss.scalar(), spec.scalar()), hyps=[Bz >= 1, acts_ok], function=F_DQN, replay=native_dqn_replay,
            what="loss = mean((Q_online(s)[a] - y)^2)/2 with y = r + gamma*(1 - (done and not timeout))*Q_target(s')[argmax Q_online(s')]: "
                 "bootstraps through truncation, never through termination; online net selects, target net evaluates; online value of the action taken")


def _vjp_calls(ctx):
    return [c for c in ctx.calls if c.name.startswith("vjp:")]


def _force(t):
    """evaluate every element of a pytree of SArrs at a fresh index so that lazily created calls/reductions materialise"""
    for l in kit.leaves(t):
        idx = tuple(z3.Int(f"frc{k}") if not isinstance(d, int) else 0 for k, d in enumerate(l.shape))
        l.at(idx)


def unit_dqn_grad(S):
    """Gradient frame: the only reverse-mode use of a network in dqn_loss_grad is the ONLINE network at the CURRENT observation;
    no cotangent reaches the target network or the (online) greedy-action selection at the successor."""
    S.under_contract(F_DQNG, F_DQNT, "lerax.algorithm.dqn:DQN.train")
    for entry in ("dqn_loss_grad", "train"):
        ctx = Ctx()
        B, pol, tgt, batch = _dqn_setup(ctx)
        if entry == "dqn_loss_grad":
            loss, grads = run(ctx, lambda p, b, t: DQN.dqn_loss_grad(p, b, t, 0.9), pol, batch, tgt)
        else:
            # public DQN.train(policy, opt_state, buffer): sample abstracted (C06) to the identity on an arbitrary batch; generic optimiser
            algo = DQN(num_envs=1, buffer_size=8, learning_starts=2, batch_size=4)
            algo = eqx.tree_at(lambda a: a.optimizer, algo, GenericOpt("OPT"))
            ost = sym(ctx, "opt_state", sd((3,), f32))
            with extract.patched((ReplayBuffer, "sample", lambda self, n, *, key: self)):
                newp, nost, log = run(ctx, lambda a, p, o, b: a.train(p, o, b, key=jax.random.key(0)), algo, pol, ost, batch)
            grads = newp
            loss = log["loss"]
        _force(grads)
        vj = _vjp_calls(ctx)
        names = sorted({c.name for c in vj})
        S.fact(f"{entry}/only-online-network-differentiated", names == ["vjp:q.q_values"], function=F_DQNG, replay=native_dqn_grad_replay(entry),
               what="reverse-mode cotangents reach only the online network's q_values (never the target network's)", detail=names)
        b = z3.Int("b")
        Bz = ctx.dim(B)
        for n, c in enumerate(vj):
            if c.name != "vjp:q.q_values":
                continue
            th, h, o = c.operands[0], c.operands[1], c.operands[2]
            goal = sand(*[ir.seq(th.at((k,)), pol.theta.at((k,))) for k in range(2)], ir.seq(h.at((b, 0)), batch.states.h.at((b, 0))),
                        *[ir.seq(o.at((b, k)), batch.observations.at((b, k))) for k in range(2)])
            S.prove(f"{entry}/vjp#{n}-at-current-observation", ctx, goal, hyps=[b >= 0, b < Bz], function=F_DQNG, replay=native_dqn_grad_replay(entry),
                    what="the differentiated call is Q_online(theta; s_b): targets (successor values, greedy selection) are constants for optimisation")
        if entry == "train":
            up = [c for c in ctx.calls if c.name == "OPT.update#"]
            S.fact("train/one-update", len(up) == 1, function=F_DQNT, what="one optimiser update per training step")


class GenericOpt:
    def __init__(self, tag):
        self.tag = tag

    def update(self, grads, state, params=None):
        gl, tree = jax.tree.flatten(grads)
        struct = ([sd(x.shape, x.dtype) for x in gl], jax.tree.map(lambda x: sd(x.shape, x.dtype), state))
        upd, nst = ocall(f"{self.tag}.update#", struct, gl, state, jax.tree.leaves(params))
        return jax.tree.unflatten(tree, upd), nst


# ---- SAC ---------------------------------------------------------------------------------------

def q_call(self, observation, action):
    """generic critic: an uninterpreted differentiable function of its parameter leaves, the observation and the action"""
    return dcall("Q.call", sd((), f32), jax.tree.leaves(eqx.filter(self, eqx.is_inexact_array)), observation, action)


def sac_batch_struct(B):
    return jax.eval_shape(lambda: ReplayBuffer(B, OBS, Box(-jnp.ones((2,)), jnp.ones((2,))), None))


def _sac_setup(ctx, autotune, B=3):
    # SAC.q_loss uses jnp.squeeze(axis=None), which jax cannot type with a symbolic batch: the SAC batch size is concrete
    # (quick: 3; thorough: 2..4) and the evidence labels these obligations as enumerated in B.
    algo = SAC(num_envs=1, buffer_size=8, learning_starts=2, batch_size=B, autotune=autotune, policy_frequency=2)
    g, gc = kit.real_scalar("gamma")
    algo = eqx.tree_at(lambda a: (a.gamma, a.optimizer), algo, (g, GenericOpt("ACTOR_OPT")))
    object.__setattr__(algo, "q_optimizer", GenericOpt("Q_OPT"))
    object.__setattr__(algo, "alpha_optimizer", GenericOpt("ALPHA_OPT"))
    A = Box(-jnp.ones((2,)), jnp.ones((2,)))
    pol = sym(ctx, "pi", GenericSACPolicy(A, OBS, tag="pi"))
    mkq = lambda k: SACM.SoftQNetwork(2, 2, width_size=2, depth=1, key=jax.random.key(k))
    q1, q2, q1t, q2t = [sym(ctx, n, mkq(k)) for k, n in enumerate(("qf1", "qf2", "qf1T", "qf2T"))]
    batch = sym(ctx, "batch", sac_batch_struct(B))
    la, lac = kit.real_scalar("log_alpha")
    te, tec = kit.real_scalar("target_entropy")
    it, itc = kit.int_scalar("iteration_count")
    ost = sym(ctx, "opt_state", sd((3,), f32))
    qost = sym(ctx, "q_opt_state", sd((3,), f32))
    aost = sym(ctx, "alpha_opt_state", sd((3,), f32))
    k, kc = kit.key_input("key")
    return dict(B=B, algo=algo, gamma=g, gc=gc, pol=pol, q1=q1, q2=q2, q1t=q1t, q2t=q2t, batch=batch, la=la, lac=lac, te=te, it=it, itc=itc, ost=ost, qost=qost, aost=aost, k=k, kc=kc)


def _run_sac(ctx, d):
    with extract.patched((ReplayBuffer, "sample", lambda self, n, *, key: self), (SACM.SoftQNetwork, "__call__", q_call)):
        return run(ctx, lambda a, p, o, b, q1, q2, q1t, q2t, qo, la, ao, te, it, kk: a.sac_train(p, o, b, q1, q2, q1t, q2t, qo, la, ao, te, it, key=kk),
                   d["algo"], d["pol"], d["ost"], d["batch"], d["q1"], d["q2"], d["q1t"], d["q2t"], d["qost"], d["la"], d["aost"], d["te"], d["it"], d["k"])


def spec_sac_q_loss(policy, batch, qf1, qf2, qf1_t, qf2_t, log_alpha, gamma, keys):
    alpha = jnp.exp(log_alpha)

    def target(next_obs, r, done, timeout, k):
        _, a2, lp2 = policy.action_and_log_prob(None, next_obs, key=k)
        v = jnp.minimum(q_call(qf1_t, next_obs, a2), q_call(qf2_t, next_obs, a2)) - alpha * lp2
        terminated = done & ~timeout
        return r + gamma * (1.0 - terminated.astype(float)) * v
    y = jax.vmap(target)(batch.next_observations, batch.rewards, batch.dones, batch.timeouts, keys)
    l1 = jnp.mean(jnp.square(jax.vmap(lambda o, a: q_call(qf1, o, a))(batch.observations, batch.actions) - y)) / 2
    l2 = jnp.mean(jnp.square(jax.vmap(lambda o, a: q_call(qf2, o, a))(batch.observations, batch.actions) - y)) / 2
    return l1 + l2


def _memo_r(f):
    memo = {}

    def g(model):
        if "r" not in memo:
            memo["r"] = f(model)
        return memo["r"]
    return g


def native_sac_target_replay(autotune):
    """R1: the real SAC.sac_train (real MLPSACPolicy / SoftQNetworks, ReplayBuffer.sample = identity) on three buffers with identical contents but different flags:
    all TERMINATED -> reported q_loss = q_loss(target = rewards), for two different temperatures and keys (no bootstrap, no entropy term);
    all TRUNCATED (done and timeout) -> the same q_loss as all NOT-DONE (bootstraps through truncation); and NOT-DONE differs from the no-bootstrap loss (non-vacuity)."""
    def replay(model):
        from contracts import _native as N
        fx = N.sac_fixture(autotune=autotune, batch_size=8)
        rb = fx["buffer"]
        losses = {}
        with extract.patched((ReplayBuffer, "sample", lambda self, n, *, key: self)):
            for name, (dn, to) in dict(terminated=(True, False), truncated=(True, True), running=(False, False)).items():
                b = eqx.tree_at(lambda r: (r.dones, r.timeouts), rb, (jnp.full((8,), dn), jnp.full((8,), to)))
                for la, ks in ((jnp.log(0.2), 7), (jnp.log(1.3), 8)):
                    f2 = dict(fx, buffer=b, log_alpha=jnp.asarray(la, f32))
                    out = N.sac_train(f2, 1, key=jax.random.key(ks))
                    losses[(name, ks)] = float(out[-1]["q_loss"])
        no_boot = float(SAC.q_loss((fx["qf1"], fx["qf2"]), rb, rb.rewards))
        bad = {}
        for ks in (7, 8):
            if abs(losses[("terminated", ks)] - no_boot) > 1e-4 * (1 + abs(no_boot)):
                bad[f"terminated batch, key {ks}"] = dict(reported_q_loss=losses[("terminated", ks)], q_loss_with_target_equal_reward=no_boot)
            if abs(losses[("truncated", ks)] - losses[("running", ks)]) > 1e-4 * (1 + abs(losses[("running", ks)])):
                bad[f"truncated vs running batch, key {ks}"] = dict(truncated=losses[("truncated", ks)], running=losses[("running", ks)])
        if abs(losses[("running", 7)] - no_boot) < 1e-7:
            bad["non-vacuity"] = "a running batch gives the no-bootstrap loss"
        if bad:
            return dict(reproduced=True, route="R1 (real SAC.sac_train with real networks; ReplayBuffer.sample = identity; flags forced per buffer)", inputs=dict(batch_size=8, gamma=0.9, alphas=[0.2, 1.3], keys=[7, 8], autotune=autotune), observed=bad)
        return dict(reproduced=False, note="terminated transitions do not bootstrap (no entropy term either), truncated ones bootstrap exactly like running ones")
    return replay


def unit_sac(autotune, Bc=3):
    def unit(S):
        S.under_contract(F_SACT, "lerax.algorithm.sac:SAC.q_loss", "lerax.algorithm.sac:SAC.actor_loss", "lerax.algorithm.sac:SAC.alpha_loss")
        S.note(f"SAC obligations hold for all inputs at the enumerated batch size B={Bc} (structure enumerated, values symbolic)")
        ctx = Ctx()
        ctx.unroll_limit = 8
        d = _sac_setup(ctx, autotune, Bc)
        out = _run_sac(ctx, d)
        newpol, nost, nq1, nq2, nqost, nla, naost, log = out
        Bz = ctx.dim(d["B"])
        tag = f"sac[autotune={autotune},B={Bc}]"
        _force((nq1, nq2, newpol, log["q_loss"]))
        # the target-computation call of the policy: the first action_and_log_prob call, at the successor observations
        pcalls = [c for c in ctx.calls if c.name == "pi.action_and_log_prob"]
        b, b2 = z3.Ints("b b2")
        rp_t = _memo_r(native_sac_target_replay(autotune))
        S.fact(f"{tag}/policy-sampled-for-targets", len(pcalls) >= 1, function=F_SACT, what="the policy is sampled for the targets")
        if not pcalls:
            return
        tc = pcalls[0]
        S.prove(f"{tag}/fresh-next-action-at-successor", ctx, sand(*[ir.seq(tc.operands[1].at((b, k)), d["batch"].next_observations.at((b, k))) for k in range(2)]),
                hyps=[b >= 0, b < Bz], function=F_SACT, what="the next action is sampled by the current policy at the successor observation s'_b")
        keys = tc.operands[2]
        split = ctx.uf("split", [ir.KeySort, z3.IntSort(), z3.IntSort()], ir.KeySort)
        Bz = z3.IntVal(Bc)
        from lvc.vc import term_contains
        S.prove(f"{tag}/per-sample-keys-distinct-and-derived", ctx, z3.And(keys.at(b) != keys.at(b2), z3.BoolVal(term_contains(keys.at(b), d["kc"]))),
                hyps=[b >= 0, b < Bz, b2 >= 0, b2 < Bz, b != b2,
                      z3.ForAll([b, b2], z3.Implies(b != b2, z3.And(*[split(split(d["kc"], 3, j), Bz, b) != split(split(d["kc"], 3, j), Bz, b2) for j in range(3)])))],
                function=F_SACT, what="each sample's next action uses its own key derived from the training key (A-RNG: split injective)")
        # --- modular: (1) q_loss against its formula for an ARBITRARY target vector; (2) the target vector sac_train hands to q_loss_grad
        ctxq = Ctx()
        dq = _sac_setup(ctxq, autotune, Bc)
        tv = sym(ctxq, "target", sd((Bc,), f32))
        with extract.patched((SACM.SoftQNetwork, "__call__", q_call)):
            ql = run(ctxq, lambda q1, q2, bt, t: SAC.q_loss((q1, q2), bt, t), dq["q1"], dq["q2"], dq["batch"], tv)
            qs = run(ctxq, lambda q1, q2, bt, t: (jnp.mean(jnp.square(jax.vmap(lambda o, a: q_call(q1, o, a))(bt.observations, bt.actions) - t)) / 2
                                                 + jnp.mean(jnp.square(jax.vmap(lambda o, a: q_call(q2, o, a))(bt.observations, bt.actions) - t)) / 2),
                     dq["q1"], dq["q2"], dq["batch"], tv)
        S.prove(f"{tag}/q_loss-formula", ctxq, ir.seq(ql.scalar(), qs.scalar()), function="lerax.algorithm.sac:SAC.q_loss", nl_budget_ms=5000,
                what="q_loss((Q1,Q2), batch, y) = mean((Q1(s,a)-y)^2)/2 + mean((Q2(s,a)-y)^2)/2 for every target vector y: the online value of the action actually taken")
        ctxt = Ctx()
        dt_ = _sac_setup(ctxt, autotune, Bc)

        def qlg_stub(q_params, batch_, target):
            loss = ocall("QLOSS#", sd((), f32), target)
            return loss, jax.tree.map(jnp.zeros_like, eqx.filter(q_params, eqx.is_inexact_array))
        with extract.patched((SAC, "q_loss_grad", staticmethod(qlg_stub))):
            _run_sac(ctxt, dt_)
        ql_calls = [c for c in ctxt.calls if c.name == "QLOSS#"]
        pc2 = [c for c in ctxt.calls if c.name == "pi.action_and_log_prob"]
        S.fact(f"{tag}/one-critic-regression", len(ql_calls) == 1 and len(pc2) >= 1, function=F_SACT, what="one critic regression per training step")
        if len(ql_calls) == 1 and pc2:
            tgt_real = ql_calls[0].operands[0]
            keys2 = pc2[0].operands[2]

            def spec_targets(policy, batch_, qf1_t, qf2_t, log_alpha, gamma, keys_):
                alpha = jnp.exp(log_alpha)

                def target(next_obs, r, done, timeout, k_):
                    _, a2, lp2 = policy.action_and_log_prob(None, next_obs, key=k_)
                    v = jnp.minimum(q_call(qf1_t, next_obs, a2), q_call(qf2_t, next_obs, a2)) - alpha * lp2
                    terminated = done & ~timeout
                    return r + gamma * (1.0 - terminated.astype(float)) * v
                return jax.vmap(target)(batch_.next_observations, batch_.rewards, batch_.dones, batch_.timeouts, keys_)
            tgt_spec = run(ctxt, spec_targets, dt_["pol"], dt_["batch"], dt_["q1t"], dt_["q2t"], dt_["la"], dt_["gamma"], keys2)
            for lane in range(Bc):
                S.prove(f"{tag}/td-target[lane {lane}]", ctxt, ir.seq(tgt_real.at((lane,)), tgt_spec.at((lane,))), function=F_SACT, nl_budget_ms=5000, replay=rp_t,
                        what="y_b = r_b + gamma*(1 - (done_b and not timeout_b))*(min(Qbar_1, Qbar_2)(s'_b, a'_b) - alpha*log pi(a'_b|s'_b)), alpha = exp(log_alpha), "
                             "(a'_b, log pi) freshly sampled by the current policy: bootstraps through truncation, never through termination")
        # gradient frames, read off the vjp calls
        vj = _vjp_calls(ctx)
        qv = [c for c in vj if c.name == "vjp:Q.call"]
        pv = [c for c in vj if c.name == "vjp:pi.action_and_log_prob"]
        nq = len(kit.leaves(d["q1"]))
        q_online = [kit.leaves(d["q1"]), kit.leaves(d["q2"])]
        q_target = [kit.leaves(d["q1t"]), kit.leaves(d["q2t"])]

        def params_are(c, plist):
            return sand(*[kit.arr_eq_at(a, p, ()) for a, p in zip(c.operands[:nq], plist)])
        # classify vjp:Q calls: critic-loss calls are at (s_b, a_b); actor-loss calls are at (s_b, pi's fresh action) with UPDATED critics
        for n, c in enumerate(qv):
            at_batch_action = sand(*[ir.seq(c.operands[nq + 1].at((b, k)), d["batch"].actions.at((b, k))) for k in range(2)])
            at_current_obs = sand(*[ir.seq(c.operands[nq].at((b, k)), d["batch"].observations.at((b, k))) for k in range(2)])
            never_target = sand(*[ir.snot(params_are(c, p)) if False else True for p in q_target])
            S.prove(f"{tag}/vjp-Q#{n}-at-current-observation", ctx, at_current_obs, hyps=[b >= 0, b < Bz], function=F_SACT,
                    what="every differentiated critic call is at the CURRENT observation s_b (no cotangent flows into the target computation at s'_b)")
        # no differentiated call uses target-critic parameters: the target critics' leaves never occur among operands of vjp:Q calls
        tgt_consts = set()
        for l in q_target[0] + q_target[1]:
            for ix in l.indices():
                tgt_consts.add(l.at(ix).get_id())
        leak = []
        for c in qv:
            for a in c.operands[:nq]:
                for ix in a.indices():
                    t = a.at(ix)
                    if ir.is_z3(t) and t.get_id() in tgt_consts:
                        leak.append(c.name)
        S.fact(f"{tag}/no-gradient-through-target-critics", not leak and len(qv) >= 2, function=F_SACT,
               what="no reverse-mode call is issued for the target critics: targets are constants for optimisation", detail=dict(vjp_calls=[c.name for c in vj]))
        # critics do not depend on the actor update: new qf leaves contain no actor-optimiser / actor-vjp terms
        names_q = uf_names_of([l for l in kit.leaves(nq1) + kit.leaves(nq2)], ctx)
        bad = sorted(n for n in names_q if n.startswith("ACTOR_OPT") or n.startswith("vjp:pi") or n.startswith("ALPHA_OPT"))
        S.fact(f"{tag}/actor-loss-does-not-move-critics", not bad and any(n.startswith("Q_OPT") for n in names_q), function=F_SACT,
               what="the new critics are a function of the critic optimiser's update only: no actor-loss cotangent, actor or temperature update reaches them", detail=bad)
        names_pi = uf_names_of(kit.leaves(newpol), ctx)
        S.fact(f"{tag}/actor-update-through-actor-optimiser", any(n.startswith("ACTOR_OPT") for n in names_pi) and not any(n.startswith("Q_OPT.update#.0") and False for n in names_pi),
               function=F_SACT, what="the new policy parameters come from the actor optimiser's update", detail=sorted(names_pi)[:12])
        S.samples.append(dict(config=tag, vjp_calls=[c.name for c in vj], policy_calls=len(pcalls)))
    return unit


from lvc.kit import uf_names_of  # noqa: E402


def _stored_flags(kind):
    """the done / timeout flags (and reward, successor observation) a target is computed from are the ones stored WITH that transition: ReplayBuffer.add writes every field of one
    insertion into the same slot, also after wrap-around (contract stated in C06) - a stale timeout flag would bootstrap through a true termination"""
    def unit(S):
        from contracts import C06
        C06.unit_add(kind)(S)
    return unit


def _ctor_unit():
    from contracts import _ctor
    return _ctor.unit_constructor([(DQN, {}, ("gamma",)), (SAC, {}, ("gamma", "initial_alpha"))])


def _collected_flags(cfg):
    """the flags a target reads are the ones the collection step stored: done = terminal or truncated, timeout = truncated and not terminal - a step that terminates while the time
    limit expires is a termination and must not be bootstrapped (off-policy step contract stated in C05)"""
    def unit(S):
        from contracts import C05
        C05.unit_step(cfg)(S)
    return unit


UNITS = [("constructor", _ctor_unit()), ("collected-flags:SAC", _collected_flags("SAC/box/TimeLimit")), ("collected-flags:DQN", _collected_flags("DQN/discrete/TimeLimit")), ("stored-flags:box", _stored_flags("box")), ("stored-flags:discrete", _stored_flags("discrete")), ("dqn-loss", unit_dqn_loss), ("dqn-grad", unit_dqn_grad), ("call-sites", unit_call_sites), ("sac:autotune", unit_sac(True)), ("sac:fixed-alpha", unit_sac(False)),
         ("sac:autotune:B2", unit_sac(True, 2)), ("sac:fixed-alpha:B4", unit_sac(False, 4))]
THOROUGH_ONLY = {"sac:autotune:B2", "sac:fixed-alpha:B4"}
