"""C06 - Replay buffer keeps the most recent transitions and samples only stored ones.

Under contract: ReplayBuffer.__init__, add, current_size, sample; AbstractBuffer.flatten_axes (replay layout).
Capacity C and number of per-environment buffers N are symbolic.  Ghost history H_f(k) (value of field f at the
k-th insertion) and ghost count n; representation invariant
    Inv(rb, n):  rb.position = n >= 0  /\\  for all k, max(0, n-C) <= k < n:  rb.f[k mod C] = H_f(k)   (every field f)
"""
from __future__ import annotations

import equinox as eqx
import jax
import jax._src.core
import jax.numpy as jnp
import numpy as np
import z3

from lerax.buffer import ReplayBuffer
from lerax.space import Box, Discrete

from lvc import kit, ir, extract, opaque
from lvc.extract import run, sym, symbolic_dims
from lvc.generic import GPState
from lvc.kit import Ctx, sand

PROPERTY = "C06"
TRUSTED = ["A-RNG: jax.random.choice(key, n, (b,), replace=False, p) returns b pairwise distinct indices in [0,n) each with p > 0 (when b <= #{p>0})",
           "A-INT: machine integers as mathematical integers (position never overflows)", "A-XLA: gather/scatter/reshape semantics as encoded in lvc/ir.py",
           "induction over the insertion history (initiation + consecution are discharged; the induction itself is the standard loop/ADT rule)"]
ASSUMPTIONS = ["capacity C >= 1 and number of buffers N >= 1 symbolic; observation f32[3], action Box f32[2] or Discrete, policy state pytree with one f32[1] leaf"]
DROPS = ["D1: `self.states is not None`, `current_size.ndim == 0` resolved per configuration (single / vectorised buffers; with policy state)"]
NOT_DECIDED = ["uniformity of sampling (distributional fact about jax.random.choice)"]

F_INIT = "lerax.buffer.replay:ReplayBuffer.__init__"
F_ADD = "lerax.buffer.replay:ReplayBuffer.add"
F_SIZE = "lerax.buffer.replay:ReplayBuffer.current_size"
F_SAMPLE = "lerax.buffer.replay:ReplayBuffer.sample"
F_FLAT = "lerax.buffer.base_buffer:AbstractBuffer.flatten_axes"

OBS = Box(-jnp.ones((3,)), jnp.ones((3,)))
FIELDS = ["observations", "next_observations", "actions", "rewards", "dones", "timeouts", "states", "next_states"]


def act_space(kind):
    return Box(-jnp.ones((2,)), jnp.ones((2,))) if kind == "box" else Discrete(4)


def buffer_struct(C, kind="box", lanes=None):
    """ReplayBuffer with array leaves of leading extent C (or (N, C) when vectorised), built by the real constructor."""
    def mk(h):
        return ReplayBuffer(C, OBS, act_space(kind), GPState(h))
    st = jax.eval_shape(mk, jax.ShapeDtypeStruct((1,), jnp.float32))
    if lanes is not None:
        st = jax.tree.map(lambda x: jax.ShapeDtypeStruct((lanes,) + tuple(x.shape), x.dtype), st)
    return st


def item_struct(kind):
    sd = jax.ShapeDtypeStruct
    f = jnp.float32
    a = sd((2,), f) if kind == "box" else sd((), jnp.int32)
    return dict(observation=sd((3,), f), next_observation=sd((3,), f), action=a, reward=sd((), f), done=sd((), jnp.bool_),
                timeout=sd((), jnp.bool_), state=GPState(sd((1,), f)), next_state=GPState(sd((1,), f)))


def add_item(rb, it):
    return rb.add(it["observation"], it["next_observation"], it["action"], it["reward"], it["done"], it["timeout"], it["state"], it["next_state"])


ITEM_OF_FIELD = {"observations": "observation", "next_observations": "next_observation", "actions": "action", "rewards": "reward",
                 "dones": "done", "timeouts": "timeout", "states": "state", "next_states": "next_state"}


def native_add_replay(model):
    """R1: insert a recognisable history into a real buffer natively (wrap-around several times) and compare slots."""
    rng = np.random.RandomState(1)
    for C in (1, 2, 3, 5):
        rb = ReplayBuffer(C, OBS, act_space("box"), GPState(jnp.zeros((1,))))
        n = 3 * C + 2
        for k in range(n):
            v = float(k + 1)
            rb = rb.add(jnp.full((3,), v), jnp.full((3,), v + 0.5), jnp.full((2,), -v), v * 10, k % 2 == 0, k % 3 == 0, GPState(jnp.full((1,), v)), GPState(jnp.full((1,), v + 0.25)))
            for kk in range(max(0, k + 1 - C), k + 1):
                s = kk % C
                vv = float(kk + 1)
                ok = (np.allclose(rb.observations[s], vv) and np.allclose(rb.next_observations[s], vv + 0.5) and np.allclose(rb.actions[s], -vv)
                      and np.allclose(rb.rewards[s], vv * 10) and bool(rb.dones[s]) == (kk % 2 == 0) and bool(rb.timeouts[s]) == (kk % 3 == 0)
                      and np.allclose(rb.states.h[s], vv) and np.allclose(rb.next_states.h[s], vv + 0.25))
                if not ok or int(rb.position) != k + 1:
                    return dict(reproduced=True, route="R1", inputs=dict(capacity=C, insertions=k + 1, checked_insertion=kk, slot=s),
                                observed=dict(position=int(rb.position), observations=np.asarray(rb.observations).tolist(),
                                              rewards=np.asarray(rb.rewards).tolist(), states=np.asarray(rb.states.h).tolist()))
    return dict(reproduced=False, note="native histories with wrap-around agree with the invariant")


def native_sample_replay(model):
    """R1: per-environment buffers with different fill levels, stacked as the off-policy learner stacks them, sampled
    jointly with the real sample(); every returned row must be a stored transition with all fields intact, no duplicates."""
    for (C, fills) in ((3, [1, 3]), (4, [0, 2, 6]), (2, [2, 1]), (5, [3]), (4, [6, 3, 1, 4])):
        lanes = []
        stored = set()
        for e, nfill in enumerate(fills):
            rb = ReplayBuffer(C, OBS, act_space("box"), GPState(jnp.zeros((1,))))
            for k in range(nfill):
                tag = float(100 * (e + 1) + k + 1)
                rb = rb.add(jnp.full((3,), tag), jnp.full((3,), tag + 0.5), jnp.full((2,), -tag), tag, False, False, GPState(jnp.full((1,), tag)), GPState(jnp.full((1,), tag)))
            for k in range(max(0, nfill - C), nfill):
                stored.add(float(100 * (e + 1) + k + 1))
            lanes.append(rb)
        buf = lanes[0] if len(lanes) == 1 else jax.tree.map(lambda *xs: jnp.stack(xs), *lanes)
        for b, seed in [(bb, sd_) for bb in sorted({len(stored), min(len(stored), C + 1), max(1, len(stored) - 1)}) for sd_ in range(6)]:
            batch = buf.sample(b, key=jax.random.key(seed))
            tags = [float(x) for x in np.asarray(batch.rewards)]
            ok = all(t in stored for t in tags) and len(set(tags)) == len(tags)
            ok = ok and all(np.allclose(batch.observations[i], tags[i]) and np.allclose(batch.actions[i], -tags[i]) and np.allclose(batch.states.h[i], tags[i]) for i in range(b))
            if not ok:
                return dict(reproduced=True, route="R1", inputs=dict(capacity=C, fill_levels=fills, batch_size=b, key_seed=seed),
                            observed=dict(sampled_reward_tags=tags, stored_tags=sorted(stored)))
    return dict(reproduced=False, note="native joint sampling returned only stored, intact, distinct transitions")


def unit_add(kind):
    def unit(S):
        S.under_contract(F_ADD, F_INIT, F_SIZE)
        (C,) = symbolic_dims("C")
        # ---- __init__ establishes Inv(rb, 0) ----
        ctx = Ctx()
        h0 = sym(ctx, "h0", jax.ShapeDtypeStruct((1,), jnp.float32))
        rb0 = run(ctx, lambda h: ReplayBuffer(C, OBS, act_space(kind), GPState(h)), h0)
        S.prove("init/position-zero", ctx, ir.seq(rb0.position.scalar(), 0), function=F_INIT, replay=native_add_replay,
                what="a new buffer has position 0 (Inv(rb,0) holds vacuously: no slot is claimed written)")
        S.fact("init/capacity", rb0.size is C or str(rb0.size) == str(C), function=F_INIT, what="static capacity is the requested size")
        # ---- add: single-step contract at a fresh slot j ----
        ctx = Ctx()
        Cz = ctx.dim(C)
        rb = sym(ctx, "rb", buffer_struct(C, kind))
        it = sym(ctx, "item", item_struct(kind))
        out = run(ctx, add_item, rb, it)
        j, n = z3.Int("j"), z3.Int("n")
        pos = rb.position.scalar()
        hyp = [Cz >= 1, pos >= 0, j >= 0, j < Cz]
        w = pos % Cz
        S.prove("add/position-increments", ctx, ir.seq(out.position.scalar(), pos + 1), hyps=hyp, function=F_ADD, replay=native_add_replay,
                what="position' = position + 1")
        conj = []
        for f in FIELDS:
            old, new, item = getattr(rb, f), getattr(out, f), it[ITEM_OF_FIELD[f]]
            for lo, ln, li in zip(kit.leaves(old), kit.leaves(new), kit.leaves(item)):
                for ci in li.indices():
                    conj.append(ir.seq(ln.at((j,) + ci), z3.If(j == w, ir.z_of(li.at(ci), li.kind), ir.z_of(lo.at((j,) + ci), lo.kind))))
        S.prove("add/writes-one-slot-all-fields", ctx, sand(*conj), hyps=hyp, function=F_ADD, replay=native_add_replay,
                what="for every slot j < C and EVERY field: field'[j] = item.field if j = position mod C else field[j] (all fields written at the same index)")
        S.fact("add/frame-size-and-masks", (out.size is rb.size) and out.action_masks is None, function=F_ADD, what="frame: size and action_masks untouched")
        # ---- ghost history: Inv(n) /\\ add => Inv(n+1) for the extended history  (lemma over the add contract) ----
        k = z3.Int("k")
        Hs = {}
        conj_pre, conj_post = [], []
        for f in FIELDS:
            old, new, item = getattr(rb, f), getattr(out, f), it[ITEM_OF_FIELD[f]]
            for li_idx, (lo, ln, li) in enumerate(zip(kit.leaves(old), kit.leaves(new), kit.leaves(item))):
                for ci in li.indices():
                    H = z3.Function(f"H_{f}_{li_idx}_{'_'.join(map(str, ci))}", z3.IntSort(), ir.sort_of_kind(li.kind))
                    Hn = lambda kk, H=H, li=li, ci=ci: z3.If(kk == n, ir.z_of(li.at(ci), li.kind), H(kk))
                    # Inv(n) at the instance (k mod C) needed below
                    conj_pre.append(z3.Implies(z3.And(k >= 0, k >= n - Cz, k < n), ir.z_of(lo.at((k % Cz,) + ci), lo.kind) == H(k)))
                    conj_post.append(ir.z_of(ln.at((k % Cz,) + ci), ln.kind) == Hn(k))
        inv_pre = z3.And(pos == n, n >= 0, *conj_pre)
        S.prove("add/invariant-consecution", ctx, sand(*conj_post), hyps=[Cz >= 1, inv_pre, k >= 0, k >= n + 1 - Cz, k < n + 1],
                function=F_ADD, replay=native_add_replay,
                what="Inv(rb,n) and add(item) => Inv(rb',n+1) with H' = H[n -> item]: the buffer holds exactly the most recent min(n,C) insertions, "
                     "each slot with all fields of ONE insertion (fresh symbolic k; arithmetic lemma 0 < d < C => (k+d) mod C != k mod C)")
        # ---- most-recent lemma (pure arithmetic over the invariant): written slots are exactly j < min(n, C), images pairwise distinct
        k2 = z3.Int("k2")
        S.prove("lemma/slots-distinct", Ctx(), (k % Cz) != (k2 % Cz), hyps=[Cz >= 1, n >= 0, k >= 0, k2 >= 0, k >= n - Cz, k2 >= n - Cz, k < n, k2 < n, k != k2],
                function=F_ADD, what="two different insertions among the last min(n,C) occupy different slots")
        cs_n = z3.If(n < Cz, n, Cz)
        S.prove("lemma/written-below-current-size", Ctx(), z3.Implies(z3.And(k >= 0, k >= n - Cz, k < n), (k % Cz) < cs_n),
                hyps=[Cz >= 1, n >= 0], function=F_ADD, what="each of the last min(n,C) insertions lives in a slot j < min(n, C) (= current_size)")
        wit = n - 1 - ((n - 1 - j) % Cz)  # explicit witness: the most recent insertion that landed in slot j
        S.prove("lemma/below-current-size-is-written", Ctx(), z3.And(wit >= 0, wit >= n - Cz, wit < n, wit % Cz == j),
                hyps=[Cz >= 1, n >= 0, j >= 0, j < cs_n], function=F_ADD,
                what="conversely every slot j < min(n, C) holds one of the last min(n,C) insertions (witness n-1-((n-1-j) mod C))")
        # ---- current_size ----
        cs = run(ctx, lambda b: b.current_size, rb)
        S.prove("current_size/min", ctx, ir.seq(cs.scalar(), z3.If(pos < Cz, pos, Cz)), hyps=[Cz >= 1, pos >= 0], function=F_SIZE,
                what="current_size = min(position, capacity)")
        S.samples.append(dict(kind=kind, fields=FIELDS, capacity="C (symbolic)"))
    return unit


def choice_stub(key, a, shape=(), replace=True, p=None, axis=0, mode=None):
    """Assumed contract carrier for jax.random.choice (A-RNG): the call is recorded with its static arguments in the name."""
    n = a if not hasattr(a, "shape") or getattr(a, "shape", ()) == () else a.shape[0]
    nval = jax._src.core.dimension_as_value(n) if not isinstance(n, int) else jnp.asarray(n)
    ops = [key, nval] + ([p] if p is not None else [])
    return opaque.ocall(f"choice[replace={bool(replace)},p={'yes' if p is not None else 'no'}]", jax.ShapeDtypeStruct(tuple(shape), jnp.int32), *ops)


def unit_sample(vectorised):
    def unit(S):
        # regimes of the batch size relative to the per-buffer capacity (Python-level comparisons of sizes must be decidable per regime): a single buffer can only serve B <= C;
        # jointly sampled buffers also serve C < B <= N*C
        for regime, cons in ((("B<=C", ["B <= C"]), ("B>C", ["B >= C + 1"])) if vectorised else (("B<=C", ["B <= C"]),)):
            _sample_regime(S, vectorised, regime, cons)
    return unit


def _sample_regime(S, vectorised, regime, cons):
    if True:
        S.under_contract(F_SAMPLE, F_FLAT)
        S.assume_ids("A-RNG choice contract")
        C, N, B = symbolic_dims("C, N, B", constraints=cons)
        ctx = Ctx()
        Cz, Bz = ctx.dim(C), ctx.dim(B)
        Nz = ctx.dim(N) if vectorised else None
        rb = sym(ctx, "rb", buffer_struct(C, "box", lanes=N if vectorised else None))
        k, kc = kit.key_input("key")
        import jax.random as jr
        with extract.patched((jr, "choice", choice_stub)):
            batch = run(ctx, lambda b, kk: b.sample(B, key=kk), rb, k)
        calls = [c for c in ctx.calls if c.name.startswith("choice[")]
        tag = ("vec" if vectorised else "single") + ("" if regime == "B<=C" else f"[{regime}]")
        S.fact(f"{tag}/one-choice-without-replacement", len(calls) == 1 and calls[0].name == "choice[replace=False,p=yes]", shape=False, function=F_SAMPLE, replay=native_sample_replay,
               what="sample draws its indices with one jax.random.choice(..., replace=False, p=probs)", detail=[c.name for c in calls])
        if len(calls) != 1:
            return
        c = calls[0]
        total = (Nz * Cz) if vectorised else Cz
        S.prove(f"{tag}/choice-range-is-all-slots", ctx, ir.seq(c.operands[1].scalar(), total),
                hyps=[Cz >= 1] + ([Nz >= 1] if vectorised else []), function=F_SAMPLE, what="indices are drawn from [0, N*C): the flattened buffers")
        i = z3.Int("i")
        idx = c.outputs[0].at(i)
        p = c.operands[2]
        sums = [r for r in ctx.reductions if r.kind == "sum"]
        hyp = [Cz >= 1, Bz >= 1, i >= 0, i < Bz, idx >= 0, idx < total]
        if vectorised:
            hyp.append(Nz >= 1)
            pos_e = lambda e: rb.position.at(e)
            e, s = idx / Cz, idx % Cz
            hyp.append(z3.ForAll([z3.Int("e0")], rb.position.at(z3.Int("e0")) >= 0))
        else:
            pos_e = lambda e: rb.position.scalar()
            e, s = 0, idx
            hyp.append(rb.position.scalar() >= 0)
        pv = p.at(idx)  # forces the reduction symbol(s) to be created
        sums = [r for r in ctx.reductions if r.kind == "sum"]
        pre_nonempty = [r.sym >= 1 for r in sums]  # requires: at least one stored transition (the code's own Sigma valid_mask)
        written = s < z3.If(pos_e(e) < Cz, pos_e(e), Cz)
        S.prove(f"{tag}/positive-probability-iff-written", ctx, (pv > 0) == written, hyps=hyp + pre_nonempty, function=F_SAMPLE, replay=native_sample_replay,
                what="probs[idx] > 0 exactly for written slots (slot s of buffer e with s < min(position_e, C)): unwritten slots can never be drawn")
        conj = []
        for f in FIELDS:
            for lb, lr in zip(kit.leaves(getattr(batch, f)), kit.leaves(getattr(rb, f))):
                core = lb.shape[1:]
                import itertools
                for ci in itertools.product(*[range(d) for d in core]):
                    src = lr.at(((e, s) if vectorised else (s,)) + ci)
                    conj.append(ir.seq(lb.at((i,) + ci), src))
        S.prove(f"{tag}/row-is-one-stored-slot-all-fields", ctx, sand(*conj), hyps=hyp, function=F_SAMPLE, replay=native_sample_replay,
                what="row i of the batch equals, in EVERY field, slot (e, s) = (idx_i div C, idx_i mod C) of the buffers: fields are never mixed")
        i2 = z3.Int("i2")
        idx2 = c.outputs[0].at(i2)
        if vectorised:
            S.prove(f"{tag}/distinct-indices-distinct-slots", ctx, z3.Or(idx / Cz != idx2 / Cz, idx % Cz != idx2 % Cz),
                    hyps=[Cz >= 1, idx >= 0, idx2 >= 0, idx != idx2], function=F_SAMPLE,
                    what="distinct flat indices (A-RNG, replace=False) are distinct (environment, slot) pairs: no transition twice in a batch")
        S.prove(f"{tag}/position-and-size-passed-through", ctx, kit.tree_eq(batch.position, rb.position) if not vectorised else True, function=F_SAMPLE,
                what="scalar leaves are passed through")
        S.samples.append(dict(config=tag, choice=c.name, N="symbolic" if vectorised else 1, C="symbolic", B="symbolic"))


def unit_flatten(S):
    """flatten_axes(None) on an (E, S)-shaped buffer: out.f[e*S+s] = in.f[e,s] for every array leaf of rank >= 2;
    leaves of lower rank (position) are returned untouched."""
    S.default_replay = native_sample_replay
    S.under_contract(F_FLAT)
    C, N = symbolic_dims("C, N")
    ctx = Ctx()
    Cz, Nz = ctx.dim(C), ctx.dim(N)
    rb = sym(ctx, "rb", buffer_struct(C, "box", lanes=N))
    flat = run(ctx, lambda b: b.flatten_axes(None), rb)
    e, s = z3.Ints("e s")
    hyp = [Cz >= 1, Nz >= 1, e >= 0, e < Nz, s >= 0, s < Cz]
    conj = []
    import itertools
    for f in FIELDS:
        for lf, lr in zip(kit.leaves(getattr(flat, f)), kit.leaves(getattr(rb, f))):
            for ci in itertools.product(*[range(d) for d in lf.shape[1:]]):
                conj.append(ir.seq(lf.at((e * Cz + s,) + ci), lr.at((e, s) + ci)))
    S.prove("flatten/bijection-on-every-leaf", ctx, sand(*conj), hyps=hyp, function=F_FLAT,
            what="out.f[e*C+s] = in.f[e,s] for every field leaf, the same map for every leaf (no loss, no duplication)")
    S.prove("flatten/low-rank-leaves-untouched", ctx, ir.seq(flat.position.at(e), rb.position.at(e)), hyps=hyp, function=F_FLAT,
            what="leaves of rank < 2 (position) are not reshaped")


UNITS = [("add:box", unit_add("box")), ("add:discrete", unit_add("discrete")), ("sample:single", unit_sample(False)),
         ("sample:vectorised", unit_sample(True)), ("flatten", unit_flatten)]
