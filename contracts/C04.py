"""C04 - An on-policy rollout is a faithful record of the interaction.

Under contract:
  lerax.algorithm.on_policy:AbstractActorCriticOnPolicyAlgorithm.step      (PPO / A2C instances; any env, any policy)
  lerax.algorithm.on_policy:AbstractOnPolicyAlgorithm.collect_rollout      (scan of `step`, then post_collect)
  lerax.algorithm.on_policy:AbstractOnPolicyStepState.initial
  lerax.utils:filter_cond
  lerax.policy.actor_critic.mlp:MLPActorCriticPolicy  action_and_value / evaluate_action consistency (interface contract)
"""
from __future__ import annotations

import equinox as eqx
import jax
import jax.numpy as jnp
import numpy as np
import z3

from lerax.algorithm import PPO, A2C
from lerax.algorithm.on_policy import AbstractOnPolicyStepState, AbstractActorCriticOnPolicyAlgorithm
from lerax.buffer import RolloutBuffer
from lerax.space import Box, Discrete
from lerax import wrapper as W
from lerax.utils import filter_cond

from lvc import kit, ir, extract, opaque
from lvc.extract import run, sym
from lvc.generic import GenericEnv, GenericActorCriticPolicy, GPState, GState, SimpleCallback, GCbStep
from lvc.kit import Ctx, sand

PROPERTY = "C04"
TRUSTED = ["A-PURE: env / policy / callback methods are functions of their explicit arguments",
           "A-XLA: cond/scan/jit semantics as encoded in lvc/ir.py", "A-REAL: float32 as reals",
           "policy interface contract (assumed for the generic policy, proved for MLPActorCriticPolicy in unit mlp-consistency): "
           "evaluate_action(ps, o, a, mask) returns the value and log-prob that action_and_value(ps, o, k, mask) reported for its own sample a"]
ASSUMPTIONS = ["keys in postconditions are existential (derived from the step key)"]
DROPS = ["D1: isinstance(env.action_space, Box) resolved per configuration (Box and Discrete both enumerated)"]
NOT_DECIDED = []

F_STEP = "lerax.algorithm.on_policy:AbstractActorCriticOnPolicyAlgorithm.step"
F_COLLECT = "lerax.algorithm.on_policy:AbstractOnPolicyAlgorithm.collect_rollout"
F_INIT = "lerax.algorithm.on_policy:AbstractOnPolicyStepState.initial"
F_COND = "lerax.utils:filter_cond"


def box_env():
    return GenericEnv(Box(-jnp.ones((2,)), jnp.ones((2,))))


# the per-step obligations hold for EVERY num_envs / num_steps: both are dimension variables (the step function must not depend on them)
_NE, _TS = extract.symbolic_dims("NE, TS")
CONFIGS = {
    "PPO/box": (lambda: PPO(num_envs=_NE, num_steps=_TS, num_batches=1), box_env, lambda e: e),
    "PPO/box/TimeLimit": (lambda: PPO(num_envs=_NE, num_steps=_TS, num_batches=1), box_env, lambda e: W.TimeLimit(e, 7)),
    "PPO/discrete-masked": (lambda: PPO(num_envs=_NE, num_steps=_TS, num_batches=1), lambda: GenericEnv(Discrete(3), masked=True), lambda e: e),
    "A2C/box": (lambda: A2C(num_envs=_NE, num_steps=_TS), box_env, lambda e: e),
    "A2C/discrete/TimeLimit": (lambda: A2C(num_envs=_NE, num_steps=_TS), lambda: GenericEnv(Discrete(3)), lambda e: W.TimeLimit(e, 5)),
}


def step_state_struct(E):
    es = jax.eval_shape(lambda k: E.initial(key=k), jax.random.key(0))
    sd = jax.ShapeDtypeStruct
    return AbstractOnPolicyStepState(es, GPState(sd((1,), jnp.float32)), GCbStep(sd((1,), jnp.float32)))


def spec_step(algo, env, policy, st, kobs, kmask, kact, ktr, krew, kterm, kboot, kenv, kpol):
    """The property, written with the env's / policy's own component functions."""
    obs = env.observation(st.env_state, key=kobs)
    mask = env.action_mask(st.env_state, key=kmask)
    ps2, a, v, lp = policy.action_and_value(st.policy_state, obs, key=kact, action_mask=mask)
    if isinstance(env.action_space, Box):
        executed = jnp.clip(a, env.action_space.low, env.action_space.high)
    else:
        executed = a
    ns = env.transition(st.env_state, executed, key=ktr)
    r = env.reward(st.env_state, executed, ns, key=krew)
    term = env.terminal(ns, key=kterm)
    trunc = env.truncate(ns)
    done = term | trunc
    boot = algo.gamma * policy.value(ps2, env.observation(ns, key=kboot))[1]
    rew = r + jnp.where(trunc & ~term, boot, 0.0)  # only a step ended by truncation ALONE bootstraps
    fresh_env = env.initial(key=kenv)
    fresh_pol = policy.reset(key=kpol)
    env2 = jax.tree.map(lambda x, y: jnp.where(done, x, y), fresh_env, ns)
    pol2 = jax.tree.map(lambda x, y: jnp.where(done, x, y), fresh_pol, ps2)
    return dict(obs=obs, mask=mask, action=a, value=v, log_prob=lp, executed=executed, reward=rew, done=done,
                env_state=env2, policy_state=pol2, term=term, trunc=trunc, raw_reward=r, boot=boot, ns=ns, ps2=ps2)


HOLES = {"kobs": "env.observation", "kmask": "env.action_mask", "kact": "pi.action_and_value", "ktr": "env.transition",
         "krew": "env.reward", "kterm": "env.terminal", "kboot": "env.observation", "kenv": "env.initial", "kpol": "pi.reset"}


def _vary_action_box(E0, rng):
    """native replays: bounded action boxes are replaced in turn by asymmetric and half-bounded ones (same shape), so that clipping against EACH bound matters"""
    if not isinstance(E0.action_space, Box):
        return E0
    n = int(np.prod(E0.action_space.shape)) or 1
    variants = [None, (np.linspace(0.0, -1.0, n), np.linspace(1.0, 3.0, n)), (np.full(n, 0.25), np.full(n, np.inf)), (np.full(n, -np.inf), np.full(n, -0.25)), (np.full(n, -0.1), np.full(n, 0.05))]
    v = variants[int(rng.randint(len(variants)))]
    if v is None:
        return E0
    shape = E0.action_space.shape
    return eqx.tree_at(lambda e: e.action_space, E0, Box(jnp.asarray(v[0], jnp.float32).reshape(shape), jnp.asarray(v[1], jnp.float32).reshape(shape)))


def native_replay_factory(cfg):
    """R1: real PPO/A2C.step, real MLPActorCriticPolicy (satisfies the policy interface contract), pseudo-random
    generic environment with forced terminal/truncate flags; the property is evaluated natively on the outputs."""
    def replay(model):
        from lerax.policy import MLPActorCriticPolicy
        mk_algo, mk_env, build = CONFIGS[cfg]

        def make_inputs(rng):
            E = build(mk_env())
            k = jax.random.key(int(rng.randint(1 << 30)))
            pol = MLPActorCriticPolicy(E, feature_size=4, feature_width=8, value_width=8, action_width=8, key=k, log_std_init=1.0)
            es = kit.concrete_like(jax.eval_shape(lambda kk: E.initial(key=kk), k), rng)
            from lerax.callback import CallbackList
            cb = CallbackList([])
            st = AbstractOnPolicyStepState(es, None, cb.step_reset(None, key=k))
            return mk_algo(), E, pol, st, cb, jax.random.key(int(rng.randint(1 << 30)))

        def check(algo, E, pol, st, cb, k):
            nst, row = algo.step(E, pol, st, key=k, callback=cb)
            _, v2, lp2, _ = pol.evaluate_action(row.states, row.observations, row.actions, action_mask=row.action_masks)
            problems = []
            if not (np.allclose(v2, row.values, atol=1e-5) and np.allclose(lp2, row.log_probs, atol=1e-4)):
                problems.append("re-evaluating the stored action does not reproduce the stored value/log-prob")
            term = bool(opaque.OVERRIDES["env.terminal"][0])
            trunc = bool(opaque.OVERRIDES["env.truncate"][0])
            # recompute the raw reward of the executed (clipped) action from the generic env (keys ignored natively)
            a = row.actions
            ex = jnp.clip(a, E.action_space.low, E.action_space.high) if isinstance(E.action_space, Box) else a
            kk = jax.random.key(0)
            ns = E.transition(st.env_state, ex, key=kk)
            raw = E.reward(st.env_state, ex, ns, key=kk)
            if term and not np.allclose(row.rewards, raw, atol=1e-5):
                problems.append(f"a terminating step bootstrapped: stored reward {float(row.rewards)} != env reward {float(raw)} (term={term}, trunc={trunc})")
            if not term and not trunc and not np.allclose(row.rewards, raw, atol=1e-5):
                problems.append("reward of a non-final step is not the env reward of the clipped action")
            if bool(row.dones) != (term or trunc):
                problems.append("done != terminal | truncated")
            return (not problems), dict(problems=problems, stored_action=np.asarray(row.actions).tolist(),
                                        stored_log_prob=float(row.log_probs), reevaluated_log_prob=float(lp2),
                                        stored_reward=float(row.rewards), env_reward=float(raw))
        r1 = kit.native_search(check, make_inputs, bool_names=("env.terminal", "env.truncate"), trials=4)
        if r1.get("reproduced"):
            return r1

        # stage 2: generic (pseudo-random, key-insensitive) policy WITH a policy state; real step vs the spec, field by field
        def make_inputs2(rng):
            E = build(_vary_action_box(mk_env(), rng))
            pol = GenericActorCriticPolicy(E.action_space, E.observation_space, theta=jnp.asarray(rng.randn(2), jnp.float32))
            st = kit.concrete_like(step_state_struct(E), rng)
            return mk_algo(), E, pol, st, jax.random.key(int(rng.randint(1 << 30)))

        def check2(algo, E, pol, st, k):
            nst, row = algo.step(E, pol, st, key=k, callback=SimpleCallback())
            sp = spec_step(algo, E, pol, st, *([k] * 9))
            problems = []
            for nm, a, b in (("observations", row.observations, sp["obs"]), ("values", row.values, sp["value"]), ("log_probs", row.log_probs, sp["log_prob"]),
                             ("states", row.states, st.policy_state), ("action_masks", row.action_masks, sp["mask"]), ("dones", row.dones, sp["done"]),
                             ("rewards", row.rewards, sp["reward"]), ("next env_state", nst.env_state, sp["env_state"]),
                             ("next policy_state", nst.policy_state, sp["policy_state"])):
                if not kit.trees_close(a, b):
                    problems.append(f"{nm}: real {kit.tolist(a)} != spec {kit.tolist(b)}")
            return (not problems), dict(problems=problems)
        return kit.native_search(check2, make_inputs2, bool_names=("env.terminal", "env.truncate"), trials=10)
    return replay


def unit_step(cfg):
    def unit(S):
        S.under_contract(F_STEP)
        mk_algo, mk_env, build = CONFIGS[cfg]
        ctx = Ctx()
        algo = mk_algo()
        g, gc = kit.real_scalar("gamma")
        algo = eqx.tree_at(lambda a: a.gamma, algo, g)
        E0 = build(mk_env())
        pol0 = GenericActorCriticPolicy(E0.action_space, E0.observation_space)
        env_in, pol_in = sym(ctx, "env", E0), sym(ctx, "pi", pol0)
        st = sym(ctx, "st", step_state_struct(E0))
        cb = SimpleCallback()
        k, kc = kit.key_input("key")
        nst, row = run(ctx, lambda a, e, p, s, kk: a.step(e, p, s, key=kk, callback=cb), algo, env_in, pol_in, st, k)
        n_real_calls = len(ctx.calls)
        real_calls = list(ctx.calls)
        hs, holes = kit.holes_for(ctx, HOLES, kc)
        sp = run(ctx, lambda a, e, p, s, *ks: spec_step(a, e, p, s, *ks), algo, env_in, pol_in, st, *[hs[n] for n in HOLES])
        rp = native_replay_factory(cfg)
        eq = lambda a, b: sand(*[f for _, f in kit.tree_eq_named(a, b)])
        S.prove("step/observation-is-what-policy-saw", ctx, eq(row.observations, sp["obs"]), holes=holes, function=F_STEP, replay=rp,
                what=f"[{cfg}] stored observation = env.observation(state) = the observation given to the policy")
        S.prove("step/value-logprob-are-the-policys", ctx, sand(eq(row.values, sp["value"]), eq(row.log_probs, sp["log_prob"])),
                holes=holes, function=F_STEP, replay=rp,
                what=f"[{cfg}] stored value/log_prob are those action_and_value returned for that observation and mask")
        S.prove("step/stored-policy-state", ctx, eq(row.states, st.policy_state), function=F_STEP, replay=rp,
                what=f"[{cfg}] stored policy state is the one the policy acted from")
        if sp["mask"] is not None:
            S.prove("step/mask-recorded-and-applied", ctx, eq(row.action_masks, sp["mask"]), holes=holes, function=F_STEP, replay=rp,
                    what=f"[{cfg}] recorded action mask = env.action_mask(state) = the mask applied by the policy")
        else:
            S.fact("step/mask-recorded-and-applied", row.action_masks is None, function=F_STEP, what=f"[{cfg}] no mask offered, none recorded")
        S.prove("step/done", ctx, eq(row.dones, sp["done"]), holes=holes, function=F_STEP, replay=rp,
                what=f"[{cfg}] done = terminal | truncated of the transition driven with the clipped action")
        S.prove("step/reward-and-bootstrap", ctx, eq(row.rewards, sp["reward"]), holes=holes, function=F_STEP, replay=rp,
                what=f"[{cfg}] stored reward = env reward of the clipped action, + gamma*V(successor obs) iff truncated and not terminated")
        S.prove("step/no-bootstrap-on-termination", ctx,
                ir.simplies(sp["term"].scalar(), ir.seq(row.rewards.scalar(), sp["raw_reward"].scalar())), holes=holes, function=F_STEP, replay=rp,
                what=f"[{cfg}] a true termination never bootstraps (also when the same step is truncated)")
        S.prove("step/env-restarts", ctx, eq(nst.env_state, sp["env_state"]), holes=holes, function=F_STEP, replay=rp,
                what=f"[{cfg}] next env state = env.initial(k) after a done step, the successor otherwise")
        S.prove("step/policy-state-restarts", ctx, eq(nst.policy_state, sp["policy_state"]), holes=holes, function=F_STEP, replay=rp,
                what=f"[{cfg}] next policy state = policy.reset(k) after a done step, the policy's next state otherwise")
        # the stored sample re-evaluates to the stored value / log-prob (first PPO ratio = 1)
        aav = [c for c in real_calls if c.name == "pi.action_and_value"]
        if len(aav) != 1:
            S.fact("step/stored-sample-reevaluates", False, function=F_STEP, what="exactly one action_and_value call expected", detail=len(aav))
        else:
            c = aav[0]
            nth = 1  # operands: theta, policy-state leaf, observation, key, (mask)
            h_out, a_out, v_out, lp_out = c.outputs
            # interface contract instantiated at the real call: evaluate_action on the policy's OWN sample
            ops = c.operands
            # operands = theta leaves, policy state leaves, obs, key, (mask)
            ps_op = GPState(ops[nth])
            obs_op = ops[nth + 1]
            mask_op = ops[nth + 3] if len(ops) > nth + 3 else None
            ev_own = run(ctx, lambda p, ps, o, a, m: p.evaluate_action(ps, o, a, action_mask=m), pol_in, ps_op, obs_op, a_out, mask_op)
            iface = sand(ir.seq(ev_own[1].scalar(), v_out.scalar()), ir.seq(ev_own[2].scalar(), lp_out.scalar()))
            ev_row = run(ctx, lambda p, r: p.evaluate_action(r.states, r.observations, r.actions, action_mask=r.action_masks), pol_in, row)
            goal = sand(ir.seq(ev_row[1].scalar(), row.values.scalar()), ir.seq(ev_row[2].scalar(), row.log_probs.scalar()))
            S.prove("step/stored-sample-reevaluates", ctx, goal, hyps=[iface], function=F_STEP, replay=rp,
                    what=f"[{cfg}] evaluate_action(stored state, stored obs, STORED action, stored mask) reproduces the stored value and log-prob "
                         f"(so the first PPO ratio is 1) for every policy meeting the interface contract")
        S.samples.append(dict(config=cfg, opaque_calls=[c.name for c in real_calls]))
    return unit


def unit_filter_cond(S):
    """filter_cond(p, f, g) == where(p, f(), g()) on array leaves (static leaves must agree)."""
    S.under_contract(F_COND)
    ctx = Ctx()
    p, pc = kit.bool_scalar("p")
    a = sym(ctx, "a", GState(jax.ShapeDtypeStruct((2,), jnp.float32)))
    b = sym(ctx, "b", GState(jax.ShapeDtypeStruct((2,), jnp.float32)))
    out = run(ctx, lambda pp, x, y: filter_cond(pp, lambda: x, lambda: y), p, a, b)
    goal = sand(*[ir.seq(out.x.at(i), ir.site(pc, a.x.at(i), b.x.at(i))) for i in range(2)])
    S.prove("filter_cond/select", ctx, goal, function=F_COND, what="result leaves = true branch if pred else false branch")


def unit_initial(S):
    S.under_contract(F_INIT)
    ctx = Ctx()
    E0 = box_env()
    pol0 = GenericActorCriticPolicy(E0.action_space, E0.observation_space)
    env_in, pol_in = sym(ctx, "env", E0), sym(ctx, "pi", pol0)
    cb = SimpleCallback()
    k, kc = kit.key_input("key")
    st = run(ctx, lambda e, p, kk: AbstractOnPolicyStepState.initial(e, p, cb, kk), env_in, pol_in, k)
    hs, holes = kit.holes_for(ctx, {"ke": "env.initial", "kp": "pi.reset"}, kc)
    sp = run(ctx, lambda e, p, ke, kp: (e.initial(key=ke), p.reset(key=kp)), env_in, pol_in, hs["ke"], hs["kp"])
    S.prove("initial/fresh-env-and-policy-state", ctx, sand(kit.tree_eq(st.env_state, sp[0]), kit.tree_eq(st.policy_state, sp[1])),
            holes=holes, function=F_INIT, what="initial step state = (env.initial(k1), policy.reset(k2)) with k1, k2 derived from the key")
    S.prove("initial/keys-differ", ctx, list(holes.values())[0][0] != list(holes.values())[1][0],
            hyps=[_split_injective(ctx, kc, 2)] + kit.rng_ground_injectivity([list(holes.values())[0][0], list(holes.values())[1][0]]), function=F_INIT, what="env and policy receive different halves of the key")


def _split_injective(ctx, kc, n):
    split = ctx.uf("split", [ir.KeySort, z3.IntSort(), z3.IntSort()], ir.KeySort)
    return z3.Distinct(*[split(kc, z3.IntVal(n), z3.IntVal(i)) for i in range(n)])


def unit_collect(S):
    """collect_rollout: scan over num_steps whose body is `step` (callee contract) followed by per_step; row t is the
    row step returned at iteration t; then post_collect (C03).  `step` is replaced by an opaque stub STEP# so the
    obligation is about collect_rollout's own text (modular)."""
    S.under_contract(F_COLLECT)
    S.assume_ids("callee contract: step (proved in units step:*)", "callee contract: post_collect (C03)")
    from lerax.algorithm import on_policy as OP
    (T,) = extract.symbolic_dims("T")
    for name, mk in (("PPO", lambda n: PPO(num_envs=1, num_steps=n, num_batches=1)), ("A2C", lambda n: A2C(num_envs=1, num_steps=n))):
        ctx = Ctx()
        algo = mk(T)
        E0 = box_env()
        pol0 = GenericActorCriticPolicy(E0.action_space, E0.observation_space)
        env_in, pol_in = sym(ctx, "env", E0), sym(ctx, "pi", pol0)
        st = sym(ctx, "st", step_state_struct(E0))
        cb = SimpleCallback()
        k, kc = kit.key_input("key")
        sd = jax.ShapeDtypeStruct
        f = jnp.float32
        row_struct = jax.eval_shape(lambda o, a, r, d, lp, v, h: RolloutBuffer(o, a, r, d, lp, v, GPState(h)), sd((2,), f), sd((2,), f), sd((), f),
                                    sd((), jnp.bool_), sd((), f), sd((), f), sd((1,), f))
        st_struct = jax.tree.map(lambda x: sd(x.shape, x.dtype), step_state_struct(E0))

        def step_stub(self, env, policy, state, *, key, callback):
            return opaque.ocall("STEP#", (st_struct, row_struct), state, key)

        def post_stub(self, env, policy, step_state, buffer, *, key):
            opaque.ocall("POST#", sd((), f), step_state, key)  # records the call and its step-state / key operands
            return buffer

        cls = type(algo)
        with extract.patched((AbstractActorCriticOnPolicyAlgorithm, "step", step_stub), (AbstractActorCriticOnPolicyAlgorithm, "post_collect", post_stub)):
            fin, buf = run(ctx, lambda a, e, p, s, kk: a.collect_rollout(e, p, s, cb, kk), algo, env_in, pol_in, st, k)
        Tz = ctx.dim(T)
        scans = ctx.scans
        S.fact(f"{name}.collect/one-scan-of-num_steps", len(scans) == 1 and z3.is_expr(scans[0].length) and scans[0].length.eq(Tz) and not scans[0].reverse,
               function=F_COLLECT, what="exactly one forward scan whose trip count is num_steps (symbolic T)")
        post = [c for c in ctx.calls if c.name == "POST#"]
        S.fact(f"{name}.collect/post_collect-once-on-final-state", len(post) == 1, function=F_COLLECT, what="post_collect is called once, after the scan")
        if len(scans) != 1 or len(post) != 1:
            continue
        rec = scans[0]
        # consecution: for a fresh iteration j, carry(j+1) and the row at j are STEP#(carry(j), keys[j]) then per_step (identity for PPO/A2C)
        j = z3.Int("j")
        carry = rec.carry_sarrs(j)
        newc, ys = rec.body(carry, j)
        stepcalls = [c for c in ctx.calls if c.name == "STEP#"]
        c = stepcalls[-1]
        n_st = len(kit.leaves(st))
        goal_in = sand(*[kit.arr_eq_at(a, b, ()) for a, b in zip(c.operands[:n_st], carry)])
        goal_out = sand(*[kit.arr_eq_at(a, b, ()) for a, b in zip(c.outputs[:n_st], newc)],
                        *[kit.arr_eq_at(a, b, ()) for a, b in zip(c.outputs[n_st:], ys)])
        S.prove(f"{name}.collect/body-is-step", ctx, sand(goal_in, goal_out), hyps=[j >= 0, j < Tz], function=F_COLLECT,
                what="scan body at iteration j: (carry', row_j) = step(carry_j, key_j) with per_step the identity - row t of the buffer is step applied to the carry after t steps")
        keyop = c.operands[n_st].scalar()
        S.prove(f"{name}.collect/step-keys-derived-and-distinct", ctx,
                z3.BoolVal(ir.term_contains_safe(keyop, kc)) if hasattr(ir, "term_contains_safe") else z3.BoolVal(_contains(keyop, kc)),
                function=F_COLLECT, what="the key of iteration j is derived from the rollout key (split(key', T)[j])")
        # post_collect receives the FINAL carry and the stacked rows
        pc = post[0]
        final = rec.carry_sarrs(Tz)
        goal = sand(*[kit.arr_eq_at(a, b, ()) for a, b in zip(pc.operands[:n_st], final)])
        S.prove(f"{name}.collect/post_collect-sees-final-state", ctx, goal, function=F_COLLECT,
                what="post_collect (bootstrap value, C03) receives the step state after the last step")
        tt = z3.Int("t")
        ys_t = rec.ys_at(tt)
        S.prove(f"{name}.collect/row-t-is-step-t", ctx, sand(*[kit.arr_eq_at(a, y, ()) if False else
                                                              sand(*[ir.seq(a.at((tt,) + i), y.at(i)) for i in y.indices()])
                                                              for a, y in zip(kit.leaves(buf), ys_t)]),
                hyps=[tt >= 0, tt < Tz], function=F_COLLECT,
                what="row t of the buffer handed to post_collect / returned is the row produced by the scan body at iteration t (no reordering)")
        S.prove(f"{name}.collect/returns-final-state", ctx, kit.tree_eq(fin, jax.tree.unflatten(jax.tree.structure(fin, is_leaf=kit.is_sarr), final)),
                function=F_COLLECT, what="collect_rollout returns the step state after the last step")


def _contains(t, c):
    from lvc.vc import term_contains
    return term_contains(t, c)


_MLP_MEMO = {}


def native_mlp_replay(model):
    """R1: the real MLPActorCriticPolicy (scalar / vector Box, Discrete with masks, MultiDiscrete), several log_std_init values (action std != 1) and keys: evaluate_action of the
    policy's own sample reproduces the value and log-probability action_and_value reported."""
    if "r" in _MLP_MEMO:
        return _MLP_MEMO["r"]
    from lerax.policy import MLPActorCriticPolicy
    from lerax.space import MultiDiscrete
    import inspect
    has_lsi = "log_std_init" in inspect.signature(MLPActorCriticPolicy.__init__).parameters
    out = dict(reproduced=False, note="evaluate_action reproduces value and log-prob of the policy's own samples (Box (2,), Box (), Discrete masked, MultiDiscrete; log_std_init 0, -0.7, 0.4)")
    spaces = [("Box(2,)", Box(-jnp.ones((2,)), jnp.ones((2,))), None), ("Box(3,) wide", Box(-5 * jnp.ones((3,)), 5 * jnp.ones((3,))), None), ("Box()", Box(-1.0, 1.0), None),
              ("Discrete(3) masked", Discrete(3), jnp.array([True, False, True])), ("MultiDiscrete(2,3)", MultiDiscrete((2, 3)), None)]
    for sname, space, mask in spaces:
        for lsi in ((0.0, -0.7, 0.4) if (has_lsi and isinstance(space, Box)) else (None,)):
            try:
                E = GenericEnv(space, masked=mask is not None)
                kw = {} if lsi is None else dict(log_std_init=lsi)
                pol = MLPActorCriticPolicy(E, feature_size=4, feature_width=4, value_width=4, action_width=4, key=jax.random.key(3), **kw)
            except Exception:
                continue
            for seed in range(4):
                obs = jax.random.normal(jax.random.key(100 + seed), (2,))
                _, a, v, lp = pol.action_and_value(None, obs, key=jax.random.key(seed), action_mask=mask)
                _, v2, lp2, _ = pol.evaluate_action(None, obs, a, action_mask=mask)
                if not (abs(float(jnp.sum(lp)) - float(jnp.sum(lp2))) <= 1e-4 * (1 + abs(float(jnp.sum(lp)))) and abs(float(v) - float(v2)) <= 1e-5 * (1 + abs(float(v)))):
                    out = dict(reproduced=True, route="R1 (real MLPActorCriticPolicy.action_and_value then evaluate_action of the same sample)",
                               inputs=dict(action_space=sname, log_std_init=lsi, key=seed, observation=np.asarray(obs).tolist()),
                               observed=dict(action=np.asarray(a).tolist(), reported_log_prob=np.asarray(lp).tolist(), re_evaluated_log_prob=np.asarray(lp2).tolist(), value=float(v), re_evaluated_value=float(v2)))
                    _MLP_MEMO["r"] = out
                    return out
    _MLP_MEMO["r"] = out
    return out


def unit_mlp_consistency(S):
    """Interface contract proved for the shipped policy: the jaxprs of action_and_value and evaluate_action of the real
    MLPActorCriticPolicy share the encoder / heads; with the distribution's sample_and_log_prob / log_prob cut at the
    distreqx law (opaque), evaluate_action(obs, sample) reports the same value, and log_prob(sample) of the same law."""
    from lerax.policy import MLPActorCriticPolicy
    from lerax.policy.actor_critic import mlp as M
    fn = "lerax.policy.actor_critic.mlp:MLPActorCriticPolicy.action_and_value/evaluate_action"
    S.under_contract(fn)
    S.assume_ids("A-DISTREQX: sample_and_log_prob(k) returns (x, log_prob(x)) for the same law")
    for space_name, space in (("Box", Box(-jnp.ones((2,)), jnp.ones((2,)))), ("Discrete", Discrete(3))):
        ctx = Ctx()
        ctx.unroll_limit = 4
        E = GenericEnv(space, masked=isinstance(space, Discrete))
        pol = MLPActorCriticPolicy(E, feature_size=2, feature_width=2, feature_depth=1, value_width=2, value_depth=1, action_width=2, action_depth=1,
                                   key=jax.random.key(0))
        pol_in = sym(ctx, "pi", pol)
        obs = sym(ctx, "obs", jax.ShapeDtypeStruct((2,), jnp.float32))
        mask = sym(ctx, "mask", jax.ShapeDtypeStruct((3,), jnp.bool_)) if isinstance(space, Discrete) else None
        k, kc = kit.key_input("key")
        # cut the law at distreqx: sample_and_log_prob / log_prob / entropy of the distribution object become opaque
        # functions of the distribution's parameter leaves
        from lerax.distribution import base_distribution as BD
        sd = jax.ShapeDtypeStruct

        def salp(self, key):
            a = opaque.ocall("law.sample", sd(space.shape, jnp.int32 if isinstance(space, Discrete) else jnp.float32), jax.tree.leaves(self), key)
            return a, opaque.ocall("law.log_prob", sd(space.shape, jnp.float32), jax.tree.leaves(self), a)

        def lprob(self, value):
            return opaque.ocall("law.log_prob", sd(space.shape, jnp.float32), jax.tree.leaves(self), value)

        def ent(self):
            return opaque.ocall("law.entropy", sd((), jnp.float32), jax.tree.leaves(self))

        what_ = ("evaluate_action(o, a, mask) == (value, log_prob) reported by action_and_value(o, k, mask) for its own sample a (same features, same masked law)")
        try:
            with extract.patched((BD.AbstractDistreqxWrapper, "sample_and_log_prob", salp), (BD.AbstractDistreqxWrapper, "log_prob", lprob),
                                 (BD.AbstractDistreqxWrapper, "entropy", ent)):
                _, a, v, lp = run(ctx, lambda p, o, kk, m: p.action_and_value(None, o, key=kk, action_mask=m), pol_in, obs, k, mask)
                _, v2, lp2, _ = run(ctx, lambda p, o, aa, m: p.evaluate_action(None, o, aa, action_mask=m), pol_in, obs, a, mask)
        except ir.Unsupported as e:
            # the law no longer goes through the wrapper's sample_and_log_prob / log_prob (e.g. a subclass overrides one of them and draws its own random numbers): the cut at the
            # distreqx law is not available - decided by the native witness, otherwise undecided
            r = native_mlp_replay(None)
            if r.get("reproduced"):
                S.fact(f"mlp/{space_name}/same-value-and-logprob", False, function=fn, what=what_, shape=False, detail=f"extraction: {e}"[:200], replay=lambda m, r=r: r)
            else:
                S.undecided(f"mlp/{space_name}/same-value-and-logprob", f"unsupported by the translator: {e}; native re-evaluation agrees", function=fn, what=what_)
            continue
        S.prove(f"mlp/{space_name}/same-value-and-logprob", ctx, sand(ir.seq(v.scalar(), v2.scalar()), ir.seq(lp.scalar(), lp2.scalar())), function=fn, replay=native_mlp_replay,
                what="evaluate_action(o, a, mask) == (value, log_prob) reported by action_and_value(o, k, mask) for its own sample a (same features, same masked law)")


def _ctor_unit():
    from contracts import _ctor
    from lerax.algorithm import REINFORCE
    return _ctor.unit_constructor([(PPO, {}, ("gamma",)), (A2C, {}, ("gamma",)), (REINFORCE, {}, ("gamma",))])


UNITS = [(f"step:{c}", unit_step(c)) for c in CONFIGS] + [("filter_cond", unit_filter_cond), ("initial", unit_initial),
                                                         ("collect", unit_collect), ("mlp-consistency", unit_mlp_consistency), ("constructor", _ctor_unit())]
