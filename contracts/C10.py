"""C10 - Training schedule: step budget, iteration counter, target-network updates.

Under contract: AbstractAlgorithm.learn; num_iterations (on/off-policy); AbstractAlgorithmState.next;
AbstractOnPolicyAlgorithm.iteration, AbstractOffPolicyAlgorithm.iteration, DQN.iteration, SAC.iteration;
DQN.per_iteration; SAC.per_iteration / _soft_update_targets; the gating part of SAC.sac_train.
"""
from __future__ import annotations

import equinox as eqx
import jax
import jax.numpy as jnp
import numpy as np
import z3

from lerax.algorithm import PPO, A2C, REINFORCE, DQN, SAC
from lerax.algorithm import sac as SACM
from lerax.algorithm.base_algorithm import AbstractAlgorithm, AbstractAlgorithmState
from lerax.algorithm.on_policy import AbstractOnPolicyAlgorithm, AbstractOnPolicyState, AbstractOnPolicyStepState
from lerax.algorithm.off_policy import AbstractOffPolicyAlgorithm, AbstractOffPolicyState, AbstractOffPolicyStepState
from lerax.algorithm.dqn import DQNState
from lerax.buffer import ReplayBuffer, RolloutBuffer
from lerax.space import Box, Discrete

from lvc import kit, ir, extract, opaque
from lvc.extract import run, sym, symbolic_dims
from lvc.generic import (GenericEnv, GenericActorCriticPolicy, GenericQPolicy, GenericSACPolicy, GenericPolicy, GPState, GState, SimpleCallback,
                         GCbStep, GCbState)
from lvc.kit import Ctx, sand
from lvc.opaque import ocall

PROPERTY = "C10"
TRUSTED = ["A-INT", "A-XLA", "A-PURE", "induction over the iteration history (initiation + consecution discharged)",
           "callee contracts: collect_rollout / step (C04, C05), train (C08), sac_train's losses (C07)"]
ASSUMPTIONS = ["total_timesteps, num_envs, num_steps symbolic positive integers; target_update_interval, policy_frequency symbolic positive integers; tau real"]
DROPS = ["D1: num_envs == 1 vs > 1 and autotune enumerated"]
NOT_DECIDED = []
sd = jax.ShapeDtypeStruct
f32 = jnp.float32
OBS = Box(-jnp.ones((2,)), jnp.ones((2,)))


def unit_num_iterations(S):
    TOT, N, T = symbolic_dims("TOT, N, T")
    for cls, kw in ((PPO, dict(num_batches=1)), (A2C, {}), (REINFORCE, {}), (DQN, dict(buffer_size=8, learning_starts=1, batch_size=1)), (SAC, dict(buffer_size=8, learning_starts=1, batch_size=1))):
        fn = f"lerax.algorithm:{cls.__name__}.num_iterations"
        S.under_contract(fn)
        ctx = Ctx()
        algo = cls(num_envs=N, num_steps=T, **kw)
        n = ctx.dim(algo.num_iterations(TOT))
        tz, nz, sz = ctx.dim(TOT), ctx.dim(N), ctx.dim(T)
        S.prove(f"{cls.__name__}.num_iterations/floor", ctx, ir.seq(n, tz / (nz * sz)), hyps=[tz >= 0, nz >= 1, sz >= 1], function=fn,
                what="num_iterations(total) = floor(total / (num_envs*num_steps)) for all positive num_envs, num_steps")
        q = z3.Int("q")
        S.prove(f"{cls.__name__}.num_iterations/budget", ctx, z3.And(n * nz * sz <= tz, tz < (n + 1) * nz * sz), hyps=[tz >= 0, nz >= 1, sz >= 1, n == tz / (nz * sz)], function=fn,
                what="the iterations consume at most total_timesteps and fewer than one further iteration's worth is left over")


def unit_learn(S):
    """learn: scan of length num_iterations(total) whose body is self.iteration with per-iteration keys split from one key;
    returns the policy of the final state."""
    fn = "lerax.algorithm.base_algorithm:AbstractAlgorithm.learn"
    S.under_contract(fn)
    TOT, N, T = symbolic_dims("TOT, N, T")
    for cls, kw in ((PPO, dict(num_batches=1)), (DQN, dict(buffer_size=8, learning_starts=1, batch_size=1))):
        ctx = Ctx()
        algo = cls(num_envs=N, num_steps=T, **kw)
        env0 = GenericEnv(Discrete(3), observation_space=OBS)
        pol0 = GenericActorCriticPolicy(env0.action_space, OBS) if cls is PPO else GenericQPolicy(env0.action_space, OBS)
        env, pol = sym(ctx, "env", env0), sym(ctx, "pi", pol0)
        cb = SimpleCallback()
        k, kc = kit.key_input("key")
        # abstract algorithm state: (iteration_count, step_state, env, policy, opt_state, callback_state)
        if cls is PPO:
            mk_state = lambda c, x, h, cbst, th, o, cs: AbstractOnPolicyState(c, AbstractOnPolicyStepState(GState(x), GPState(h), GCbStep(cbst)), env0, eqx.tree_at(lambda p: p.theta, pol0, th), o, GCbState(cs))
        else:
            mk_state = lambda c, x, h, cbst, th, o, cs: AbstractOffPolicyState(c, AbstractOnPolicyStepState(GState(x), GPState(h), GCbStep(cbst)), env0, eqx.tree_at(lambda p: p.theta, pol0, th), o, GCbState(cs))
        st_struct = jax.eval_shape(mk_state, sd((), jnp.int32), sd((2,), f32), sd((1,), f32), sd((1,), f32), sd((2,), f32), sd((3,), f32), sd((1,), f32))

        def reset_stub(self, env_, policy_, *, key, callback):
            leaves = ocall("RESET#", jax.tree.leaves(st_struct), policy_.theta, key)
            return jax.tree.unflatten(jax.tree.structure(st_struct), leaves)

        def iter_stub(self, state, *, key, callback):
            leaves = ocall("ITER#", jax.tree.leaves(st_struct), jax.tree.leaves(state), key)
            return jax.tree.unflatten(jax.tree.structure(st_struct), leaves)

        with extract.patched((cls, "reset", reset_stub), (cls, "iteration", iter_stub)):
            out = run(ctx, lambda a, e, p, kk: type(a).learn.__wrapped__(a, e, p, TOT, key=kk, callback=cb) if hasattr(type(a).learn, "__wrapped__") else a.learn(e, p, TOT, key=kk, callback=cb),
                      algo, env, pol, k)
        name = cls.__name__
        tz, nz, sz = ctx.dim(TOT), ctx.dim(N), ctx.dim(T)
        ok = len(ctx.scans) == 1 and not ctx.scans[0].reverse
        S.fact(f"{name}.learn/one-forward-loop", ok, function=fn, what="one forward loop over the iterations")
        if not ok:
            continue
        rec = ctx.scans[0]
        S.prove(f"{name}.learn/loop-length-is-the-step-budget", ctx, ir.seq(rec.length, tz / (nz * sz)), hyps=[tz >= 0, nz >= 1, sz >= 1], function=fn,
                what="the loop runs exactly floor(total_timesteps / (num_envs*num_steps)) iterations")
        j, j2 = z3.Ints("j j2")
        carry = rec.carry_sarrs(j)
        n0 = len(ctx.calls)
        newc, _ = rec.body(carry, j)
        it = [c for c in ctx.calls[n0:] if c.name == "ITER#"]
        S.fact(f"{name}.learn/body-is-one-iteration", len(it) == 1, function=fn, what="each loop step performs exactly one self.iteration")
        if len(it) == 1:
            c = it[0]
            nst = len(carry)
            S.prove(f"{name}.learn/iteration-threads-the-state", ctx, sand(*[kit.arr_eq_at(a, b, ()) for a, b in zip(c.operands[:nst], carry)],
                                                                           *[kit.arr_eq_at(a, b, ()) for a, b in zip(c.outputs, newc)]), hyps=[j >= 0], function=fn,
                    what="iteration j maps the state after j iterations to the state after j+1")
            key_j = c.operands[nst].scalar()
            split = ctx.uf("split", [ir.KeySort, z3.IntSort(), z3.IntSort()], ir.KeySort)
            from lvc.vc import term_contains
            S.prove(f"{name}.learn/iteration-keys-derived", ctx, z3.BoolVal(term_contains(key_j, kc) and term_contains(key_j, j)), function=fn,
                    what="iteration j runs on key split(learn_key, num_iterations)[j], derived from the training key (pairwise different by A-RNG)")
        rs = [c for c in ctx.calls if c.name == "RESET#"]
        S.fact(f"{name}.learn/reset-once", len(rs) == 1, function=fn, what="the algorithm state is initialised once")
        final = rec.carry_sarrs(rec.length)
        # output policy = theta leaf of the final state (after on_training_end, which only touches callback state)
        theta_idx = [i for i, (p, l) in enumerate(jax.tree_util.tree_flatten_with_path(st_struct)[0]) if "theta" in jax.tree_util.keystr(p)][0]
        S.prove(f"{name}.learn/returns-final-policy", ctx, kit.arr_eq_at(out.theta, final[theta_idx], ()), function=fn,
                what="learn returns the policy held by the state after the last iteration")


def unit_next(S):
    fn = "lerax.algorithm.base_algorithm:AbstractAlgorithmState.next"
    S.under_contract(fn)
    ctx = Ctx()
    env0 = GenericEnv(Discrete(3), observation_space=OBS)
    pol0 = GenericQPolicy(env0.action_space, OBS)
    mk = lambda c, x, h, cbst, th, o, cs: AbstractOnPolicyState(c, AbstractOnPolicyStepState(GState(x), GPState(h), GCbStep(cbst)), env0, eqx.tree_at(lambda p: p.theta, pol0, th), o, GCbState(cs))
    args = (sd((), jnp.int32), sd((2,), f32), sd((1,), f32), sd((1,), f32), sd((2,), f32), sd((3,), f32), sd((1,), f32))
    st = sym(ctx, "st", jax.eval_shape(mk, *args))
    new = sym(ctx, "new", jax.eval_shape(mk, *args))
    out = run(ctx, lambda s, n: s.next(n.step_state, n.policy, n.opt_state), st, new)
    S.prove("next/counter-increments", ctx, ir.seq(out.iteration_count.scalar(), st.iteration_count.scalar() + 1), function=fn, what="iteration_count' = iteration_count + 1")
    S.prove("next/replaces-step-state-policy-opt-state", ctx, sand(kit.tree_eq(out.step_state, new.step_state), kit.tree_eq(out.policy, new.policy), kit.tree_eq(out.opt_state, new.opt_state)),
            function=fn, what="step_state, policy and opt_state are the given ones")
    S.prove("next/frame", ctx, sand(kit.tree_eq(out.env, st.env), kit.tree_eq(out.callback_state, st.callback_state)), function=fn, what="frame: env and callback_state unchanged")


def _onpolicy_state(env0, pol0, lanes=None):
    L = () if lanes is None else (lanes,)
    mk = lambda c, x, h, cbst, th, o, cs: AbstractOnPolicyState(c, AbstractOnPolicyStepState(GState(x), GPState(h), GCbStep(cbst)), env0, eqx.tree_at(lambda p: p.theta, pol0, th), o, GCbState(cs))
    return jax.eval_shape(mk, sd((), jnp.int32), sd(L + (2,), f32), sd(L + (1,), f32), sd(L + (1,), f32), sd((2,), f32), sd((3,), f32), sd((1,), f32))


def unit_iteration_on_policy(S):
    """on-policy iteration: one collection over num_envs lanes (each a scan of num_steps steps: C04), one train, counter+1, per_iteration."""
    fn = "lerax.algorithm.on_policy:AbstractOnPolicyAlgorithm.iteration"
    S.under_contract(fn)
    (N,) = symbolic_dims("N")
    for n_envs in (1, N):
        ctx = Ctx()
        algo = PPO(num_envs=n_envs, num_steps=4, num_batches=1)
        env0 = GenericEnv(Discrete(3), observation_space=OBS)
        pol0 = GenericActorCriticPolicy(env0.action_space, OBS)
        st = sym(ctx, "st", _onpolicy_state(env0, pol0, None if n_envs == 1 else N))
        cb = SimpleCallback()
        k, kc = kit.key_input("key")
        ss_struct = jax.tree.map(lambda x: sd(x.shape, x.dtype), _onpolicy_state(env0, pol0).step_state)

        def collect_stub(self, env_, policy_, step_state, callback, key):
            ns = ocall("COLLECT#", ss_struct, policy_.theta, step_state, key)
            buf = RolloutBuffer(jnp.zeros((4, 2)), jnp.zeros((4,), jnp.int32), ocall("COLLECT.rew#", sd((4,), f32), step_state, key), jnp.zeros((4,), bool), jnp.zeros((4,)), jnp.zeros((4,)),
                                GPState(jnp.zeros((4, 1))))
            return ns, buf

        def train_stub(self, policy_, opt_state, buffer, *, key):
            th, o = ocall("TRAIN#", (sd((2,), f32), sd((3,), f32)), policy_.theta, opt_state, key)
            return eqx.tree_at(lambda p: p.theta, policy_, th), o, {"loss": jnp.sum(th)}

        with extract.patched((AbstractOnPolicyAlgorithm, "collect_rollout", collect_stub), (PPO, "train", train_stub)):
            out = run(ctx, lambda a, s, kk: a.iteration(s, key=kk, callback=cb), algo, st, k)
        tag = f"PPO.iteration[num_envs={'1' if n_envs == 1 else 'N'}]"
        cc = [c for c in ctx.calls if c.name == "COLLECT#"]
        tr = [c for c in ctx.calls if c.name == "TRAIN#"]
        lanes_ok = len(cc) == 1 and (len(cc[0].levels) == (0 if n_envs == 1 else 1))
        if lanes_ok and n_envs != 1:
            lanes_ok = cc[0].levels[0] == (False,) + (True,) * (len(cc[0].operands) - 1)
        S.fact(f"{tag}/one-collection-per-environment", lanes_ok, function=fn,
               what="collect_rollout runs exactly once per environment (vmapped over step state and key, policy shared): num_envs*num_steps environment steps per iteration",
               detail=[(c.name, c.levels) for c in cc])
        S.fact(f"{tag}/one-train", len(tr) == 1, function=fn, what="exactly one training update per iteration")
        S.prove(f"{tag}/counter-advances-by-one", ctx, ir.seq(out.iteration_count.scalar(), st.iteration_count.scalar() + 1), function=fn, what="the iteration counter advances by exactly one")
        if len(tr) == 1:
            S.prove(f"{tag}/new-policy-is-trains", ctx, sand(kit.arr_eq_at(out.policy.theta, tr[0].outputs[0], ()), kit.arr_eq_at(out.opt_state, tr[0].outputs[1], ()),
                                                             kit.arr_eq_at(tr[0].operands[0], st.policy.theta, ())), function=fn, what="the state's policy/opt_state are train's results, computed from the current policy")
        if len(cc) == 1 and n_envs != 1:
            i, i2 = z3.Ints("i i2")
            Nz = ctx.dim(N)
            kop = cc[0].operands[-1]
            split = ctx.uf("split", [ir.KeySort, z3.IntSort(), z3.IntSort()], ir.KeySort)
            from lvc.vc import term_contains
            S.prove(f"{tag}/per-environment-keys", ctx, z3.BoolVal(term_contains(kop.at(i), kc) and term_contains(kop.at(i), i)), function=fn,
                    what="environment i collects with key split(rollout_key, num_envs)[i]")


def native_dqn_target_replay(model):
    """R1: the real DQN.per_iteration on a real DQNState (MLPQPolicy) for a grid of (num_envs, num_steps, interval, count), the counter-model's values first."""
    from lerax.policy import MLPQPolicy
    env = GenericEnv(Discrete(3), observation_space=OBS)
    p_on = MLPQPolicy(env, width_size=4, depth=1, key=jax.random.key(0))
    p_tg = MLPQPolicy(env, width_size=4, depth=1, key=jax.random.key(1))
    cands = []
    try:
        v = [int(kit.model_float(model, n, 0)) for n in ("N", "T", "interval", "st.iteration_count")]
        if v[0] >= 1 and v[1] >= 1 and v[2] >= 1 and v[3] >= 0:
            cands.append(tuple(v))
    except Exception:
        pass
    cands += [(n, t, i, c) for n in (1, 2, 3) for t in (1, 2, 4) for i in (1, 2, 4, 6) for c in range(0, 13)]
    for n, t, i, c in cands[:400]:
        algo = DQN(num_envs=n, num_steps=t, buffer_size=8, learning_starts=1, batch_size=1, target_update_interval=i)
        st = DQNState(jnp.asarray(c), None, env, p_on, None, None, target_policy=p_tg)
        out = algo.per_iteration(st)
        exp = p_on if c % i == 0 else p_tg
        same = all(bool(jnp.array_equal(a, b)) for a, b in zip(jax.tree.leaves(eqx.filter(out.target_policy, eqx.is_array)), jax.tree.leaves(eqx.filter(exp, eqx.is_array))))
        if not same:
            return dict(reproduced=True, route="R1 (real DQN.per_iteration on a real DQNState with MLPQPolicy networks)", inputs=dict(num_envs=n, num_steps=t, target_update_interval=i, iteration_count=c),
                        observed=dict(target_after=("online" if c % i != 0 else "old target"), expected=("online" if c % i == 0 else "old target")))
    return dict(reproduced=False, note=f"{min(len(cands), 400)} (num_envs, num_steps, interval, count) combinations agree")


def unit_dqn(S):
    S.default_replay = native_dqn_target_replay
    fnp = "lerax.algorithm.dqn:DQN.per_iteration"
    S.under_contract(fnp, "lerax.algorithm.dqn:DQN.iteration")
    ctx = Ctx()
    # every hyper-parameter the schedule could (wrongly) depend on is symbolic: num_envs, num_steps (dimension variables), the interval (integer input)
    Nn, Tn = symbolic_dims("N, T")
    algo = DQN(num_envs=Nn, num_steps=Tn, buffer_size=8, learning_starts=1, batch_size=1)
    I, Ic = kit.int_scalar("interval")
    algo = eqx.tree_at(lambda a: a.target_update_interval, algo, I)
    env0 = GenericEnv(Discrete(3), observation_space=OBS)
    pol0 = GenericQPolicy(env0.action_space, OBS)
    mk = lambda c, x, h, cbst, th, o, cs, tth: DQNState(c, AbstractOnPolicyStepState(GState(x), GPState(h), GCbStep(cbst)), env0, eqx.tree_at(lambda p: p.theta, pol0, th), o, GCbState(cs),
                                                         target_policy=eqx.tree_at(lambda p: p.theta, pol0, tth))
    st = sym(ctx, "st", jax.eval_shape(mk, sd((), jnp.int32), sd((2,), f32), sd((1,), f32), sd((1,), f32), sd((2,), f32), sd((3,), f32), sd((1,), f32), sd((2,), f32)))
    out = run(ctx, lambda a, s: a.per_iteration(s), algo, st)
    c = st.iteration_count.scalar()
    hyp = [Ic >= 1, c >= 0, ctx.dim(Nn) >= 1, ctx.dim(Tn) >= 1]
    S.prove("DQN.per_iteration/hard-update-on-multiples", ctx, sand(*[ir.seq(out.target_policy.theta.at(i), z3.If(c % Ic == 0, st.policy.theta.at(i), st.target_policy.theta.at(i))) for i in range(2)]),
            hyps=hyp, function=fnp, replay=native_dqn_target_replay, what="target' = online network if iteration_count mod interval == 0 else target (leaf-wise), for every num_envs, num_steps")
    frame = sand(kit.tree_eq(out.policy, st.policy), kit.tree_eq(out.step_state, st.step_state), kit.tree_eq(out.opt_state, st.opt_state),
                 ir.seq(out.iteration_count.scalar(), c), kit.tree_eq(out.callback_state, st.callback_state))
    S.prove("DQN.per_iteration/frame", ctx, frame, hyps=hyp, function=fnp, what="frame: nothing but the target network changes")
    # lemma over the contract (loop rule): Inv(c): target_c = P(c - c mod I), P(k) = online network after k iterations
    P = z3.Function("P", z3.IntSort(), z3.RealSort())
    cc, tgt = z3.Int("c"), z3.Real("target_c")
    S.prove("DQN/lemma-target-is-last-multiple(consecution)", Ctx(), z3.If((cc + 1) % Ic == 0, P(cc + 1), tgt) == P((cc + 1) - (cc + 1) % Ic),
            hyps=[Ic >= 1, cc >= 0, tgt == P(cc - cc % Ic)], function=fnp,
            what="Inv(c) => Inv(c+1): the target network equals the online network as of the most recent iteration whose count is a multiple of the interval, and is unchanged in between")
    S.prove("DQN/lemma-target-is-last-multiple(initiation)", Ctx(), z3.IntVal(0) - z3.IntVal(0) % Ic == 0, hyps=[Ic >= 1], function=fnp,
            what="Inv(0): reset installs the initial online network as target (count 0 is a multiple of every interval)")
    # DQN.reset installs policy as target
    ctx2 = Ctx()
    pol = sym(ctx2, "pi", pol0)
    env = sym(ctx2, "env", env0)
    k, kc = kit.key_input("key")

    def base_reset(self, env_, policy_, *, key, callback):
        s_ = _onpolicy_state(env0, pol0)
        leaves = [jnp.zeros(l.shape, l.dtype) for l in jax.tree.leaves(s_)]
        return jax.tree.unflatten(jax.tree.structure(s_), leaves)
    with extract.patched((AbstractOffPolicyAlgorithm, "reset", base_reset)):
        st0 = run(ctx2, lambda a, e, p, kk: a.reset(e, p, key=kk, callback=SimpleCallback()), DQN(num_envs=1, buffer_size=8, learning_starts=1, batch_size=1), env, pol, k)
    S.prove("DQN.reset/target-is-initial-policy", ctx2, kit.arr_eq_at(st0.target_policy.theta, pol.theta, ()), function="lerax.algorithm.dqn:DQN.reset", what="reset installs the given policy as target network")
    # DQN.iteration: dqn_train gets the CURRENT target; per_iteration applied once after next
    ctx3 = Ctx()
    st = sym(ctx3, "st", jax.eval_shape(mk, sd((), jnp.int32), sd((2,), f32), sd((1,), f32), sd((1,), f32), sd((2,), f32), sd((3,), f32), sd((1,), f32), sd((2,), f32)))
    algo3 = eqx.tree_at(lambda a: a.target_update_interval, DQN(num_envs=1, num_steps=Tn, buffer_size=8, learning_starts=1, batch_size=1), I)
    ss_struct = jax.tree.map(lambda x: sd(x.shape, x.dtype), _onpolicy_state(env0, pol0).step_state)

    class _SS(eqx.Module):
        env_state: GState
        policy_state: GPState
        callback_state: GCbStep
        buffer: jax.Array

    def collect_stub(self, env_, policy_, step_state, callback, key):
        ns = ocall("COLLECT#", ss_struct, policy_.theta, step_state, key)
        return _SS(ns.env_state, ns.policy_state, ns.callback_state, jnp.zeros((1,)))

    def train_stub(self, policy_, opt_state, buffer, target_policy, *, key):
        th, o = ocall("TRAIN#", (sd((2,), f32), sd((3,), f32)), policy_.theta, opt_state, target_policy.theta, key)
        return eqx.tree_at(lambda p: p.theta, policy_, th), o, {"loss": jnp.sum(th)}
    k3, _ = kit.key_input("key")
    with extract.patched((AbstractOffPolicyAlgorithm, "collect_rollout", collect_stub), (DQN, "dqn_train", train_stub)):
        out3 = run(ctx3, lambda a, s, kk: a.iteration(s, key=kk, callback=SimpleCallback()), algo3, st, k3)
    tr = [c for c in ctx3.calls if c.name == "TRAIN#"]
    S.fact("DQN.iteration/one-train", len(tr) == 1 and len([c for c in ctx3.calls if c.name == "COLLECT#"]) == 1, function="lerax.algorithm.dqn:DQN.iteration", what="one collection and one training update per iteration")
    c0 = st.iteration_count.scalar()
    S.prove("DQN.iteration/counter-advances-by-one", ctx3, ir.seq(out3.iteration_count.scalar(), c0 + 1), function="lerax.algorithm.dqn:DQN.iteration", what="the iteration counter advances by exactly one")
    if len(tr) == 1:
        S.prove("DQN.iteration/trains-against-current-target", ctx3, kit.arr_eq_at(tr[0].operands[2], st.target_policy.theta, ()), function="lerax.algorithm.dqn:DQN.iteration",
                what="the update is computed against the target network held by the state (before this iteration's target update)")
        S.prove("DQN.iteration/target-updated-once-after-training", ctx3,
                sand(*[ir.seq(out3.target_policy.theta.at(i), z3.If((c0 + 1) % Ic == 0, tr[0].outputs[0].at(i), st.target_policy.theta.at(i))) for i in range(2)]),
                hyps=[Ic >= 1, c0 >= 0], function="lerax.algorithm.dqn:DQN.iteration",
                what="after training, target' = new online network iff the NEW count is a multiple of the interval, else unchanged")


def unit_sac_targets(S):
    # "exactly once per iteration" for every num_envs / num_steps: Python-level `range(num_steps)`-style repetition is enumerated (1 and 3 steps, 1 and 2 environments)
    for ne, ns in ((1, 1), (2, 3)):
        _sac_targets(S, ne, ns)


def native_polyak_replay(ne, ns):
    """R1: the real SAC.per_iteration on real SoftQNetworks: targets' = tau*online + (1-tau)*targets, exactly one Polyak step."""
    def replay(model):
        from contracts import _native as N
        fx = N.sac_fixture(num_steps=ns)
        from lerax.algorithm.sac import SACState
        algo = eqx.tree_at(lambda a: a.num_envs, fx["algo"], ne)
        st = SACState(jnp.asarray(0), None, fx["env"], fx["policy"], fx["opt_state"], None, qf1=fx["qf1"], qf2=fx["qf2"], qf1_target=fx["qf1_target"], qf2_target=fx["qf2_target"],
                      q_opt_state=fx["q_opt_state"], log_alpha=fx["log_alpha"], alpha_opt_state=fx["alpha_opt_state"], target_entropy=fx["target_entropy"])
        out = algo.per_iteration(st)
        tau = float(algo.tau)
        worst = 0.0
        for new, on, old in ((out.qf1_target, st.qf1, st.qf1_target), (out.qf2_target, st.qf2, st.qf2_target)):
            for a, b, c_ in zip(jax.tree.leaves(eqx.filter(new, eqx.is_inexact_array)), jax.tree.leaves(eqx.filter(on, eqx.is_inexact_array)), jax.tree.leaves(eqx.filter(old, eqx.is_inexact_array))):
                worst = max(worst, float(jnp.max(jnp.abs(a - (tau * b + (1 - tau) * c_)))))
        if worst > 1e-6:
            return dict(reproduced=True, route="R1 (real SAC.per_iteration, real SoftQNetworks)", inputs=dict(num_envs=ne, num_steps=ns, tau=tau), observed=dict(max_abs_deviation_from_one_polyak_step=worst))
        return dict(reproduced=False, note="targets moved by exactly one Polyak step")
    return replay


def _sac_targets(S, ne, ns):
    fn = "lerax.algorithm.sac:_soft_update_targets"
    S.under_contract(fn, "lerax.algorithm.sac:SAC.per_iteration")
    T_ = f"[num_envs={ne},num_steps={ns}]"
    rp = native_polyak_replay(ne, ns)
    from lerax.algorithm.sac import SACState, SoftQNetwork, _soft_update_targets
    ctx = Ctx()
    mkq = lambda k: SoftQNetwork(2, 2, width_size=2, depth=1, key=jax.random.key(k))
    q1, q2, q1t, q2t = [sym(ctx, n, mkq(i)) for i, n in enumerate(("qf1", "qf2", "qf1T", "qf2T"))]
    tau, tauc = kit.real_scalar("tau")
    env0 = GenericEnv(Box(-jnp.ones((2,)), jnp.ones((2,))), observation_space=OBS)
    pol0 = GenericSACPolicy(env0.action_space, OBS)
    base = sym(ctx, "st", _onpolicy_state(env0, pol0))
    la, _ = kit.real_scalar("log_alpha")
    te, _ = kit.real_scalar("target_entropy")
    qo = sym(ctx, "q_opt", sd((3,), f32))
    ao = sym(ctx, "a_opt", sd((3,), f32))

    def mk(b, a, c, d, e, qo_, la_, ao_, te_):
        return SACState(b.iteration_count, b.step_state, b.env, b.policy, b.opt_state, b.callback_state, qf1=a, qf2=c, qf1_target=d, qf2_target=e, q_opt_state=qo_,
                        log_alpha=la_, alpha_opt_state=ao_, target_entropy=te_)
    st = mk(base, q1, q2, q1t, q2t, qo, la, ao, te)
    algo = eqx.tree_at(lambda a: a.tau, SAC(num_envs=1, num_steps=ns, buffer_size=8, learning_starts=1, batch_size=1), tau)
    algo_pi = eqx.tree_at(lambda a: a.num_envs, algo, ne)
    out = run(ctx, lambda a, s: a.per_iteration(s), algo_pi, st)
    conj = []
    for new, on, old in ((out.qf1_target, q1, q1t), (out.qf2_target, q2, q2t)):
        for ln, lo, lt in zip(kit.leaves(new), kit.leaves(on), kit.leaves(old)):
            for ix in ln.indices():
                conj.append(ir.seq(ln.at(ix), tauc * ir.zreal(lo.at(ix)) + (1 - tauc) * ir.zreal(lt.at(ix))))
    S.prove("soft-update/polyak" + T_, ctx, sand(*conj), function=fn, replay=rp, what="every target-critic parameter: theta' = tau*theta + (1-tau)*theta' (both critics, every leaf)")
    frame = sand(kit.tree_eq(out.qf1, q1), kit.tree_eq(out.qf2, q2), kit.tree_eq(out.policy, st.policy), ir.seq(out.log_alpha.scalar(), la.scalar()),
                 kit.tree_eq(out.q_opt_state, qo), kit.tree_eq(out.step_state, st.step_state), ir.seq(out.iteration_count.scalar(), st.iteration_count.scalar()))
    S.prove("soft-update/frame" + T_, ctx, frame, function=fn, what="frame: online critics, policy, temperature, optimiser states, counter unchanged")
    # SAC.iteration applies per_iteration exactly once, after sac_train; targets are not touched by sac_train (not among its outputs)
    import inspect
    sig = inspect.signature(SAC.sac_train)
    ret = str(sig.return_annotation)
    ctx2 = Ctx()
    calls = {"n": 0}
    orig = SAC.per_iteration

    def counting(self, state):
        calls["n"] += 1
        return orig(self, state)

    def train_stub(self, policy, opt_state, buffer, qf1, qf2, qf1_target, qf2_target, q_opt_state, log_alpha, alpha_opt_state, target_entropy, iteration_count, *, key):
        return policy, opt_state, qf1, qf2, q_opt_state, log_alpha, alpha_opt_state, {"q_loss": jnp.asarray(0.0)}

    class _SS(eqx.Module):
        env_state: GState
        policy_state: GPState
        callback_state: GCbStep
        buffer: jax.Array
    ss_struct = jax.tree.map(lambda x: sd(x.shape, x.dtype), _onpolicy_state(env0, pol0).step_state)

    def collect_stub(self, env_, policy_, step_state, callback, key):
        ns = ocall("COLLECT#", ss_struct, step_state, key)
        return _SS(ns.env_state, ns.policy_state, ns.callback_state, jnp.zeros((1,)))
    st2 = mk(sym(ctx2, "st", _onpolicy_state(env0, pol0)), *[sym(ctx2, n, mkq(i)) for i, n in enumerate(("qf1", "qf2", "qf1T", "qf2T"))], sym(ctx2, "q_opt", sd((3,), f32)),
             kit.real_scalar("log_alpha")[0], sym(ctx2, "a_opt", sd((3,), f32)), kit.real_scalar("target_entropy")[0])
    k2, _ = kit.key_input("key")
    with extract.patched((SAC, "per_iteration", counting), (SAC, "sac_train", train_stub), (AbstractOffPolicyAlgorithm, "collect_rollout", collect_stub)):
        out2 = run(ctx2, lambda a, s, kk: a.iteration(s, key=kk, callback=SimpleCallback()), algo, st2, k2)
    S.fact("SAC.iteration/soft-update-exactly-once" + T_, calls["n"] == 1, shape=False, function="lerax.algorithm.sac:SAC.iteration", what="per_iteration (the soft target update) is applied exactly once per iteration", detail=calls["n"])
    S.prove("SAC.iteration/counter-advances-by-one" + T_, ctx2, ir.seq(out2.iteration_count.scalar(), st2.iteration_count.scalar() + 1), function="lerax.algorithm.sac:SAC.iteration", what="the iteration counter advances by exactly one")
    conj2 = []
    for new, on, old in ((out2.qf1_target, st2.qf1, st2.qf1_target), (out2.qf2_target, st2.qf2, st2.qf2_target)):
        for ln, lo, lt in zip(kit.leaves(new), kit.leaves(on), kit.leaves(old)):
            for ix in ln.indices():
                conj2.append(ir.seq(ln.at(ix), tauc * ir.zreal(lo.at(ix)) + (1 - tauc) * ir.zreal(lt.at(ix))))
    S.prove("SAC.iteration/targets-follow-polyak-once" + T_, ctx2, sand(*conj2), function="lerax.algorithm.sac:SAC.iteration", replay=rp,
            what="with training abstracted to the identity, one iteration moves the targets by exactly one Polyak step towards the (new) online critics")


def native_sac_gating_replay(autotune, what):
    """R1: the counter-model's (policy_frequency, num_steps, iteration_count), then a small grid, through the real SAC.sac_train with real networks."""
    def replay(model):
        from contracts import _native as N
        cands = []
        try:
            F, T, it = int(kit.model_float(model, "policy_frequency", 0)), int(kit.model_float(model, "T", 0)), int(kit.model_float(model, "iteration_count", -1))
            if F >= 1 and T >= 1 and it >= 0:
                cands.append((F, T, it))
        except Exception:
            pass
        cands += [(F, T, it) for F in (2, 3, 4) for T in (1, 2, 3, 4) for it in range(0, 2 * F + 1)]
        tried = 0
        for F, T, it in cands:
            if what != "fixed" and it % F == 0:
                continue
            if tried >= 24:
                break
            tried += 1
            fx = N.sac_fixture(num_steps=T, policy_frequency=F, autotune=autotune)
            newpol, nost, _, _, _, nla, naost, _ = N.sac_train(fx, it)
            if what == "actor":
                d = max(N.max_abs_diff(newpol, fx["policy"]), N.max_abs_diff(nost, fx["opt_state"]))
            else:
                d = max(abs(float(nla) - float(fx["log_alpha"])), N.max_abs_diff(naost, fx["alpha_opt_state"]))
            if d > 0:
                return dict(reproduced=True, route="R1 (real SAC.sac_train, real MLPSACPolicy / SoftQNetwork / adam, random full buffer)",
                            inputs=dict(policy_frequency=F, num_steps=T, iteration_count=it, autotune=autotune, batch_size=4),
                            observed={("actor_and_opt_state_max_abs_change" if what == "actor" else "temperature_and_opt_state_max_abs_change"): d,
                                      "iteration_count mod policy_frequency": it % F})
        return dict(reproduced=False, note=f"{tried} native configurations: no change off schedule")
    return replay


def unit_sac_gating(S):
    """sac_train: actor and temperature change only when iteration_count mod policy_frequency == 0; temperature only with autotune."""
    from contracts import C07
    fn = "lerax.algorithm.sac:SAC.sac_train"
    S.under_contract(fn)
    T, NE = symbolic_dims("T, NE")
    for autotune in (True, False):
        ctx = Ctx()
        ctx.unroll_limit = 8
        d = C07._sac_setup(ctx, autotune, 2)
        F, Fc = kit.int_scalar("policy_frequency")
        d["algo"] = eqx.tree_at(lambda a: (a.policy_frequency, a.num_steps, a.num_envs), d["algo"], (F, T, NE))
        out = C07._run_sac(ctx, d)
        newpol, nost, nq1, nq2, nqost, nla, naost, log = out
        it = d["itc"]
        Tz = ctx.dim(T)
        hyp = [Fc >= 1, it >= 0, Tz >= 1, ctx.dim(NE) >= 1]
        off = it % Fc != 0
        tag = f"sac_train[autotune={autotune}]"
        S.prove(f"{tag}/actor-frozen-off-schedule", ctx, z3.Implies(off, z3.And(kit.tree_eq(newpol, d["pol"]), kit.tree_eq(nost, d["ost"]))), hyps=hyp, function=fn, replay=native_sac_gating_replay(autotune, "actor"),
                what="iteration_count mod policy_frequency != 0 => policy' = policy and actor opt_state' = opt_state (for every num_steps)")
        S.prove(f"{tag}/temperature-frozen-off-schedule", ctx, z3.Implies(off, z3.And(ir.seq(nla.scalar(), d["lac"]), kit.tree_eq(naost, d["aost"]))), hyps=hyp, function=fn, replay=native_sac_gating_replay(autotune, "temperature"),
                what="off schedule the temperature and its optimiser state are unchanged")
        if not autotune:
            S.prove(f"{tag}/temperature-fixed-without-autotune", ctx, z3.And(ir.seq(nla.scalar(), d["lac"]), kit.tree_eq(naost, d["aost"])), hyps=hyp, function=fn, replay=native_sac_gating_replay(autotune, "fixed"),
                    what="autotune=False: log_alpha' = log_alpha on every iteration")
        else:
            names = C07.uf_names_of([nla], ctx)
            S.fact(f"{tag}/temperature-moves-on-schedule", any(n.startswith("ALPHA_OPT") for n in names), function=fn,
                   what="non-vacuity: with autotune on, the new temperature does come from the temperature optimiser on scheduled iterations", detail=sorted(names)[:8])
        names = C07.uf_names_of(kit.leaves(newpol), ctx)
        S.fact(f"{tag}/actor-moves-on-schedule", any(n.startswith("ACTOR_OPT") for n in names), function=fn, what="non-vacuity: on scheduled iterations the actor update is applied")
        names_q = C07.uf_names_of(kit.leaves(nq1), ctx)
        S.fact(f"{tag}/critics-update-every-iteration", any(n.startswith("Q_OPT") for n in names_q), function=fn, what="the critics are updated on every iteration (not gated)")


def _ctor_unit():
    from contracts import _ctor
    return _ctor.unit_constructor([(SAC, {}, ("tau",))])


UNITS = [("constructor", _ctor_unit()), ("num_iterations", unit_num_iterations), ("learn", unit_learn), ("next", unit_next), ("iteration-on-policy", unit_iteration_on_policy), ("dqn", unit_dqn),
         ("sac-targets", unit_sac_targets), ("sac-gating", unit_sac_gating)]
