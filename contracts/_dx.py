"""Cut at the distreqx law level (A-DISTREQX): recording stand-ins for the distreqx distribution and bijector classes that
lerax's distribution modules construct.  A stand-in stores its constructor arguments unchanged; every law method is an
uninterpreted function `dx.<structure>.<method>` of those arguments (and the method's arguments).  The result shapes are taken
from the REAL distreqx class evaluated abstractly, so shape errors in lerax code still surface.
"""
from __future__ import annotations

import equinox as eqx
import jax
import jax.numpy as jnp
from distreqx import bijectors as RB
from distreqx import distributions as RD

from lvc import extract
from lvc.opaque import ocall

sd = jax.ShapeDtypeStruct


class Fake(eqx.Module):
    args: tuple
    kwargs: dict
    cls_name: str = eqx.field(static=True)
    kind: str = eqx.field(static=True)

    def signature(self):
        parts = []
        for a in list(self.args) + [v for _, v in sorted(self.kwargs.items())]:
            parts.append(_sig(a))
        kw = ",".join(k for k in sorted(self.kwargs) if self.kwargs[k] is not None)
        return f"{self.cls_name}({';'.join(p for p in parts if p)}{'|' + kw if kw else ''})"

    def realize(self):
        """the real distreqx object built from (abstract) versions of the stored arguments"""
        mod = RD if self.kind == "dist" else RB
        return getattr(mod, self.cls_name)(*[_real(a) for a in self.args], **{k: _real(v) for k, v in self.kwargs.items()})

    def arrays(self):
        return [l for l in jax.tree.leaves((self.args, self.kwargs)) if hasattr(l, "shape")]


def _sig(a):
    if isinstance(a, Fake):
        return a.signature()
    if isinstance(a, (tuple, list)):
        return "[" + ",".join(_sig(x) for x in a) + "]"
    if isinstance(a, (int, float, bool)) and not hasattr(a, "shape"):
        return repr(a)
    return ""


def _real(a):
    if isinstance(a, Fake):
        return a.realize()
    if isinstance(a, (tuple, list)):
        return type(a)(_real(x) for x in a)
    return a


METHODS = ("log_prob", "prob", "sample", "entropy", "mean", "mode", "sample_and_log_prob", "forward", "inverse", "forward_and_log_det")


def _make(cls_name, kind):
    def ctor(*args, **kwargs):
        return FakeDist(tuple(args), dict(kwargs), cls_name, kind)
    return ctor


class FakeDist(Fake):
    def _call(self, method, *margs):
        # result structure from the REAL distreqx class, evaluated abstractly (static fields such as Block.ndims stay static)
        struct = jax.eval_shape(lambda *a: getattr(self.realize(), method)(*a), *margs)
        return ocall(f"dx.{self.signature()}.{method}", struct, self.arrays(), *margs)

    def log_prob(self, value):
        return self._call("log_prob", value)

    def prob(self, value):
        return self._call("prob", value)

    def sample(self, key):
        return self._call("sample", key)

    def entropy(self):
        return self._call("entropy")

    def mean(self):
        return self._call("mean")

    def mode(self):
        return self._call("mode")

    def sample_and_log_prob(self, key):
        return self._call("sample_and_log_prob", key)

    # accessors used by lerax code
    @property
    def logits(self):
        lg = self.kwargs.get("logits")
        if lg is not None:
            return lg
        return jnp.log(self.kwargs["probs"])

    @property
    def probs(self):
        pr = self.kwargs.get("probs")
        if pr is not None:
            return pr
        return ocall(f"dx.{self.cls_name}.probs_of_logits", sd(self.kwargs["logits"].shape, jnp.float32), self.kwargs["logits"])

    @property
    def distribution(self):  # Transformed(distribution, bijector)
        return self.args[0] if self.args else self.kwargs["distribution"]

    @property
    def bijector(self):
        return self.args[1] if len(self.args) > 1 else self.kwargs["bijector"]

    @property
    def loc(self):
        return self.kwargs.get("loc", self.args[0] if self.args else None)

    @property
    def scale(self):
        return self.kwargs.get("scale", self.args[1] if len(self.args) > 1 else None)

    @property
    def scale_diag(self):
        return self.kwargs.get("scale_diag", self.args[1] if len(self.args) > 1 else None)

    def forward(self, x):
        return self._call("forward", x)


class FakeNS:
    def __init__(self, kind, names, real):
        self._real = real
        for n in names:
            setattr(self, n, _make(n, kind))

    def __getattr__(self, n):
        return getattr(self._real, n)


FD = FakeNS("dist", ("Categorical", "Bernoulli", "Normal", "MultivariateNormalDiag", "Transformed", "Independent"), RD)
FB = FakeNS("bij", ("Sigmoid", "ScalarAffine", "Chain", "Block", "Tanh"), RB)


def patches():
    """replace the `distributions` / `bijectors` names inside every lerax.distribution module"""
    import importlib
    out = []
    for m in ("base_distribution", "categorical", "bernoulli", "normal", "multivariate_normal", "squashed_normal", "squashed_multivariate_normal", "multi_categorical"):
        mod = importlib.import_module(f"lerax.distribution.{m}")
        if hasattr(mod, "distributions"):
            out.append((mod, "distributions", FD))
        if hasattr(mod, "bijectors"):
            out.append((mod, "bijectors", FB))
    return out


def cut():
    return extract.patched(*patches())
