"""C12 - JAX transformations are transparent; parallel environments never mix.

(a) Collection: relational obligation between two extractions of the real code - the N-lane collection inside `iteration`
    (N symbolic) and the single-lane `collect_rollout`: for a fresh lane i every output leaf of the former at i (rollout rows incl.
    advantages / returns, carried env / policy / callback state, replay buffer) equals the latter applied to (step_state[i], keys[i]).
(b) Environment functions: for every classic-control environment each component function vmapped over a symbolic batch equals, at a
    fresh lane, the unbatched function on that lane's inputs, and its program is closed and effect-free.
"""
from __future__ import annotations

import re

import equinox as eqx
import jax
import jax.numpy as jnp
import jax.random as jr
import numpy as np
import z3

from lerax.algorithm import PPO, A2C, DQN
from lerax.algorithm.on_policy import AbstractOnPolicyState, AbstractOnPolicyStepState
from lerax.algorithm.off_policy import AbstractOffPolicyState, AbstractOffPolicyStepState
from lerax.algorithm.dqn import DQNState
from lerax.buffer import ReplayBuffer
from lerax.env import classic_control as CC
from lerax.space import Box, Discrete

from lvc import kit, ir, extract
from lvc.extract import run, sym, symbolic_dims
from lvc.generic import GenericEnv, GenericActorCriticPolicy, GenericQPolicy, GPState, GState, SimpleCallback, GCbStep, GCbState
from lvc.kit import Ctx, sand
from lvc.opaque import ocall
from contracts import _dx

PROPERTY = "C12"
TRUSTED = ["A-XLA: jit / vmap / scan implement the jaxpr semantics encoded in lvc/ir.py; vmap of an uninterpreted collaborator is its pointwise application", "A-PURE", "A-DIFFRAX / A-MJX: the ODE solve is pointwise under vmap"]
ASSUMPTIONS = ["num_envs = N >= 2 symbolic; num_steps = 2 (unrolled); generic env / policy / callback"]
DROPS = ["D1: the num_envs == 1 branch is the unbatched program itself"]
NOT_DECIDED = ["numerical equality up to reassociation between XLA's batched and unbatched kernels (compiler numerics)"]
sd = jax.ShapeDtypeStruct
f32 = jnp.float32
OBS = Box(-jnp.ones((2,)), jnp.ones((2,)))


def _lane(tree, i):
    return jax.tree.map(lambda x: x[i], tree)


def unit_on_policy(S):
    fn = "lerax.algorithm.on_policy:AbstractOnPolicyAlgorithm.iteration"
    S.under_contract(fn, "lerax.algorithm.on_policy:AbstractOnPolicyAlgorithm.collect_rollout")
    (N,) = symbolic_dims("N", constraints=["N >= 2"])
    for name, mk in (("PPO", lambda: PPO(num_envs=N, num_steps=2, num_batches=1)), ("A2C", lambda: A2C(num_envs=N, num_steps=2))):
        ctx = Ctx()
        algo = mk()
        env0 = GenericEnv(Discrete(3), observation_space=OBS, masked=True)
        pol0 = GenericActorCriticPolicy(env0.action_space, OBS)
        cb = SimpleCallback("cb")
        mk_state = lambda c, x, h, cs, th, o, cst: AbstractOnPolicyState(c, AbstractOnPolicyStepState(GState(x), GPState(h), GCbStep(cs)), env0, eqx.tree_at(lambda p: p.theta, pol0, th), o, GCbState(cst))
        st = sym(ctx, "st", jax.eval_shape(mk_state, sd((), jnp.int32), sd((N, 2), f32), sd((N, 1), f32), sd((N, 1), f32), sd((2,), f32), sd((3,), f32), sd((1,), f32)))
        k, kc = kit.key_input("key")

        def train_stub(self, policy_, opt_state, buffer, *, key):
            return policy_, buffer, {"loss": jnp.asarray(0.0)}  # the rollout is returned in place of the optimiser state so that it is observable
        with extract.patched((type(algo), "train", train_stub)):
            out = run(ctx, lambda a, s, kk: a.iteration(s, key=kk, callback=cb), algo, st, k)
        i, ic = kit.int_scalar("lane")
        Nz = ctx.dim(N)
        single = run(ctx, lambda a, s, kk, ii: a.collect_rollout(s.env, s.policy, _lane(s.step_state, ii), cb, jr.split(jr.split(kk, 3)[0], N)[ii]), algo, st, k, i)
        hyp = [Nz >= 2, ic >= 0, ic < Nz]
        ss_b, buf_b = out.step_state, out.opt_state
        ss_s, buf_s = single
        named = jax.tree_util.tree_flatten_with_path((ss_b, buf_b), is_leaf=kit.is_sarr)[0]
        named_s = jax.tree_util.tree_flatten_with_path((ss_s, buf_s), is_leaf=kit.is_sarr)[0]
        for (pth, lb), (_, ls) in zip([x for x in named if kit.is_sarr(x[1])], [x for x in named_s if kit.is_sarr(x[1])]):
            nm = jax.tree_util.keystr(pth).replace("[0]", "step_state").replace("[1]", "rollout")
            S.prove(f"{name}/lane-i{nm}", ctx, kit.lane_eq(lb, ls, ic), hyps=hyp, function=fn,
                    what="lane i of the N-environment collection equals the single-environment collection from (step_state[i], split(rollout_key, N)[i]): nothing crosses between environments")
        S.samples.append(dict(algo=name, leaves=len(named)))


def unit_off_policy(S):
    fn = "lerax.algorithm.off_policy:AbstractOffPolicyAlgorithm.iteration"
    S.under_contract(fn, "lerax.algorithm.off_policy:AbstractOffPolicyAlgorithm.collect_rollout")
    (N,) = symbolic_dims("N", constraints=["N >= 2"])
    ctx = Ctx()
    algo = DQN(num_envs=N, buffer_size=2 * N, learning_starts=1, num_steps=2, batch_size=1)
    env0 = GenericEnv(Discrete(3), observation_space=OBS)
    pol0 = GenericQPolicy(env0.action_space, OBS, epsilon=0.0)
    cb = SimpleCallback("cb")
    rb = jax.eval_shape(lambda h: ReplayBuffer(2, OBS, Discrete(3), GPState(h)), sd((1,), f32))
    rbN = jax.tree.map(lambda x: sd((N,) + tuple(x.shape), x.dtype), rb)
    mk_state = lambda c, x, h, cs, th, o, cst, tth, *rbl: DQNState(c, AbstractOffPolicyStepState(GState(x), GPState(h), GCbStep(cs), jax.tree.unflatten(jax.tree.structure(rbN), rbl)), env0,
                                                                   eqx.tree_at(lambda p: p.theta, pol0, th), o, GCbState(cst), target_policy=eqx.tree_at(lambda p: p.theta, pol0, tth))
    st = sym(ctx, "st", jax.eval_shape(mk_state, sd((), jnp.int32), sd((N, 2), f32), sd((N, 1), f32), sd((N, 1), f32), sd((2,), f32), sd((3,), f32), sd((1,), f32), sd((2,), f32), *jax.tree.leaves(rbN)))
    st = eqx.tree_at(lambda s: (s.policy.epsilon, s.target_policy.epsilon), st, (0.0, 0.0))  # static Python floats (eval_shape abstracted them)
    k, kc = kit.key_input("key")

    def train_stub(self, policy_, opt_state, buffer, target_policy, *, key):
        return policy_, opt_state, {"loss": jnp.asarray(0.0)}
    with extract.patched((DQN, "dqn_train", train_stub)), _dx.cut():
        out = run(ctx, lambda a, s, kk: a.iteration(s, key=kk, callback=cb), algo, st, k)
        i, ic = kit.int_scalar("lane")
        single = run(ctx, lambda a, s, kk, ii: a.collect_rollout(s.env, s.policy, _lane(s.step_state, ii), cb, jr.split(jr.split(kk, 3)[0], N)[ii]), algo, st, k, i)
    Nz = ctx.dim(N)
    hyp = [Nz >= 2, ic >= 0, ic < Nz, z3.ForAll([z3.Int("e0")], st.step_state.buffer.position.at(z3.Int("e0")) >= 0)]
    named = [x for x in jax.tree_util.tree_flatten_with_path(out.step_state, is_leaf=kit.is_sarr)[0] if kit.is_sarr(x[1])]
    named_s = [x for x in jax.tree_util.tree_flatten_with_path(single, is_leaf=kit.is_sarr)[0] if kit.is_sarr(x[1])]
    for (pth, lb), (_, ls) in zip(named, named_s):
        S.prove(f"DQN/lane-i{jax.tree_util.keystr(pth)}", ctx, kit.lane_eq(lb, ls, ic), hyps=hyp, function=fn,
                what="lane i (env state, policy state, callback state and the environment's OWN replay buffer) equals the single-environment collection on lane i's inputs")


def diffeqsolve_euler(term, solver=None, t0=None, t1=None, dt0=None, y0=None, args=None, saveat=None, stepsize_controller=None, **kw):
    import types
    y1 = y0 + (t1 - t0) * term.vf(t0, y0, args)
    return types.SimpleNamespace(ys=y1[None])


def uniform_stub(key, shape=(), dtype=float, minval=0.0, maxval=1.0, **kw):
    shape = tuple(shape)
    return ocall("uniform", sd(shape, f32), key, jnp.broadcast_to(jnp.asarray(minval, f32), shape), jnp.broadcast_to(jnp.asarray(maxval, f32), shape))


def unit_envs(S):
    """every component function of the classic-control environments: vmapped over a symbolic batch == pointwise; closed, effect-free, re-extraction identical."""
    (B,) = symbolic_dims("B")
    import diffrax
    for ename in ("CartPole", "MountainCar", "ContinuousMountainCar", "Acrobot", "Pendulum"):
        cls = getattr(CC, ename)
        env = cls()
        fnp = f"lerax.env.classic_control:{ename}"
        st0 = jax.eval_shape(lambda kk: env.initial(key=kk), jax.random.key(0))
        ysh = st0.y.shape
        a_struct = sd((), jnp.int32) if isinstance(env.action_space, Discrete) else sd(env.action_space.shape, f32)
        State = type(env.initial(key=jax.random.key(0)))
        funcs = {
            "dynamics": (lambda y, a: env.dynamics(jnp.asarray(0.0), y, a), (sd(ysh, f32), a_struct)),
            "clip": (lambda y: env.clip(y), (sd(ysh, f32),)),
            "observation": (lambda y: env.observation(State(y=y, t=jnp.asarray(0.0)), key=jax.random.key(0)), (sd(ysh, f32),)),
            "reward": (lambda y, a, ny: env.reward(State(y=y, t=jnp.asarray(0.0)), a, State(y=ny, t=jnp.asarray(0.0)), key=jax.random.key(0)), (sd(ysh, f32), a_struct, sd(ysh, f32))),
            "terminal": (lambda y: env.terminal(State(y=y, t=jnp.asarray(0.0)), key=jax.random.key(0)), (sd(ysh, f32),)),
            "transition": (lambda y, a: env.transition(State(y=y, t=jnp.asarray(0.0)), a, key=jax.random.key(0)).y, (sd(ysh, f32), a_struct)),
        }
        for fname, (f, structs) in funcs.items():
            S.under_contract(f"{fnp}.{fname}")
            ctx = Ctx()
            ins = [sym(ctx, f"in{j}", sd((B,) + tuple(s.shape), s.dtype)) for j, s in enumerate(structs)]
            i, ic = kit.int_scalar("lane")
            with extract.patched((diffrax, "diffeqsolve", diffeqsolve_euler)):
                tr_b, dyn_b = extract.trace(lambda *xs: jax.vmap(f)(*xs), ins)
                outb = extract.eval_traced(ctx, tr_b, dyn_b)
                outs = run(ctx, lambda ii, *xs: f(*[x[ii] for x in xs]), i, *ins)
                tr_b2, _ = extract.trace(lambda *xs: jax.vmap(f)(*xs), ins)
            Bz = ctx.dim(B)
            S.prove(f"{ename}.{fname}/vmap-is-pointwise", ctx, kit.lane_eq(outb, outs, ic), hyps=[Bz >= 1, ic >= 0, ic < Bz], function=f"{fnp}.{fname}", nl_budget_ms=-4000,
                    what="the function vmapped over a batch gives, at every lane, the result of the unbatched function on that lane's inputs (no cross-lane operation)")
            txt1, txt2 = [re.sub(r"0x[0-9a-f]+", "0x", str(t.closed_jaxpr)) for t in (tr_b, tr_b2)]
            S.fact(f"{ename}.{fname}/closed-effect-free-deterministic-extraction", not tr_b.closed_jaxpr.effects and txt1 == txt2, function=f"{fnp}.{fname}",
                   what="the extracted program has no effects and re-extraction gives the identical program: the result depends only on the explicit arguments (eager, jit and vmap run the same jaxpr)")


UNITS = [("collection-on-policy", unit_on_policy), ("collection-off-policy", unit_off_policy), ("env-functions", unit_envs)]
