"""C12 - JAX transformations are transparent; parallel environments never mix.

(a) Collection: relational obligation between two extractions of the real code - the N-lane collection inside `iteration`
    (N symbolic) and the single-lane `collect_rollout`: for a fresh lane i every output leaf of the former at i (rollout rows incl.
    advantages / returns, carried env / policy / callback state, replay buffer) equals the latter applied to (step_state[i], keys[i]).
(b) Environment functions: for every classic-control environment each component function vmapped over a symbolic batch equals, at a
    fresh lane, the unbatched function on that lane's inputs, and its program is closed and effect-free.
"""
from __future__ import annotations

import re

import equinox as eqx
import jax
import jax.numpy as jnp
import jax.random as jr
import numpy as np
import z3

from lerax.algorithm import PPO, A2C, DQN
from lerax.algorithm.on_policy import AbstractOnPolicyState, AbstractOnPolicyStepState
from lerax.algorithm.off_policy import AbstractOffPolicyState, AbstractOffPolicyStepState
from lerax.algorithm.dqn import DQNState
from lerax.buffer import ReplayBuffer
from lerax.env import classic_control as CC
from lerax.space import Box, Discrete

from lvc import kit, ir, extract
from lvc.extract import run, sym, symbolic_dims
from lvc.generic import GenericEnv, GenericActorCriticPolicy, GenericQPolicy, GPState, GState, SimpleCallback, GCbStep, GCbState
from lvc.kit import Ctx, sand
from lvc.opaque import ocall
from contracts import _dx

PROPERTY = "C12"
TRUSTED = ["A-XLA: jit / vmap / scan implement the jaxpr semantics encoded in lvc/ir.py; vmap of an uninterpreted collaborator is its pointwise application", "A-PURE", "A-DIFFRAX / A-MJX: the ODE solve is pointwise under vmap"]
ASSUMPTIONS = ["num_envs = N >= 2 symbolic; num_steps = 2 (unrolled); generic env / policy / callback"]
DROPS = ["D1: the num_envs == 1 branch is the unbatched program itself"]
NOT_DECIDED = ["numerical equality up to reassociation between XLA's batched and unbatched kernels (compiler numerics)"]
sd = jax.ShapeDtypeStruct
f32 = jnp.float32
OBS = Box(-jnp.ones((2,)), jnp.ones((2,)))


def _lane(tree, i):
    return jax.tree.map(lambda x: x[i], tree)


POISON = (None, float("nan"), float("inf"), -1e30)


def native_lane_replay(make_algo, make_state, train_patch, N=3):
    """R1 (relational): the real `iteration` natively on N concrete lanes with pseudo-random generic collaborators vs the real single-lane `collect_rollout` on
    lane i's inputs, with the OTHER lanes set in turn to random, NaN, inf and huge values - lane i must not notice."""
    cache = {}

    def replay(model):
        if "r" not in cache:
            cache["r"] = _replay(model)
        return cache["r"]

    def _replay(model):
        from lvc import opaque
        algo = make_algo(N)
        cb = SimpleCallback("cb")
        rng = np.random.RandomState(5)
        old = opaque.IGNORE_KEYS
        opaque.IGNORE_KEYS = False
        try:
            for poison in POISON:
                for lane in (0, N - 1):
                    st = make_state(N, rng)
                    if poison is not None:
                        def poke(x):
                            if not (eqx.is_inexact_array(x) and x.ndim >= 1 and x.shape[0] == N):
                                return x
                            m = (jnp.arange(N) != lane).reshape((N,) + (1,) * (x.ndim - 1))
                            return jnp.where(m, jnp.asarray(poison, x.dtype), x)
                        st = eqx.tree_at(lambda s: s.step_state.env_state, st, jax.tree.map(poke, st.step_state.env_state))
                    key = jax.random.key(11)
                    with extract.patched(train_patch):
                        out = algo.iteration(st, key=key, callback=cb)
                    single = algo.collect_rollout(st.env, st.policy, _lane(st.step_state, lane), cb, jr.split(jr.split(key, 3)[0], N)[lane])
                    got = out.step_state if not isinstance(single, tuple) else (out.step_state, out.opt_state)
                    gl = [x for x in jax.tree.leaves(_lane_tree(got, lane)) if eqx.is_array(x)]
                    sl = [x for x in jax.tree.leaves(single) if eqx.is_array(x)]
                    for n, (a, b) in enumerate(zip(gl, sl)):
                        a, b = np.asarray(jax.random.key_data(a) if jax.dtypes.issubdtype(a.dtype, jax.dtypes.prng_key) else a), np.asarray(jax.random.key_data(b) if jax.dtypes.issubdtype(b.dtype, jax.dtypes.prng_key) else b)
                        if a.shape != b.shape or not np.allclose(a, b, rtol=1e-5, atol=1e-6, equal_nan=True):
                            return dict(reproduced=True, route="R1 relational (real iteration on N lanes vs real collect_rollout on one lane; generic collaborators = deterministic pseudo-random functions)",
                                        inputs=dict(N=N, lane=lane, other_lanes_env_state=("random" if poison is None else repr(poison)), key=11),
                                        observed=dict(leaf=n, batched_lane=a.tolist(), single=b.tolist()))
            return dict(reproduced=False, note=f"{2 * len(POISON)} native lane comparisons agree")
        finally:
            opaque.IGNORE_KEYS = old
    return replay


def _lane_tree(tree, i):
    return jax.tree.map(lambda x: x[i] if eqx.is_array(x) else x, tree)


def unit_on_policy(S):
    fn = "lerax.algorithm.on_policy:AbstractOnPolicyAlgorithm.iteration"
    S.under_contract(fn, "lerax.algorithm.on_policy:AbstractOnPolicyAlgorithm.collect_rollout")
    (N,) = symbolic_dims("N", constraints=["N >= 2"])
    for name, mk in (("PPO", lambda: PPO(num_envs=N, num_steps=2, num_batches=1)), ("A2C", lambda: A2C(num_envs=N, num_steps=2))):
        ctx = Ctx()
        algo = mk()
        env0 = GenericEnv(Discrete(3), observation_space=OBS, masked=True)
        pol0 = GenericActorCriticPolicy(env0.action_space, OBS)
        cb = SimpleCallback("cb")
        mk_state = lambda c, x, h, cs, th, o, cst: AbstractOnPolicyState(c, AbstractOnPolicyStepState(GState(x), GPState(h), GCbStep(cs)), env0, eqx.tree_at(lambda p: p.theta, pol0, th), o, GCbState(cst))
        st = sym(ctx, "st", jax.eval_shape(mk_state, sd((), jnp.int32), sd((N, 2), f32), sd((N, 1), f32), sd((N, 1), f32), sd((2,), f32), sd((3,), f32), sd((1,), f32)))
        k, kc = kit.key_input("key")

        def train_stub(self, policy_, opt_state, buffer, *, key):
            return policy_, buffer, {"loss": jnp.asarray(0.0)}  # the rollout is returned in place of the optimiser state so that it is observable
        with extract.patched((type(algo), "train", train_stub)):
            out = run(ctx, lambda a, s, kk: a.iteration(s, key=kk, callback=cb), algo, st, k)
        i, ic = kit.int_scalar("lane")
        Nz = ctx.dim(N)
        single = run(ctx, lambda a, s, kk, ii: a.collect_rollout(s.env, s.policy, _lane(s.step_state, ii), cb, jr.split(jr.split(kk, 3)[0], N)[ii]), algo, st, k, i)
        hyp = [Nz >= 2, ic >= 0, ic < Nz]
        cls = type(algo)
        rp = native_lane_replay((lambda n, cls=cls: cls(num_envs=n, num_steps=2, num_batches=1) if cls is PPO else cls(num_envs=n, num_steps=2)),
                                (lambda n, rng, mk_state=mk_state: mk_state(jnp.asarray(0), *[jnp.asarray(rng.randn(*s), f32) for s in ((n, 2), (n, 1), (n, 1), (2,), (3,), (1,))])),
                                (cls, "train", train_stub))
        ss_b, buf_b = out.step_state, out.opt_state
        ss_s, buf_s = single
        named = jax.tree_util.tree_flatten_with_path((ss_b, buf_b), is_leaf=kit.is_sarr)[0]
        named_s = jax.tree_util.tree_flatten_with_path((ss_s, buf_s), is_leaf=kit.is_sarr)[0]
        for (pth, lb), (_, ls) in zip([x for x in named if kit.is_sarr(x[1])], [x for x in named_s if kit.is_sarr(x[1])]):
            nm = jax.tree_util.keystr(pth).replace("[0]", "step_state").replace("[1]", "rollout")
            S.prove(f"{name}/lane-i{nm}", ctx, kit.lane_eq(lb, ls, ic), hyps=hyp, function=fn, replay=rp,
                    what="lane i of the N-environment collection equals the single-environment collection from (step_state[i], split(rollout_key, N)[i]): nothing crosses between environments")
        S.samples.append(dict(algo=name, leaves=len(named)))


def unit_off_policy(S):
    fn = "lerax.algorithm.off_policy:AbstractOffPolicyAlgorithm.iteration"
    S.under_contract(fn, "lerax.algorithm.off_policy:AbstractOffPolicyAlgorithm.collect_rollout")
    (N,) = symbolic_dims("N", constraints=["N >= 2"])
    ctx = Ctx()
    algo = DQN(num_envs=N, buffer_size=2 * N, learning_starts=1, num_steps=2, batch_size=1)
    env0 = GenericEnv(Discrete(3), observation_space=OBS)
    pol0 = GenericQPolicy(env0.action_space, OBS, epsilon=0.0)
    cb = SimpleCallback("cb")
    rb = jax.eval_shape(lambda h: ReplayBuffer(2, OBS, Discrete(3), GPState(h)), sd((1,), f32))
    rbN = jax.tree.map(lambda x: sd((N,) + tuple(x.shape), x.dtype), rb)
    mk_state = lambda c, x, h, cs, th, o, cst, tth, *rbl: DQNState(c, AbstractOffPolicyStepState(GState(x), GPState(h), GCbStep(cs), jax.tree.unflatten(jax.tree.structure(rbN), rbl)), env0,
                                                                   eqx.tree_at(lambda p: p.theta, pol0, th), o, GCbState(cst), target_policy=eqx.tree_at(lambda p: p.theta, pol0, tth))
    st = sym(ctx, "st", jax.eval_shape(mk_state, sd((), jnp.int32), sd((N, 2), f32), sd((N, 1), f32), sd((N, 1), f32), sd((2,), f32), sd((3,), f32), sd((1,), f32), sd((2,), f32), *jax.tree.leaves(rbN)))
    st = eqx.tree_at(lambda s: (s.policy.epsilon, s.target_policy.epsilon), st, (0.0, 0.0))  # static Python floats (eval_shape abstracted them)
    k, kc = kit.key_input("key")

    def train_stub(self, policy_, opt_state, buffer, target_policy, *, key):
        return policy_, opt_state, {"loss": jnp.asarray(0.0)}
    with extract.patched((DQN, "dqn_train", train_stub)), _dx.cut():
        out = run(ctx, lambda a, s, kk: a.iteration(s, key=kk, callback=cb), algo, st, k)
        i, ic = kit.int_scalar("lane")
        single = run(ctx, lambda a, s, kk, ii: a.collect_rollout(s.env, s.policy, _lane(s.step_state, ii), cb, jr.split(jr.split(kk, 3)[0], N)[ii]), algo, st, k, i)
    Nz = ctx.dim(N)
    hyp = [Nz >= 2, ic >= 0, ic < Nz, z3.ForAll([z3.Int("e0")], st.step_state.buffer.position.at(z3.Int("e0")) >= 0)]
    def conc_state(n, rng):
        rb1 = ReplayBuffer(2, OBS, Discrete(3), GPState(jnp.zeros((1,), f32)))
        rbn = jax.tree.map(lambda x: jnp.broadcast_to(x, (n,) + x.shape), rb1)
        s = mk_state(jnp.asarray(0), *[jnp.asarray(rng.randn(*sh), f32) for sh in ((n, 2), (n, 1), (n, 1), (2,), (3,), (1,), (2,))], *jax.tree.leaves(rbn))
        return eqx.tree_at(lambda s: (s.policy.epsilon, s.target_policy.epsilon), s, (0.0, 0.0))

    def off_replay(model):
        with _dx.cut():
            return native_lane_replay(lambda n: DQN(num_envs=n, buffer_size=2 * n, learning_starts=1, num_steps=2, batch_size=1), conc_state, (DQN, "dqn_train", train_stub))(model)
    rp = off_replay
    named = [x for x in jax.tree_util.tree_flatten_with_path(out.step_state, is_leaf=kit.is_sarr)[0] if kit.is_sarr(x[1])]
    named_s = [x for x in jax.tree_util.tree_flatten_with_path(single, is_leaf=kit.is_sarr)[0] if kit.is_sarr(x[1])]
    for (pth, lb), (_, ls) in zip(named, named_s):
        S.prove(f"DQN/lane-i{jax.tree_util.keystr(pth)}", ctx, kit.lane_eq(lb, ls, ic), hyps=hyp, function=fn, replay=rp,
                what="lane i (env state, policy state, callback state and the environment's OWN replay buffer) equals the single-environment collection on lane i's inputs")


def unit_off_policy_reset(S):
    """reset with N environments: lane i of the warm-up (initial state + learning_starts steps into that environment's own buffer) equals the single-environment
    initial + collect_learning_starts from the i-th per-environment keys."""
    fn = "lerax.algorithm.off_policy:AbstractOffPolicyAlgorithm.reset"
    S.under_contract(fn, "lerax.algorithm.off_policy:AbstractOffPolicyAlgorithm.collect_learning_starts")
    (N,) = symbolic_dims("N", constraints=["N >= 2"])
    ctx = Ctx()
    algo = DQN(num_envs=N, buffer_size=2 * N, learning_starts=2, num_steps=1, batch_size=1)
    env0 = GenericEnv(Discrete(3), observation_space=OBS)
    pol0 = GenericQPolicy(env0.action_space, OBS, epsilon=0.0)
    cb = SimpleCallback("cb")
    env, pol = sym(ctx, "env", env0), sym(ctx, "q", pol0)
    pol = eqx.tree_at(lambda p: p.epsilon, pol, 0.0)
    k, kc = kit.key_input("key")
    i, ic = kit.int_scalar("lane")
    with _dx.cut():
        out = run(ctx, lambda a, e, p, kk: a.reset(e, p, key=kk, callback=cb).step_state, algo, env, pol, k)
        single = run(ctx, lambda a, e, p, kk, ii: a.collect_learning_starts(e, p, AbstractOffPolicyStepState.initial(2, e, p, cb, jr.split(jr.split(kk, 3)[0], N)[ii]), cb, jr.split(jr.split(kk, 3)[1], N)[ii]),
                     algo, env, pol, k, i)
    Nz = ctx.dim(N)
    hyp = [Nz >= 2, ic >= 0, ic < Nz]

    def conc(n, rng):
        return None
    rp = native_reset_lane_replay
    named = [x for x in jax.tree_util.tree_flatten_with_path(out, is_leaf=kit.is_sarr)[0] if kit.is_sarr(x[1])]
    named_s = [x for x in jax.tree_util.tree_flatten_with_path(single, is_leaf=kit.is_sarr)[0] if kit.is_sarr(x[1])]
    S.fact("DQN.reset/same-structure", len(named) == len(named_s), function=fn, what="the batched warm-up state has the leaves of the single-environment one")
    for (pth, lb), (_, ls) in zip(named, named_s):
        S.prove(f"DQN.reset/lane-i{jax.tree_util.keystr(pth)}", ctx, kit.lane_eq(lb, ls, ic), hyps=hyp, function=fn, replay=rp,
                what="after reset, environment i's state and ITS OWN replay buffer equal the single-environment initial + warm-up from the i-th per-environment keys (split(init_key, N)[i], split(starts_key, N)[i])")


_RESET_REPLAY = {}


def native_reset_lane_replay(model):
    if "r" not in _RESET_REPLAY:
        _RESET_REPLAY["r"] = _native_reset_lane_replay(model)
    return _RESET_REPLAY["r"]


def _native_reset_lane_replay(model):
    """R1: real DQN.reset on TimeLimit(CartPole, 4) with 3 environments vs three single-environment initial + collect_learning_starts runs from the per-environment keys; the
    environments must also not become copies of each other after a simultaneous truncation."""
    import lerax.wrapper as W_
    from lerax.env.classic_control import CartPole
    from lerax.policy import MLPQPolicy
    env = W_.TimeLimit(CartPole(), 4)
    pol = MLPQPolicy(env, width_size=4, depth=1, key=jax.random.key(0))
    cb = SimpleCallback("cb")
    n = 3
    algo = DQN(num_envs=n, buffer_size=12 * n, learning_starts=10, num_steps=1, batch_size=2)
    key = jax.random.key(5)
    st = algo.reset(env, pol, key=key, callback=cb).step_state
    init_key, starts_key, _ = jr.split(key, 3)
    obs = np.asarray(st.buffer.observations)
    for e in range(n):
        s0 = AbstractOffPolicyStepState.initial(12, env, pol, cb, jr.split(init_key, n)[e])
        s1 = algo.collect_learning_starts(env, pol, s0, cb, jr.split(starts_key, n)[e])
        if not (np.allclose(np.asarray(s1.buffer.observations), obs[e], atol=1e-6) and np.allclose(np.asarray(s1.buffer.rewards), np.asarray(st.buffer.rewards)[e]) and np.allclose(np.asarray(s1.env_state.env_state.y), np.asarray(st.env_state.env_state.y)[e], atol=1e-6)):
            return dict(reproduced=True, route="R1 (real DQN.reset, 3 environments, vs single-environment warm-ups from the per-environment keys)", inputs=dict(env="TimeLimit(CartPole(), 4)", num_envs=n, learning_starts=10, key_seed=5, lane=e),
                        observed=dict(batched_first_obs=obs[e][:6].tolist(), single_first_obs=np.asarray(s1.buffer.observations)[:6].tolist()))
    late = obs[:, 6:10]
    if any(np.allclose(late[a], late[b]) for a in range(n) for b in range(a + 1, n)):
        return dict(reproduced=True, route="R1 (real DQN.reset, 3 environments)", inputs=dict(env="TimeLimit(CartPole(), 4)", num_envs=n, learning_starts=10, key_seed=5), observed=dict(problem="two environments store identical transitions after the simultaneous truncation", observations_steps_6_to_9=late.tolist()))
    return dict(reproduced=False, note="each environment's warm-up equals the single-environment run from its own keys; environments stay distinct")


def diffeqsolve_euler(term, solver=None, t0=None, t1=None, dt0=None, y0=None, args=None, saveat=None, stepsize_controller=None, **kw):
    import types
    y1 = y0 + (t1 - t0) * term.vf(t0, y0, args)
    return types.SimpleNamespace(ys=y1[None])


def uniform_stub(key, shape=(), dtype=float, minval=0.0, maxval=1.0, **kw):
    shape = tuple(shape)
    return ocall("uniform", sd(shape, f32), key, jnp.broadcast_to(jnp.asarray(minval, f32), shape), jnp.broadcast_to(jnp.asarray(maxval, f32), shape))


def native_repeat_replay(ename, fname):
    """R1: the real component function called repeatedly with identical explicit arguments - eagerly twice, jitted, and vmapped vs per element - on the default environment and on one
    whose numeric constructor options are all moved off their defaults (so that options that are inert by default take part)."""
    def replay(model):
        import inspect
        cls = getattr(CC, ename)
        variants = [{}]
        opts = {}
        for k_, p in inspect.signature(cls.__init__).parameters.items():
            if isinstance(p.default, float) and k_ not in ("dt",):
                opts[k_] = p.default * 1.5 + 0.25
        variants.append(opts)
        rng = np.random.RandomState(8)
        for kw in variants:
            try:
                env = cls(**kw)
            except Exception:
                continue
            State = type(env.initial(key=jax.random.key(0)))
            n = env.initial(key=jax.random.key(0)).y.shape[0]
            act = (lambda: jnp.asarray(rng.randint(0, env.action_space.n))) if isinstance(env.action_space, Discrete) else (lambda: jnp.asarray(rng.uniform(-1, 1, env.action_space.shape), f32))
            mkS = lambda y: State(y=y, t=jnp.asarray(0.0))
            kk = jax.random.key(0)
            f = {"dynamics": lambda y, a, ny: env.dynamics(jnp.asarray(0.0), y, a), "clip": lambda y, a, ny: env.clip(y), "observation": lambda y, a, ny: env.observation(mkS(y), key=kk),
                 "reward": lambda y, a, ny: env.reward(mkS(y), a, mkS(ny), key=kk), "terminal": lambda y, a, ny: env.terminal(mkS(y), key=kk),
                 "transition": lambda y, a, ny: env.transition(mkS(y), a, key=kk).y}[fname]
            ys = jnp.asarray(rng.randn(3, n) * 0.5, f32)
            nys = jnp.asarray(rng.randn(3, n) * 0.5, f32)
            acts = jnp.stack([act() for _ in range(3)])
            r1, r2 = f(ys[0], acts[0], nys[0]), f(ys[0], acts[0], nys[0])
            rj = jax.jit(f)(ys[0], acts[0], nys[0])
            rv = jax.vmap(f)(ys, acts, nys)
            rs = jnp.stack([f(ys[i], acts[i], nys[i]) for i in range(3)])
            eq = lambda a, b: bool(np.allclose(np.asarray(a, np.float64), np.asarray(b, np.float64), rtol=1e-5, atol=1e-6, equal_nan=True))
            bad = {}
            if not np.array_equal(np.asarray(r1), np.asarray(r2), equal_nan=True):
                bad["two eager calls, identical arguments"] = [np.asarray(r1).tolist(), np.asarray(r2).tolist()]
            if not eq(r1, rj):
                bad["eager vs jit"] = [np.asarray(r1).tolist(), np.asarray(rj).tolist()]
            if not eq(rv, rs):
                bad["vmap vs per-element"] = [np.asarray(rv).tolist(), np.asarray(rs).tolist()]
            if bad:
                return dict(reproduced=True, route=f"R1 (real {ename}.{fname}: repeated eager calls / jit / vmap)", inputs=dict(constructor=kw, y=np.asarray(ys[0]).tolist(), action=np.asarray(acts[0]).tolist()), observed=bad)
        return dict(reproduced=False, note="eager twice, jit and vmap agree on the default and on an all-options-moved environment")
    return replay


def unit_envs(S):
    """every component function of the classic-control environments: vmapped over a symbolic batch == pointwise; closed, effect-free, re-extraction identical."""
    (B,) = symbolic_dims("B")
    import diffrax
    for ename in ("CartPole", "MountainCar", "ContinuousMountainCar", "Acrobot", "Pendulum"):
        cls = getattr(CC, ename)
        env = cls()
        fnp = f"lerax.env.classic_control:{ename}"
        st0 = jax.eval_shape(lambda kk: env.initial(key=kk), jax.random.key(0))
        ysh = st0.y.shape
        a_struct = sd((), jnp.int32) if isinstance(env.action_space, Discrete) else sd(env.action_space.shape, f32)
        State = type(env.initial(key=jax.random.key(0)))
        funcs = {
            "dynamics": (lambda y, a: env.dynamics(jnp.asarray(0.0), y, a), (sd(ysh, f32), a_struct)),
            "clip": (lambda y: env.clip(y), (sd(ysh, f32),)),
            "observation": (lambda y: env.observation(State(y=y, t=jnp.asarray(0.0)), key=jax.random.key(0)), (sd(ysh, f32),)),
            "reward": (lambda y, a, ny: env.reward(State(y=y, t=jnp.asarray(0.0)), a, State(y=ny, t=jnp.asarray(0.0)), key=jax.random.key(0)), (sd(ysh, f32), a_struct, sd(ysh, f32))),
            "terminal": (lambda y: env.terminal(State(y=y, t=jnp.asarray(0.0)), key=jax.random.key(0)), (sd(ysh, f32),)),
            "transition": (lambda y, a: env.transition(State(y=y, t=jnp.asarray(0.0)), a, key=jax.random.key(0)).y, (sd(ysh, f32), a_struct)),
        }
        for fname, (f, structs) in funcs.items():
            S.under_contract(f"{fnp}.{fname}")
            ctx = Ctx()
            ins = [sym(ctx, f"in{j}", sd((B,) + tuple(s.shape), s.dtype)) for j, s in enumerate(structs)]
            i, ic = kit.int_scalar("lane")
            with extract.patched((diffrax, "diffeqsolve", diffeqsolve_euler)):
                tr_b, dyn_b = extract.trace(lambda *xs: jax.vmap(f)(*xs), ins)
                outb = extract.eval_traced(ctx, tr_b, dyn_b)
                outs = run(ctx, lambda ii, *xs: f(*[x[ii] for x in xs]), i, *ins)
                tr_b2, _ = extract.trace(lambda *xs: jax.vmap(f)(*xs), ins)
            Bz = ctx.dim(B)
            S.prove(f"{ename}.{fname}/vmap-is-pointwise", ctx, kit.lane_eq(outb, outs, ic), hyps=[Bz >= 1, ic >= 0, ic < Bz], function=f"{fnp}.{fname}", nl_budget_ms=-4000, replay=native_repeat_replay(ename, fname),
                    what="the function vmapped over a batch gives, at every lane, the result of the unbatched function on that lane's inputs (no cross-lane operation)")
            txt1, txt2 = [re.sub(r"0x[0-9a-f]+", "0x", str(t.closed_jaxpr)) for t in (tr_b, tr_b2)]
            S.fact(f"{ename}.{fname}/closed-effect-free-deterministic-extraction", not tr_b.closed_jaxpr.effects and txt1 == txt2, function=f"{fnp}.{fname}", replay=native_repeat_replay(ename, fname),
                   what="the extracted program has no effects and re-extraction gives the identical program: the result depends only on the explicit arguments (eager, jit and vmap run the same jaxpr)")


UNITS = [("collection-on-policy", unit_on_policy), ("collection-off-policy", unit_off_policy), ("reset-off-policy", unit_off_policy_reset), ("env-functions", unit_envs)]
