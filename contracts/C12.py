"""C12 - JAX transformations are transparent; parallel environments never mix.

(a) Collection: relational obligation between two extractions of the real code - the N-lane collection inside `iteration`
    (N symbolic) and the single-lane `collect_rollout`: for a fresh lane i every output leaf of the former at i (rollout rows incl.
    advantages / returns, carried env / policy / callback state, replay buffer) equals the latter applied to (step_state[i], keys[i]).
(b) Environment functions: for every classic-control environment each component function vmapped over a symbolic batch equals, at a
    fresh lane, the unbatched function on that lane's inputs, and its program is closed and effect-free.
"""
from __future__ import annotations

import re

import equinox as eqx
import jax
import jax.numpy as jnp
import jax.random as jr
import numpy as np
import z3

from lerax.algorithm import PPO, A2C, DQN
from lerax.algorithm.on_policy import AbstractOnPolicyState, AbstractOnPolicyStepState
from lerax.algorithm.off_policy import AbstractOffPolicyState, AbstractOffPolicyStepState
from lerax.algorithm.dqn import DQNState
from lerax.buffer import ReplayBuffer
from lerax.env import classic_control as CC
from lerax.space import Box, Discrete

from lvc import kit, ir, extract
from lvc.extract import run, sym, symbolic_dims
from lvc.generic import GenericEnv, GenericActorCriticPolicy, GenericQPolicy, GPState, GState, SimpleCallback, GCbStep, GCbState
from lvc.kit import Ctx, sand
from lvc.opaque import ocall
from contracts import _dx

PROPERTY = "C12"
TRUSTED = ["A-XLA: jit / vmap / scan implement the jaxpr semantics encoded in lvc/ir.py; vmap of an uninterpreted collaborator is its pointwise application", "A-PURE", "A-DIFFRAX / A-MJX: the ODE solve is pointwise under vmap"]
ASSUMPTIONS = ["num_envs = N >= 2 symbolic; num_steps = 2 (unrolled); generic env / policy / callback"]
DROPS = ["D1: the num_envs == 1 branch is the unbatched program itself"]
NOT_DECIDED = ["numerical equality up to reassociation between XLA's batched and unbatched kernels (compiler numerics)"]
sd = jax.ShapeDtypeStruct
f32 = jnp.float32
OBS = Box(-jnp.ones((2,)), jnp.ones((2,)))


def _lane(tree, i):
    return jax.tree.map(lambda x: x[i], tree)


POISON = (None, float("nan"), float("inf"), -1e30)


def native_lane_replay(make_algo, make_state, train_patch, N=3):
    """R1 (relational): the real `iteration` natively on N concrete lanes with pseudo-random generic collaborators, run with the OTHER lanes' environment states set in turn to
    random, NaN, inf and huge values: lane i's rollout and carried state must be bit-identical in all runs (no dependence on any other environment), and two lanes started from
    identical states must still produce different rollouts (each has its own key).  No particular way of deriving the per-environment keys is assumed."""
    cache = {}

    def replay(model):
        if "r" not in cache:
            cache["r"] = _replay(model)
        return cache["r"]

    def _replay(model):
        from lvc import opaque
        algo = make_algo(N)
        cb = SimpleCallback("cb")
        old = opaque.IGNORE_KEYS
        opaque.IGNORE_KEYS = False
        key = jax.random.key(11)

        def lane_leaves(out, lane):
            got = (out.step_state, out.opt_state)
            return [np.asarray(jax.random.key_data(x) if jax.dtypes.issubdtype(x.dtype, jax.dtypes.prng_key) else x) for x in jax.tree.leaves(_lane_tree(got, lane)) if eqx.is_array(x)]
        try:
            for lane in (0, N - 1):
                base_state = make_state(N, np.random.RandomState(5))
                ref = None
                for poison in POISON:
                    st = base_state
                    if poison is not None:
                        def poke(x):
                            if not (eqx.is_inexact_array(x) and x.ndim >= 1 and x.shape[0] == N):
                                return x
                            m = (jnp.arange(N) != lane).reshape((N,) + (1,) * (x.ndim - 1))
                            return jnp.where(m, jnp.asarray(poison, x.dtype), x)
                        st = eqx.tree_at(lambda s: s.step_state.env_state, st, jax.tree.map(poke, st.step_state.env_state))
                    with extract.patched(train_patch):
                        out = algo.iteration(st, key=key, callback=cb)
                    cur = lane_leaves(out, lane)
                    if ref is None:
                        ref = cur
                        continue
                    for n, (a, b) in enumerate(zip(cur, ref)):
                        if a.shape != b.shape or not np.array_equal(a, b, equal_nan=True):
                            return dict(reproduced=True, route="R1 relational (real iteration on N lanes, generic collaborators = deterministic pseudo-random functions; other lanes' states varied)",
                                        inputs=dict(N=N, lane=lane, other_lanes_env_state=repr(poison), key=11), observed=dict(leaf=n, with_other_lanes_random=b.tolist(), with_other_lanes_poisoned=a.tolist()))
            # own key per lane: identical start states must not give identical rollouts
            st = make_state(N, np.random.RandomState(6))
            same = jax.tree.map(lambda x: jnp.broadcast_to(x[:1], x.shape) if (eqx.is_array(x) and x.ndim >= 1 and x.shape[0] == N) else x, st.step_state)
            st = eqx.tree_at(lambda s: s.step_state, st, same)
            with extract.patched(train_patch):
                out = algo.iteration(st, key=key, callback=cb)
            def step_leaves(lane):      # per-environment leaves only (the optimiser / policy parameters are shared, not per lane)
                return [np.asarray(jax.random.key_data(x) if jax.dtypes.issubdtype(x.dtype, jax.dtypes.prng_key) else x)[lane] for x in jax.tree.leaves(out.step_state)
                        if eqx.is_array(x) and x.ndim >= 1 and x.shape[0] == N]
            l0, l1 = step_leaves(0), step_leaves(1)
            if l0 and all(a.shape == b.shape and np.array_equal(a, b, equal_nan=True) for a, b in zip(l0, l1)):
                return dict(reproduced=True, route="R1 relational (real iteration, all lanes started from identical states)", inputs=dict(N=N, key=11),
                            observed=dict(problem="lanes 0 and 1 produced identical rollouts: they share one key"))
            return dict(reproduced=False, note=f"{2 * (len(POISON) - 1)} poisoned runs leave the observed lane bit-identical; identical start states give different rollouts")
        finally:
            opaque.IGNORE_KEYS = old
    return replay


def _lane_tree(tree, i):
    return jax.tree.map(lambda x: x[i] if eqx.is_array(x) else x, tree)


def _unused_rng_index_injective(ctx):
    """A-RNG: keys derived from one key with different indices are different keys (split / fold_in are injective in the index)"""
    kk, n_, a, b = z3.Const("inj!k", ir.KeySort), z3.Int("inj!n"), z3.Int("inj!a"), z3.Int("inj!b")
    sp = ctx.uf("split", [ir.KeySort, z3.IntSort(), z3.IntSort()], ir.KeySort)
    fi = ctx.uf("fold_in", [ir.KeySort, z3.IntSort()], ir.KeySort)
    return [z3.ForAll([kk, n_, a, b], z3.Implies(a != b, sp(kk, n_, a) != sp(kk, n_, b))), z3.ForAll([kk, a, b], z3.Implies(a != b, fi(kk, a) != fi(kk, b)))]


def lane_obligations(S, ctx, tag, batched, make_single, ic, kc, hyp, fn, rp, what, Nz, label=lambda pth: jax.tree_util.keystr(pth)):
    """Relational lane obligations with an EXISTENTIAL lane key: there is a key K_i, derived from the given key and the lane index, such that lane i of the batched
    computation equals the single-environment computation run with K_i (however the code derives its per-environment keys), and K_i != K_j for i != j."""
    hk, hkc = kit.key_input("lane_key")
    single = make_single(hk)
    named = [x for x in jax.tree_util.tree_flatten_with_path(batched, is_leaf=kit.is_sarr)[0] if kit.is_sarr(x[1])]
    named_s = [x for x in jax.tree_util.tree_flatten_with_path(single, is_leaf=kit.is_sarr)[0] if kit.is_sarr(x[1])]
    S.fact(f"{tag}/same-structure", len(named) == len(named_s), function=fn, what="the batched result has the leaves of the single-environment one")
    cands = kit.key_subterms([lb for _, lb in named], must_contain=[ic, kc], index=ic)
    chosen = None
    for (pth, lb), (_, ls) in zip(named, named_s):
        uses_key = True
        rec = S.prove(f"{tag}/lane-i{label(pth)}", ctx, kit.lane_eq(lb, ls, ic), hyps=hyp, function=fn, replay=rp, what=what,
                      holes={hkc: (cands if chosen is None else [chosen])})
        if chosen is None and rec is not None and rec.get("status") == "discharged" and rec.get("_hole_terms"):
            chosen = rec["_hole_terms"][0]
    if chosen is not None:
        jc = z3.Int("lane_other")
        other = z3.substitute(chosen, (ic, jc))
        S.prove(f"{tag}/lanes-use-different-keys", ctx, chosen != other, hyps=hyp + [jc >= 0, jc < Nz, ic != jc] + kit.rng_ground_injectivity([chosen, other]), function=fn, replay=rp,
                what="the per-environment keys of different environments are different keys (A-RNG: split / fold_in injective in the index): the N collections are independent")
    else:
        S.fact(f"{tag}/lane-key-found", bool(cands) is False and False, function=fn, replay=rp, what="a per-environment key derived from the given key and the lane index drives lane i", detail=[str(c_)[:120] for c_ in cands[:4]])
    return chosen


def unit_on_policy(S):
    fn = "lerax.algorithm.on_policy:AbstractOnPolicyAlgorithm.iteration"
    S.under_contract(fn, "lerax.algorithm.on_policy:AbstractOnPolicyAlgorithm.collect_rollout")
    (N,) = symbolic_dims("N", constraints=["N >= 2"])
    for name, mk in (("PPO", lambda: PPO(num_envs=N, num_steps=2, num_batches=1)), ("A2C", lambda: A2C(num_envs=N, num_steps=2))):
        ctx = Ctx()
        algo = mk()
        env0 = GenericEnv(Discrete(3), observation_space=OBS, masked=True)
        pol0 = GenericActorCriticPolicy(env0.action_space, OBS)
        cb = SimpleCallback("cb")
        mk_state = lambda c, x, h, cs, th, o, cst: AbstractOnPolicyState(c, AbstractOnPolicyStepState(GState(x), GPState(h), GCbStep(cs)), env0, eqx.tree_at(lambda p: p.theta, pol0, th), o, GCbState(cst))
        st = sym(ctx, "st", jax.eval_shape(mk_state, sd((), jnp.int32), sd((N, 2), f32), sd((N, 1), f32), sd((N, 1), f32), sd((2,), f32), sd((3,), f32), sd((1,), f32)))
        k, kc = kit.key_input("key")

        def train_stub(self, policy_, opt_state, buffer, *, key):
            return policy_, buffer, {"loss": jnp.asarray(0.0)}  # the rollout is returned in place of the optimiser state so that it is observable
        cls = type(algo)
        rp = native_lane_replay((lambda n, cls=cls: cls(num_envs=n, num_steps=2, num_batches=1) if cls is PPO else cls(num_envs=n, num_steps=2)),
                                (lambda n, rng, mk_state=mk_state: mk_state(jnp.asarray(0), *[jnp.asarray(rng.randn(*s), f32) for s in ((n, 2), (n, 1), (n, 1), (2,), (3,), (1,))])),
                                (cls, "train", train_stub))
        S.default_replay = rp      # also the native witness if the batched program cannot be extracted (e.g. collectives over the environment axis)
        with extract.patched((type(algo), "train", train_stub)):
            out = run(ctx, lambda a, s, kk: a.iteration(s, key=kk, callback=cb), algo, st, k)
        i, ic = kit.int_scalar("lane")
        Nz = ctx.dim(N)
        make_single = lambda hk: run(ctx, lambda a, s, kk, ii: a.collect_rollout(s.env, s.policy, _lane(s.step_state, ii), cb, kk), algo, st, hk, i)
        hyp = [Nz >= 2, ic >= 0, ic < Nz]
        ss_b, buf_b = out.step_state, out.opt_state
        lane_obligations(S, ctx, name, (ss_b, buf_b), make_single, ic, kc, hyp, fn, rp,
                         "lane i of the N-environment collection equals the single-environment collection from step_state[i] and that environment's own key: nothing crosses between environments",
                         Nz, label=lambda pth: jax.tree_util.keystr(pth).replace("[0]", "step_state").replace("[1]", "rollout"))
        S.samples.append(dict(algo=name))


def unit_off_policy(S):
    fn = "lerax.algorithm.off_policy:AbstractOffPolicyAlgorithm.iteration"
    S.under_contract(fn, "lerax.algorithm.off_policy:AbstractOffPolicyAlgorithm.collect_rollout")
    (N,) = symbolic_dims("N", constraints=["N >= 2"])
    ctx = Ctx()
    algo = DQN(num_envs=N, buffer_size=2 * N, learning_starts=1, num_steps=2, batch_size=1)
    env0 = GenericEnv(Discrete(3), observation_space=OBS)
    pol0 = GenericQPolicy(env0.action_space, OBS, epsilon=0.0)
    cb = SimpleCallback("cb")
    rb = jax.eval_shape(lambda h: ReplayBuffer(2, OBS, Discrete(3), GPState(h)), sd((1,), f32))
    rbN = jax.tree.map(lambda x: sd((N,) + tuple(x.shape), x.dtype), rb)
    mk_state = lambda c, x, h, cs, th, o, cst, tth, *rbl: DQNState(c, AbstractOffPolicyStepState(GState(x), GPState(h), GCbStep(cs), jax.tree.unflatten(jax.tree.structure(rbN), rbl)), env0,
                                                                   eqx.tree_at(lambda p: p.theta, pol0, th), o, GCbState(cst), target_policy=eqx.tree_at(lambda p: p.theta, pol0, tth))
    st = sym(ctx, "st", jax.eval_shape(mk_state, sd((), jnp.int32), sd((N, 2), f32), sd((N, 1), f32), sd((N, 1), f32), sd((2,), f32), sd((3,), f32), sd((1,), f32), sd((2,), f32), *jax.tree.leaves(rbN)))
    st = eqx.tree_at(lambda s: (s.policy.epsilon, s.target_policy.epsilon), st, (0.0, 0.0))  # static Python floats (eval_shape abstracted them)
    k, kc = kit.key_input("key")

    def train_stub(self, policy_, opt_state, buffer, target_policy, *, key):
        return policy_, opt_state, {"loss": jnp.asarray(0.0)}
    with extract.patched((DQN, "dqn_train", train_stub)), _dx.cut():
        out = run(ctx, lambda a, s, kk: a.iteration(s, key=kk, callback=cb), algo, st, k)
        i, ic = kit.int_scalar("lane")
    def make_single(hk):
        with _dx.cut():
            return run(ctx, lambda a, s, kk, ii: a.collect_rollout(s.env, s.policy, _lane(s.step_state, ii), cb, kk), algo, st, hk, i)
    Nz = ctx.dim(N)
    hyp = [Nz >= 2, ic >= 0, ic < Nz, z3.ForAll([z3.Int("e0")], st.step_state.buffer.position.at(z3.Int("e0")) >= 0)]
    def conc_state(n, rng):
        rb1 = ReplayBuffer(2, OBS, Discrete(3), GPState(jnp.zeros((1,), f32)))
        rbn = jax.tree.map(lambda x: jnp.broadcast_to(x, (n,) + x.shape), rb1)
        s = mk_state(jnp.asarray(0), *[jnp.asarray(rng.randn(*sh), f32) for sh in ((n, 2), (n, 1), (n, 1), (2,), (3,), (1,), (2,))], *jax.tree.leaves(rbn))
        return eqx.tree_at(lambda s: (s.policy.epsilon, s.target_policy.epsilon), s, (0.0, 0.0))

    def off_replay(model):
        with _dx.cut():
            return native_lane_replay(lambda n: DQN(num_envs=n, buffer_size=2 * n, learning_starts=1, num_steps=2, batch_size=1), conc_state, (DQN, "dqn_train", train_stub))(model)
    rp = off_replay
    lane_obligations(S, ctx, "DQN", out.step_state, make_single, ic, kc, hyp, fn, rp,
                     "lane i (env state, policy state, callback state and the environment's OWN replay buffer) equals the single-environment collection on lane i's inputs with that environment's own key", Nz)


def unit_off_policy_reset(S):
    """reset with N environments: lane i of the warm-up (initial state + learning_starts steps into that environment's own buffer) equals the single-environment
    initial + collect_learning_starts from the i-th per-environment keys."""
    fn = "lerax.algorithm.off_policy:AbstractOffPolicyAlgorithm.reset"
    S.under_contract(fn, "lerax.algorithm.off_policy:AbstractOffPolicyAlgorithm.collect_learning_starts")
    (N,) = symbolic_dims("N", constraints=["N >= 2"])
    ctx = Ctx()
    algo = DQN(num_envs=N, buffer_size=2 * N, learning_starts=2, num_steps=1, batch_size=1)
    env0 = GenericEnv(Discrete(3), observation_space=OBS)
    pol0 = GenericQPolicy(env0.action_space, OBS, epsilon=0.0)
    cb = SimpleCallback("cb")
    env, pol = sym(ctx, "env", env0), sym(ctx, "q", pol0)
    pol = eqx.tree_at(lambda p: p.epsilon, pol, 0.0)
    k, kc = kit.key_input("key")
    i, ic = kit.int_scalar("lane")
    with _dx.cut():
        out = run(ctx, lambda a, e, p, kk: a.reset(e, p, key=kk, callback=cb).step_state, algo, env, pol, k)
    Nz = ctx.dim(N)
    hyp = [Nz >= 2, ic >= 0, ic < Nz]

    def conc(n, rng):
        return None
    rp = native_reset_lane_replay
    # two per-environment keys here (initial state, warm-up): the warm-up key is the existential one, the initial-state key is recovered as a second hole the same way
    hk0, hk0c = kit.key_input("lane_init_key")
    init_b = None

    def make_single(hk):
        with _dx.cut():
            return run(ctx, lambda a, e, p, k0, kk: a.collect_learning_starts(e, p, AbstractOffPolicyStepState.initial(2, e, p, cb, k0), cb, kk), algo, env, pol, hk0, hk)
    hk, hkc = kit.key_input("lane_key")
    single = make_single(hk)
    named = [x for x in jax.tree_util.tree_flatten_with_path(out, is_leaf=kit.is_sarr)[0] if kit.is_sarr(x[1])]
    named_s = [x for x in jax.tree_util.tree_flatten_with_path(single, is_leaf=kit.is_sarr)[0] if kit.is_sarr(x[1])]
    S.fact("DQN.reset/same-structure", len(named) == len(named_s), function=fn, what="the batched warm-up state has the leaves of the single-environment one")
    cands = kit.key_subterms([lb for _, lb in named], must_contain=[ic, kc], index=ic)
    chosen = None
    for (pth, lb), (_, ls) in zip(named, named_s):
        hl = {hkc: cands, hk0c: cands} if chosen is None else {hkc: [chosen[0]], hk0c: [chosen[1]]}
        rec = S.prove(f"DQN.reset/lane-i{jax.tree_util.keystr(pth)}", ctx, kit.lane_eq(lb, ls, ic), hyps=hyp, function=fn, replay=rp, holes=hl,
                      what="after reset, environment i's state and ITS OWN replay buffer equal the single-environment initial state + warm-up from that environment's own keys")
        if chosen is None and rec is not None and rec.get("status") == "discharged" and rec.get("_hole_terms") and len(rec["_hole_terms"]) == 2:
            # the order of rec['_hole_terms'] follows the holes that occur in this obligation
            ht = rec["_hole_terms"]
            chosen = (ht[0], ht[1]) if True else None
    if chosen is not None:
        jc = z3.Int("lane_other")
        for nm_, t_ in (("warm-up", chosen[0]), ("initial-state", chosen[1])):
            S.prove(f"DQN.reset/lanes-use-different-{nm_}-keys", ctx, t_ != z3.substitute(t_, (ic, jc)), hyps=hyp + [jc >= 0, jc < Nz, ic != jc] + kit.rng_ground_injectivity([t_, z3.substitute(t_, (ic, jc))]), function=fn, replay=rp,
                    what="different environments get different keys (A-RNG: split / fold_in injective in the index): the N warm-ups are independent")


_RESET_REPLAY = {}


def native_reset_lane_replay(model):
    if "r" not in _RESET_REPLAY:
        _RESET_REPLAY["r"] = _native_reset_lane_replay(model)
    return _RESET_REPLAY["r"]


def _native_reset_lane_replay(model):
    """R1: real DQN.reset on TimeLimit(CartPole, 4) with 3 environments vs three single-environment initial + collect_learning_starts runs from the per-environment keys; the
    environments must also not become copies of each other after a simultaneous truncation."""
    import lerax.wrapper as W_
    from lerax.env.classic_control import CartPole
    from lerax.policy import MLPQPolicy
    env = W_.TimeLimit(CartPole(), 4)
    pol = MLPQPolicy(env, width_size=4, depth=1, key=jax.random.key(0))
    cb = SimpleCallback("cb")
    n = 3
    algo = DQN(num_envs=n, buffer_size=12 * n, learning_starts=10, num_steps=1, batch_size=2)
    key = jax.random.key(5)
    st = algo.reset(env, pol, key=key, callback=cb).step_state
    init_key, starts_key, _ = jr.split(key, 3)
    obs = np.asarray(st.buffer.observations)
    for e in range(n):
        s0 = AbstractOffPolicyStepState.initial(12, env, pol, cb, jr.split(init_key, n)[e])
        s1 = algo.collect_learning_starts(env, pol, s0, cb, jr.split(starts_key, n)[e])
        if not (np.allclose(np.asarray(s1.buffer.observations), obs[e], atol=1e-6) and np.allclose(np.asarray(s1.buffer.rewards), np.asarray(st.buffer.rewards)[e]) and np.allclose(np.asarray(s1.env_state.env_state.y), np.asarray(st.env_state.env_state.y)[e], atol=1e-6)):
            return dict(reproduced=True, route="R1 (real DQN.reset, 3 environments, vs single-environment warm-ups from the per-environment keys)", inputs=dict(env="TimeLimit(CartPole(), 4)", num_envs=n, learning_starts=10, key_seed=5, lane=e),
                        observed=dict(batched_first_obs=obs[e][:6].tolist(), single_first_obs=np.asarray(s1.buffer.observations)[:6].tolist()))
    late = obs[:, 6:10]
    if any(np.allclose(late[a], late[b]) for a in range(n) for b in range(a + 1, n)):
        return dict(reproduced=True, route="R1 (real DQN.reset, 3 environments)", inputs=dict(env="TimeLimit(CartPole(), 4)", num_envs=n, learning_starts=10, key_seed=5), observed=dict(problem="two environments store identical transitions after the simultaneous truncation", observations_steps_6_to_9=late.tolist()))
    return dict(reproduced=False, note="each environment's warm-up equals the single-environment run from its own keys; environments stay distinct")


def diffeqsolve_euler(term, solver=None, t0=None, t1=None, dt0=None, y0=None, args=None, saveat=None, stepsize_controller=None, **kw):
    import types
    y1 = y0 + (t1 - t0) * term.vf(t0, y0, args)
    return types.SimpleNamespace(ys=y1[None])


def uniform_stub(key, shape=(), dtype=float, minval=0.0, maxval=1.0, **kw):
    shape = tuple(shape)
    return ocall("uniform", sd(shape, f32), key, jnp.broadcast_to(jnp.asarray(minval, f32), shape), jnp.broadcast_to(jnp.asarray(maxval, f32), shape))


def native_repeat_replay(ename, fname):
    """R1: the real component function called repeatedly with identical explicit arguments - eagerly twice, jitted, and vmapped vs per element - on the default environment and on one
    whose numeric constructor options are all moved off their defaults (so that options that are inert by default take part)."""
    def replay(model):
        import inspect
        cls = getattr(CC, ename)
        variants = [{}]
        opts = {}
        for k_, p in inspect.signature(cls.__init__).parameters.items():
            if isinstance(p.default, float) and k_ not in ("dt",):
                opts[k_] = p.default * 1.5 + 0.25
        variants.append(opts)
        rng = np.random.RandomState(8)
        for kw in variants:
            try:
                env = cls(**kw)
            except Exception:
                continue
            State = type(env.initial(key=jax.random.key(0)))
            n = env.initial(key=jax.random.key(0)).y.shape[0]
            act = (lambda: jnp.asarray(rng.randint(0, env.action_space.n))) if isinstance(env.action_space, Discrete) else (lambda: jnp.asarray(rng.uniform(-1, 1, env.action_space.shape), f32))
            mkS = lambda y: State(y=y, t=jnp.asarray(0.0))
            kk = jax.random.key(0)
            f = {"dynamics": lambda y, a, ny: env.dynamics(jnp.asarray(0.0), y, a), "clip": lambda y, a, ny: env.clip(y), "observation": lambda y, a, ny: env.observation(mkS(y), key=kk),
                 "reward": lambda y, a, ny: env.reward(mkS(y), a, mkS(ny), key=kk), "terminal": lambda y, a, ny: env.terminal(mkS(y), key=kk),
                 "transition": lambda y, a, ny: env.transition(mkS(y), a, key=kk).y}[fname]
            ys = jnp.asarray(rng.randn(3, n) * 0.5, f32)
            nys = jnp.asarray(rng.randn(3, n) * 0.5, f32)
            acts = jnp.stack([act() for _ in range(3)])
            r1, r2 = f(ys[0], acts[0], nys[0]), f(ys[0], acts[0], nys[0])
            rj = jax.jit(f)(ys[0], acts[0], nys[0])
            rv = jax.vmap(f)(ys, acts, nys)
            rs = jnp.stack([f(ys[i], acts[i], nys[i]) for i in range(3)])
            eq = lambda a, b: bool(np.allclose(np.asarray(a, np.float64), np.asarray(b, np.float64), rtol=1e-5, atol=1e-6, equal_nan=True))
            bad = {}
            if not np.array_equal(np.asarray(r1), np.asarray(r2), equal_nan=True):
                bad["two eager calls, identical arguments"] = [np.asarray(r1).tolist(), np.asarray(r2).tolist()]
            if not eq(r1, rj):
                bad["eager vs jit"] = [np.asarray(r1).tolist(), np.asarray(rj).tolist()]
            if not eq(rv, rs):
                bad["vmap vs per-element"] = [np.asarray(rv).tolist(), np.asarray(rs).tolist()]
            if bad:
                return dict(reproduced=True, route=f"R1 (real {ename}.{fname}: repeated eager calls / jit / vmap)", inputs=dict(constructor=kw, y=np.asarray(ys[0]).tolist(), action=np.asarray(acts[0]).tolist()), observed=bad)
        return dict(reproduced=False, note="eager twice, jit and vmap agree on the default and on an all-options-moved environment")
    return replay


def unit_envs(S):
    """every component function of the classic-control environments: vmapped over a symbolic batch == pointwise; closed, effect-free, re-extraction identical."""
    # results depend only on explicit arguments: nothing in lerax (at import time or later) touches the process-wide JAX configuration (PRNG implementation, x64, ...), on which
    # the assumption 'vmap of a random draw is the per-lane draw' (A-RNG / A-XLA) rests
    from contracts import C11
    offenders, nfiles, _ = C11.python_state_offenders()
    cfg = [o for o in offenders if "JAX configuration" in o]
    S.fact("process-wide-jax-configuration-untouched", not cfg and nfiles > 50, function="lerax/** (AST frame check)", detail=cfg[:5],
           replay=(lambda m: C11.native_config_replay(m)), what="no lerax module changes jax.config (default PRNG implementation, x64, matmul precision, ...) - neither in a function nor at import time")
    (B,) = symbolic_dims("B")
    import diffrax
    for ename in ("CartPole", "MountainCar", "ContinuousMountainCar", "Acrobot", "Pendulum"):
        cls = getattr(CC, ename)
        env = cls()
        fnp = f"lerax.env.classic_control:{ename}"
        st0 = jax.eval_shape(lambda kk: env.initial(key=kk), jax.random.key(0))
        ysh = st0.y.shape
        a_struct = sd((), jnp.int32) if isinstance(env.action_space, Discrete) else sd(env.action_space.shape, f32)
        State = type(env.initial(key=jax.random.key(0)))
        funcs = {
            "dynamics": (lambda y, a: env.dynamics(jnp.asarray(0.0), y, a), (sd(ysh, f32), a_struct)),
            "clip": (lambda y: env.clip(y), (sd(ysh, f32),)),
            "observation": (lambda y: env.observation(State(y=y, t=jnp.asarray(0.0)), key=jax.random.key(0)), (sd(ysh, f32),)),
            "reward": (lambda y, a, ny: env.reward(State(y=y, t=jnp.asarray(0.0)), a, State(y=ny, t=jnp.asarray(0.0)), key=jax.random.key(0)), (sd(ysh, f32), a_struct, sd(ysh, f32))),
            "terminal": (lambda y: env.terminal(State(y=y, t=jnp.asarray(0.0)), key=jax.random.key(0)), (sd(ysh, f32),)),
            "transition": (lambda y, a: env.transition(State(y=y, t=jnp.asarray(0.0)), a, key=jax.random.key(0)).y, (sd(ysh, f32), a_struct)),
        }
        for fname, (f, structs) in funcs.items():
            S.under_contract(f"{fnp}.{fname}")
            ctx = Ctx()
            ins = [sym(ctx, f"in{j}", sd((B,) + tuple(s.shape), s.dtype)) for j, s in enumerate(structs)]
            i, ic = kit.int_scalar("lane")
            with extract.patched((diffrax, "diffeqsolve", diffeqsolve_euler)):
                tr_b, dyn_b = extract.trace(lambda *xs: jax.vmap(f)(*xs), ins)
                outb = extract.eval_traced(ctx, tr_b, dyn_b)
                outs = run(ctx, lambda ii, *xs: f(*[x[ii] for x in xs]), i, *ins)
                tr_b2, _ = extract.trace(lambda *xs: jax.vmap(f)(*xs), ins)
            Bz = ctx.dim(B)
            S.prove(f"{ename}.{fname}/vmap-is-pointwise", ctx, kit.lane_eq(outb, outs, ic), hyps=[Bz >= 1, ic >= 0, ic < Bz], function=f"{fnp}.{fname}", nl_budget_ms=-4000, replay=native_repeat_replay(ename, fname),
                    what="the function vmapped over a batch gives, at every lane, the result of the unbatched function on that lane's inputs (no cross-lane operation)")
            txt1, txt2 = [re.sub(r"0x[0-9a-f]+", "0x", str(t.closed_jaxpr)) for t in (tr_b, tr_b2)]
            S.fact(f"{ename}.{fname}/closed-effect-free-deterministic-extraction", not tr_b.closed_jaxpr.effects and txt1 == txt2, function=f"{fnp}.{fname}", replay=native_repeat_replay(ename, fname),
                   what="the extracted program has no effects and re-extraction gives the identical program: the result depends only on the explicit arguments (eager, jit and vmap run the same jaxpr)")


UNITS = [("collection-on-policy", unit_on_policy), ("collection-off-policy", unit_off_policy), ("reset-off-policy", unit_off_policy_reset), ("env-functions", unit_envs)]
