"""C09 - Each epoch partitions the rollout into disjoint, intact minibatches.

Under contract: AbstractBuffer.batch_indices, gather, batches, flatten_axes, resolve_axes; RolloutBuffer.sample;
PPO.train_epoch, PPO.train, PPO.__init__ (batch_size).
"""
from __future__ import annotations

import itertools

import equinox as eqx
import jax
import jax._src.core
import jax.numpy as jnp
import jax.random as jr
import numpy as np
import z3

from lerax.algorithm import PPO
from lerax.buffer import RolloutBuffer
from lerax.buffer.base_buffer import AbstractBuffer

from lvc import kit, ir, extract, opaque
from lvc.extract import run, sym, symbolic_dims
from lvc.generic import GPState, GenericActorCriticPolicy
from lvc.kit import Ctx, sand
from lvc.opaque import ocall

PROPERTY = "C09"
TRUSTED = ["A-RNG: jax.random.permutation(key, n) is a bijection on [0, n); jax.random.choice(key, n, (b,), replace=False) returns pairwise distinct indices in [0, n)",
           "A-XLA (reshape / gather semantics as encoded in lvc/ir.py)", "A-PURE (train_batch abstracted)"]
ASSUMPTIONS = ["families of sizes: N = Q*B (Q, B symbolic), N = Q*b + r (Q symbolic; (b, r) enumerated), plus a seeded list of concrete (N, B) as bounded stand-in; "
               "jax's shape algebra cannot type reshape(-1, B) of N - N mod B for fully symbolic N, B"]
DROPS = ["D1: key is None vs given enumerated"]
NOT_DECIDED = ["that the shuffles of different epochs differ (distributional); only that every epoch gets its own derived key"]
sd = jax.ShapeDtypeStruct
f32 = jnp.float32
F_BI = "lerax.buffer.base_buffer:AbstractBuffer.batch_indices"
F_G = "lerax.buffer.base_buffer:AbstractBuffer.gather"
F_B = "lerax.buffer.base_buffer:AbstractBuffer.batches"
F_FL = "lerax.buffer.base_buffer:AbstractBuffer.flatten_axes"
F_S = "lerax.buffer.rollout:RolloutBuffer.sample"
F_TE = "lerax.algorithm.ppo:PPO.train_epoch"
F_T = "lerax.algorithm.ppo:PPO.train"


def perm_stub(key, x, axis=0, independent=False):
    n = x if not hasattr(x, "shape") else x.shape[0]
    nval = jax._src.core.dimension_as_value(n) if not isinstance(n, int) else jnp.asarray(n)
    return ocall("permutation", sd((n,), jnp.int32), key, nval)


def choice_stub(key, a, shape=(), replace=True, p=None, axis=0, mode=None):
    n = a if not hasattr(a, "shape") or getattr(a, "shape", ()) == () else a.shape[0]
    nval = jax._src.core.dimension_as_value(n) if not isinstance(n, int) else jnp.asarray(n)
    return ocall(f"choice[replace={bool(replace)},p={'yes' if p is not None else 'no'}]", sd(tuple(shape), jnp.int32), key, nval)


def flat_buffer_struct(N, pytree=False):
    """RolloutBuffer with leading extent N; with pytree=True observations/actions are Dict/Tuple structured with leaves of different ranks."""
    if pytree:
        obs = {"image": sd((N, 2, 2), f32), "vec": sd((N, 3), f32)}
        act = (sd((N,), jnp.int32), sd((N, 2), f32))
    else:
        obs, act = sd((N, 2), f32), sd((N,), jnp.int32)

    def mk(o, a, r, d, lp, v, h, ret, adv, m):
        return RolloutBuffer(o, a, r, d, lp, v, GPState(h), m, ret, adv)
    return jax.eval_shape(mk, obs, act, sd((N,), f32), sd((N,), jnp.bool_), sd((N,), f32), sd((N,), f32), sd((N, 1), f32), sd((N,), f32), sd((N,), f32), sd((N, 3), jnp.bool_))


def perm_axioms(ctx, call_name="permutation"):
    """A-RNG instantiated for the permutation calls of the translated program."""
    ax = []
    i, i2 = z3.Ints("pi pi2")
    for c in ctx.calls:
        if c.name != call_name:
            continue
        n = ir.zint(c.operands[1].scalar())
        P = lambda t, c=c: c.outputs[0].at(t)
        ax.append(z3.ForAll([i], z3.Implies(z3.And(i >= 0, i < n), z3.And(P(i) >= 0, P(i) < n))))
        ax.append(z3.ForAll([i, i2], z3.Implies(z3.And(i >= 0, i < n, i2 >= 0, i2 < n, i != i2), P(i) != P(i2))))
    return ax


def native_partition_replay(model):
    """R1: real batch_indices on concrete sizes incl. non-divisible ones; check disjointness and the number of samples used."""
    for (N, B) in [(33, 5), (7, 3), (10, 4), (5, 2), (12, 4), (9, 9), (8, 3), (14, 5), (29, 6)]:
        buf = RolloutBuffer(jnp.zeros((N, 2)), jnp.zeros((N,)), jnp.zeros((N,)), jnp.zeros((N,), bool), jnp.zeros((N,)), jnp.zeros((N,)), GPState(jnp.zeros((N, 1))))
        for seed in (0, 1, None):     # None: the key-less (sequential) path
            idx = np.asarray(buf.batch_indices(B, key=None if seed is None else jax.random.key(seed)))
            flat = idx.reshape(-1)
            ok = idx.ndim == 2 and idx.shape[1] == B and idx.shape[0] == N // B and len(set(flat.tolist())) == flat.size and flat.min() >= 0 and flat.max() < N
            if ok and seed is None:
                ok = flat.tolist() == list(range((N // B) * B))
            if not ok:
                return dict(reproduced=True, route="R1", inputs=dict(N=N, batch_size=B, key_seed=seed), observed=dict(shape=list(idx.shape), indices=idx.tolist(), expected_rows=N // B))
    return dict(reproduced=False, note="native index groups are disjoint with floor(N/B) rows on the tried sizes")


def _bi_obligations(S, ctx, buf, out, Nz, Bz, tag, shuffled, hyps):
    K = out.shape[0]
    S.prove(f"{tag}/number-of-minibatches", ctx, sand(ir.seq(K, ir.zint(Nz) / ir.zint(Bz)) if not (isinstance(K, int) and isinstance(Nz, int)) else K == Nz // Bz,
                                                      ir.seq(out.shape[1], Bz)), hyps=hyps, function=F_BI, replay=native_partition_replay,
            what="index groups have shape (floor(N/B), B): exactly floor(N/B)*B samples are used, fewer than B dropped")
    q, j, q2, j2 = z3.Ints("q j q2 j2")
    rng = [q >= 0, q < ir.zint(K), j >= 0, j < ir.zint(Bz), q2 >= 0, q2 < ir.zint(K), j2 >= 0, j2 < ir.zint(Bz)]
    ax = perm_axioms(ctx) if shuffled else []
    e1, e2 = out.at((q, j)), out.at((q2, j2))
    S.prove(f"{tag}/indices-in-range", ctx, z3.And(e1 >= 0, e1 < ir.zint(Nz)), hyps=hyps + rng + ax, function=F_BI, replay=native_partition_replay,
            what="every index refers to a collected sample: 0 <= idx < N")
    S.prove(f"{tag}/pairwise-distinct", ctx, z3.Implies(z3.Or(q != q2, j != j2), e1 != e2), hyps=hyps + rng + ax, function=F_BI, replay=native_partition_replay,
            what="no sample appears in two minibatches (or twice in one) within an epoch")
    if not shuffled:
        S.prove(f"{tag}/sequential-without-key", ctx, ir.seq(e1, q * ir.zint(Bz) + j), hyps=hyps + rng, function=F_BI, replay=native_partition_replay, what="key=None: indices are sequential (row-major)")


def unit_batch_indices(S):
    S.under_contract(F_BI)
    Q, B = symbolic_dims("Q, B")
    fams = [("N=Q*B", Q * B, B)]
    for b, r in ((2, 1), (3, 2), (4, 3), (5, 3), (4, 1)):
        fams.append((f"N={b}Q+{r},B={b}", Q * b + r, b))
    for tagf, N, Bsz in fams:
        for shuffled in (True, False):
            ctx = Ctx()
            buf = sym(ctx, "buf", flat_buffer_struct(N))
            k, kc = kit.key_input("key")
            try:
                with extract.patched((jr, "permutation", perm_stub)):
                    out = run(ctx, (lambda b_, kk: b_.batch_indices(Bsz, key=kk)) if shuffled else (lambda b_, kk: b_.batch_indices(Bsz)), buf, k)
            except ir.Unsupported:
                raise
            except Exception as e:  # the edited code is not typeable with symbolic sizes: undecided here, decided on the concrete family
                S.undecided(f"{tagf}[{'shuffled' if shuffled else 'sequential'}]/extraction", f"symbolic extraction failed: {type(e).__name__}: {str(e)[:120]}", function=F_BI)
                continue
            Nz, Bz, Qz = ctx.dim(N), ctx.dim(Bsz), ctx.dim(Q)
            hy = [Qz >= 1] + ([ir.zint(Bz) >= 1] if not isinstance(Bz, int) else [])
            _bi_obligations(S, ctx, buf, out, Nz, Bz, f"{tagf}[{'shuffled' if shuffled else 'sequential'}]", shuffled, hy)
    # arithmetic identity behind the trim, for ALL N, B >= 1
    N_, B_ = z3.Ints("N B")
    S.prove("lemma/trim-is-floor-times-B", Ctx(), z3.And(N_ - N_ % B_ == (N_ / B_) * B_, N_ - (N_ / B_) * B_ < B_, N_ - (N_ / B_) * B_ >= 0), hyps=[N_ >= 0, B_ >= 1], function=F_BI,
            what="N - N mod B = floor(N/B)*B and fewer than B samples are dropped, for all N >= 0, B >= 1")


def unit_batch_indices_concrete(S):
    """Bounded stand-in on concrete sizes (values of the permutation symbolic): covers size combinations outside the symbolic families."""
    S.under_contract(F_BI)
    rng = np.random.RandomState(int(S.seed) + 11)
    sizes = [(33, 5), (7, 3), (10, 4), (9, 9), (14, 5)]
    if S.tier == "thorough":
        sizes += [(int(rng.randint(2, 40)), int(rng.randint(1, 9))) for _ in range(12)]
    bad, unknown = [], []
    for (N, B) in sizes:
        if B > N:
            continue
        ctx = Ctx()
        buf = sym(ctx, "buf", flat_buffer_struct(N))
        k, kc = kit.key_input("key")
        with extract.patched((jr, "permutation", perm_stub)):
            out = run(ctx, lambda b_, kk: b_.batch_indices(B, key=kk), buf, k)
        shape_ok = tuple(out.shape) == (N // B, B)
        ax = perm_axioms(ctx)
        ok = shape_ok
        if shape_ok:
            elems = [out.at((q, j)) for q in range(N // B) for j in range(B)]
            s = z3.Solver()
            s.set("timeout", 20000)
            for a in list(ctx.assumptions) + ax:
                s.add(a)
            s.add(z3.Or(z3.Not(z3.Distinct(*elems)) if len(elems) > 1 else z3.BoolVal(False), *[z3.Or(e < 0, e >= N) for e in elems]))
            res = s.check()
            if res == z3.unknown:     # a solver timeout is not a verdict
                unknown.append((N, B))
                continue
            ok = res == z3.unsat
        if not ok:
            bad.append(dict(N=N, B=B, shape=[str(d) for d in out.shape]))
    if unknown:
        S.note(f"concrete sizes left open by the solver within 20 s (not counted): {unknown}")
    S.bounded_check("concrete-sizes/partition", not bad, bound=f"sizes {[s_ for s_ in sizes if s_ not in unknown]}; permutation values symbolic (A-RNG bijection)", function=F_BI,
                    what="index groups have shape (floor(N/B), B), in range and pairwise distinct on concrete sizes", detail=bad, replay=native_partition_replay)


def unit_gather(S):
    """gather / batches / RolloutBuffer.sample: row i of the result equals, in EVERY leaf, row idx[i] of the source (same idx for all leaves)."""
    S.under_contract(F_G, F_B, F_S)
    N, B, Q = symbolic_dims("N, B, Q", constraints=["B <= N"])
    for pytree in (False, True):
        ctx = Ctx()
        buf = sym(ctx, "buf", flat_buffer_struct(N, pytree))
        idx = sym(ctx, "idx", sd((B,), jnp.int32))
        out = run(ctx, lambda b_, ii: b_.gather(ii), buf, idx)
        i = z3.Int("i")
        Nz, Bz = ctx.dim(N), ctx.dim(B)
        hyp = [Nz >= 1, Bz >= 1, i >= 0, i < Bz, idx.at(i) >= 0, idx.at(i) < Nz]
        conj = []
        for lo, li in zip(kit.leaves(out), kit.leaves(buf)):
            for ci in itertools.product(*[range(d) for d in lo.shape[1:]]):
                conj.append(ir.seq(lo.at((i,) + ci), li.at((idx.at(i),) + ci)))
        S.prove(f"gather[pytree={pytree}]/row-intact", ctx, sand(*conj), hyps=hyp, function=F_G,
                what="out.f[i] = in.f[idx[i]] for every leaf f (observation parts, action parts, advantage, return, log-prob, mask, policy state) with the SAME index: rows stay together")
        # RolloutBuffer.sample: indices from choice(replace=False); rows intact
        ctx2 = Ctx()
        buf2 = sym(ctx2, "buf", flat_buffer_struct(N, pytree))
        k, kc = kit.key_input("key")
        with extract.patched((jr, "choice", choice_stub)):
            smp = run(ctx2, lambda b_, kk: b_.sample(B, key=kk), buf2, k)
        ch = [c for c in ctx2.calls if c.name.startswith("choice[")]
        S.fact(f"sample[pytree={pytree}]/choice-without-replacement", len(ch) == 1 and ch[0].name == "choice[replace=False,p=no]", shape=False, function=F_S, what="sample draws distinct indices (replace=False)")
        if len(ch) == 1:
            cidx = ch[0].outputs[0]
            Nz2, Bz2 = ctx2.dim(N), ctx2.dim(B)
            conj = []
            for lo, li in zip(kit.leaves(smp), kit.leaves(buf2)):
                for ci in itertools.product(*[range(d) for d in lo.shape[1:]]):
                    conj.append(ir.seq(lo.at((i,) + ci), li.at((cidx.at(i),) + ci)))
            S.prove(f"sample[pytree={pytree}]/row-intact", ctx2, sand(*conj), hyps=[Nz2 >= 1, Bz2 >= 1, i >= 0, i < Bz2, cidx.at(i) >= 0, cidx.at(i) < Nz2], function=F_S,
                    what="every sampled row is one collected sample with all of its fields")
    # batches = flatten + batch_indices + take with the same indices for every leaf
    ctx3 = Ctx()
    E, S_ = symbolic_dims("E, S")
    ctx3 = Ctx()
    bufb = sym(ctx3, "buf", flat_buffer_struct(Q * B))
    k, kc = kit.key_input("key")
    with extract.patched((jr, "permutation", perm_stub)):
        bt = run(ctx3, lambda b_, kk: b_.batches(B, key=kk), bufb, k)
        bi = run(ctx3, lambda b_, kk: b_.batch_indices(B, key=kk), bufb, k)
    q, j = z3.Ints("q j")
    Qz, Bz = ctx3.dim(Q), ctx3.dim(B)
    conj = []
    for lo, li in zip(kit.leaves(bt), kit.leaves(bufb)):
        for ci in itertools.product(*[range(d) for d in lo.shape[2:]]):
            conj.append(ir.seq(lo.at((q, j) + ci), li.at((bi.at((q, j)),) + ci)))
    ax = perm_axioms(ctx3)
    S.prove("batches/rows-intact", ctx3, sand(*conj), hyps=[Qz >= 1, Bz >= 1, q >= 0, q < Qz, j >= 0, j < Bz] + ax, function=F_B,
            what="batches()[q, j] is sample batch_indices[q, j] in every leaf")


def native_flatten_replay(model):
    """R1: an id-encoded RolloutBuffer (every field of sample (e, s) carries the id e*S+s) through the real flatten_axes / batches / sample for every axis order."""
    Ec, Sc = 3, 4
    ids = jnp.arange(Ec * Sc, dtype=f32).reshape(Ec, Sc)
    buf = RolloutBuffer(jnp.stack([ids, ids + 0.5], -1), ids, ids, ids > 5, ids, ids, GPState(ids[..., None]))
    buf = eqx.tree_at(lambda b: (b.advantages, b.returns), buf, (ids, ids))
    for axes in (None, (0, 1), (1, 0), (-1, -2), (0, -1), (-2, -1)):
        fl = buf.flatten_axes(axes)
        cols = dict(obs=np.asarray(fl.observations)[:, 0], actions=np.asarray(fl.actions), rewards=np.asarray(fl.rewards), log_probs=np.asarray(fl.log_probs), values=np.asarray(fl.values),
                    advantages=np.asarray(fl.advantages), returns=np.asarray(fl.returns), state=np.asarray(fl.states.h)[:, 0])
        ref = cols["obs"]
        bad = [n for n, c in cols.items() if c.shape != ref.shape or not np.array_equal(c, ref)]
        if bad or sorted(ref.tolist()) != list(range(Ec * Sc)):
            return dict(reproduced=True, route="R1 (real flatten_axes on an id-encoded RolloutBuffer)", inputs=dict(num_envs=Ec, num_steps=Sc, batch_axes=axes),
                        observed=dict(fields_not_aligned_with_observations=bad, observation_ids=ref.tolist(), **{n: cols[n].tolist() for n in bad[:2]}))
    return dict(reproduced=False, note="all axis orders keep the fields of every row together and form a bijection")


def unit_flatten(S):
    """flatten_axes() on an (E, S)-shaped rollout with pytree-structured observations/actions: out.f[e*S+s] = in.f[e,s] for every leaf."""
    S.under_contract(F_FL, "lerax.buffer.base_buffer:AbstractBuffer.resolve_axes")
    E, S_ = symbolic_dims("E, S")
    for pytree in (False, True):
        ctx = Ctx()
        st = flat_buffer_struct(E, pytree)
        st = jax.tree.map(lambda x: sd((x.shape[0], S_) + tuple(x.shape[1:]), x.dtype), st)
        buf = sym(ctx, "buf", st)
        flat = run(ctx, lambda b_: b_.flatten_axes(), buf)
        e, s = z3.Ints("e s")
        Ez, Sz = ctx.dim(E), ctx.dim(S_)
        conj = []
        for lf, lr in zip(kit.leaves(flat), kit.leaves(buf)):
            for ci in itertools.product(*[range(d) for d in lf.shape[1:]]):
                conj.append(ir.seq(lf.at((e * Sz + s,) + ci), lr.at((e, s) + ci)))
        shapes = sand(*[ir.seq(lf.shape[0], Ez * Sz) for lf in kit.leaves(flat)])
        S.prove(f"flatten[pytree={pytree}]/bijection-on-every-leaf", ctx, sand(shapes, *conj), hyps=[Ez >= 1, Sz >= 1, e >= 0, e < Ez, s >= 0, s < Sz], function=F_FL, replay=native_flatten_replay,
                what="flattening (environment, step) -> e*S+s is the same bijection on every leaf: no sample lost or duplicated, fields stay together")
        # every way of naming the batch axes (order, negative indices, a single axis): the SAME index map on every leaf
        for axes in ((0, 1), (1, 0), (-1, -2), (-2, -1), (0, -1), 0, 1, (1,), -1):
            fl = run(ctx, lambda b_, ax=axes: b_.flatten_axes(ax), buf)
            res = tuple(a + 2 if a < 0 else a for a in ((axes,) if isinstance(axes, int) else tuple(axes)))
            size = {0: Ez, 1: Sz}
            iv = {0: e, 1: s}
            conj = []
            for lf, lr in zip(kit.leaves(fl), kit.leaves(buf)):
                if len(res) == 2:
                    lead = (iv[res[0]] * size[res[1]] + iv[res[1]],)
                    nlead = 1
                else:
                    lead = (iv[res[0]], iv[1 - res[0]])   # the named axis first, the other one kept
                    nlead = 2
                for ci in itertools.product(*[range(d) for d in lf.shape[nlead:]]):
                    conj.append(ir.seq(lf.at(lead + ci), lr.at((e, s) + ci)))
            S.prove(f"flatten[pytree={pytree}]/axes={axes}/same-index-map-on-every-leaf", ctx, sand(*conj), hyps=[Ez >= 1, Sz >= 1, e >= 0, e < Ez, s >= 0, s < Sz], function=F_FL, replay=native_flatten_replay,
                    what="flatten_axes(axes): the named axes are moved to the front IN THE GIVEN ORDER and merged; every leaf (scalar fields and fields with feature axes alike) uses the same index map, so rows stay intact")
    buf0 = RolloutBuffer(jnp.zeros((2, 3, 2)), jnp.zeros((2, 3)), jnp.zeros((2, 3)), jnp.zeros((2, 3), bool), jnp.zeros((2, 3)), jnp.zeros((2, 3)), GPState(jnp.zeros((2, 3, 1))))
    ok = buf0.resolve_axes(None) == (0, 1) and buf0.resolve_axes(-1) == (1,) and buf0.resolve_axes((0, -1)) == (0, 1)
    try:
        buf0.resolve_axes((0, 0))
        ok = False
    except ValueError:
        pass
    S.fact("resolve_axes/normalises-and-rejects-duplicates", ok, function="lerax.buffer.base_buffer:AbstractBuffer.resolve_axes", what="None -> all axes; negatives normalised; duplicate / out-of-range axes rejected")


def native_epoch_replay(model):
    """R1: the real PPO.train_epoch / train on an id-encoded rollout with train_batch replaced by a recorder (jit disabled): per epoch exactly floor(N/B)*B distinct samples are
    used, every row keeps its fields together, and the epochs of one update use different shuffles; configurations with N mod num_batches >= N // num_batches included."""
    from lerax.algorithm.ppo import PPOStats
    for ne, ns, nb in ((2, 5, 4), (1, 23, 6), (2, 3, 3), (3, 4, 5), (1, 8, 2)):
        algo = PPO(num_envs=ne, num_steps=ns, num_batches=nb, num_epochs=3)
        N, B = ne * ns, algo.batch_size
        ids = jnp.arange(N, dtype=f32).reshape(ne, ns)
        buf = RolloutBuffer(jnp.stack([ids, ids], -1), ids, ids, ids > 1e9, ids, ids, GPState(ids[..., None]))
        buf = eqx.tree_at(lambda b: (b.advantages, b.returns), buf, (ids, ids))
        seen = []

        def rec_batch(self, policy, opt_state, rollout_buffer):
            seen.append(dict(rewards=np.asarray(rollout_buffer.rewards), obs=np.asarray(rollout_buffer.observations)[:, 0], adv=np.asarray(rollout_buffer.advantages), h=np.asarray(rollout_buffer.states.h)[:, 0]))
            z = jnp.asarray(0.0)
            return policy, opt_state, PPOStats(z, z, z, z, z)
        pol = GenericActorCriticPolicy(__import__("lerax.space", fromlist=["Discrete"]).Discrete(3), __import__("lerax.space", fromlist=["Box"]).Box(-jnp.inf, jnp.inf, (2,)))
        with extract.patched((PPO, "train_batch", rec_batch)), jax.disable_jit():
            algo.train(pol, jnp.zeros((3,)), buf, key=jax.random.key(4))
        per_epoch = len(seen) // 3 if len(seen) % 3 == 0 else None
        exp_batches = N // B
        problems = []
        if per_epoch != exp_batches:
            problems.append(f"{len(seen)} minibatches in 3 epochs, expected 3 x floor(N/B) = 3 x {exp_batches}")
        else:
            orders = []
            for e_ in range(3):
                rows = seen[e_ * per_epoch:(e_ + 1) * per_epoch]
                used = np.concatenate([r["rewards"] for r in rows]) if rows else np.zeros((0,))
                if len(set(used.tolist())) != len(used) or len(used) != exp_batches * B:
                    problems.append(f"epoch {e_}: {len(used)} samples used ({len(set(used.tolist()))} distinct), expected {exp_batches * B} distinct")
                if any(not (np.array_equal(r["rewards"], r["obs"]) and np.array_equal(r["rewards"], r["adv"]) and np.array_equal(r["rewards"], r["h"])) or len(r["rewards"]) != B for r in rows):
                    problems.append(f"epoch {e_}: a minibatch row mixes fields of different samples or has the wrong size")
                orders.append(tuple(used.tolist()))
            if N > 3 and len(set(orders)) == 1:
                problems.append("all three epochs used the same order (no fresh shuffle)")
        if problems:
            return dict(reproduced=True, route="R1 (real PPO.train with train_batch replaced by a recorder, id-encoded rollout)", inputs=dict(num_envs=ne, num_steps=ns, num_batches=nb, batch_size=B, N=N, num_epochs=3), observed=dict(problems=problems[:4]))
    return dict(reproduced=False, note="5 configurations x 3 epochs: floor(N/B)*B distinct intact samples per epoch, fresh shuffles")


def unit_train_epoch(S):
    """train_epoch: the scanned rows are batch_indices(self.batch_size, key) of the flattened buffer, each scan step trains on
    gather(row); train: num_epochs (symbolic) epochs, each on the SAME buffer with its own derived key."""
    S.under_contract(F_TE, F_T, "lerax.algorithm.ppo:PPO.__init__")
    K, NE = symbolic_dims("K, NE")
    Bc = 2
    ctx = Ctx()
    algo = PPO(num_envs=2, num_steps=3, num_batches=3, num_epochs=NE)
    S.fact("PPO.__init__/batch_size", algo.batch_size == (3 * 2) // 3 and PPO(num_envs=4, num_steps=10, num_batches=3).batch_size == 13, function="lerax.algorithm.ppo:PPO.__init__",
           what="batch_size = (num_steps*num_envs) // num_batches")
    space_a = __import__("lerax.space", fromlist=["Discrete"]).Discrete(3)
    from lerax.space import Box
    pol = sym(ctx, "pi", GenericActorCriticPolicy(space_a, Box(-jnp.inf, jnp.inf, (2,))))
    ost = sym(ctx, "opt", sd((3,), f32))
    st = flat_buffer_struct(2)
    st = jax.tree.map(lambda x: sd((x.shape[0], 3) + tuple(x.shape[1:]), x.dtype), st)
    buf = sym(ctx, "buf", st)
    k, kc = kit.key_input("key")
    row_struct = jax.tree.map(lambda x: sd((Bc,) + tuple(x.shape[2:]), x.dtype), st)

    def bi_stub(self, batch_size, *, key=None):
        return ocall("BI#", sd((K, batch_size), jnp.int32), key, self.rewards[0], jnp.asarray(batch_size))

    def gather_stub(self, indices):
        return ocall("GATHER#", row_struct, indices, self.rewards[0])

    def tb_stub(self, policy, opt_state, rollout_buffer):
        th, o, stat = ocall("TB#", (sd((2,), f32), sd((3,), f32), sd((), f32)), policy.theta, opt_state, jax.tree.leaves(rollout_buffer))
        from lerax.algorithm.ppo import PPOStats
        return eqx.tree_at(lambda p: p.theta, policy, th), o, PPOStats(stat, stat, stat, stat, stat)

    with extract.patched((AbstractBuffer, "batch_indices", bi_stub), (AbstractBuffer, "gather", gather_stub), (PPO, "train_batch", tb_stub)):
        newp, nost, stats = run(ctx, lambda a, p, o, b_, kk: a.train_epoch(p, o, b_, key=kk), algo, pol, ost, buf, k)
    bi = [c for c in ctx.calls if c.name == "BI#"]
    ok = len(bi) == 1 and len(ctx.scans) == 1
    S.fact("train_epoch/one-shuffle-one-pass", ok, replay=native_epoch_replay, function=F_TE, what="one batch_indices call (one shuffle) and one pass over its rows per epoch")
    if ok:
        rec = ctx.scans[0]
        Kz = ctx.dim(K)
        S.prove("train_epoch/shuffle-uses-batch_size-and-epoch-key", ctx, sand(ir.seq(bi[0].operands[2].scalar(), algo.batch_size), bi[0].operands[0].scalar() == kc,
                                                                               ir.seq(bi[0].operands[1].scalar(), buf.rewards.at((0, 0)))), replay=native_epoch_replay, function=F_TE,
                what="indices = flat_buffer.batch_indices(self.batch_size, key=epoch key) of the flattened rollout")
        S.prove("train_epoch/passes-over-all-rows", ctx, ir.seq(rec.length, Kz), replay=native_epoch_replay, function=F_TE, what="the pass visits every index row exactly once (scan over the rows)")
        j = z3.Int("j")
        carry = rec.carry_sarrs(j)
        n0 = len(ctx.calls)
        newc, ys = rec.body(carry, j)
        g = [c for c in ctx.calls[n0:] if c.name == "GATHER#"]
        tb = [c for c in ctx.calls[n0:] if c.name == "TB#"]
        S.fact("train_epoch/body-gathers-then-trains", len(g) == 1 and len(tb) == 1, function=F_TE, what="each step gathers one minibatch and trains on it")
        if len(g) == 1 and len(tb) == 1:
            S.prove("train_epoch/minibatch-is-row-j", ctx, sand(*[ir.seq(g[0].operands[0].at((c_,)), bi[0].outputs[0].at((j, c_))) for c_ in range(Bc)]), hyps=[j >= 0, j < Kz], function=F_TE,
                    what="step j gathers exactly index row j")
            nb = len(g[0].outputs)
            S.prove("train_epoch/trains-on-the-gathered-rows", ctx, sand(*[kit.arr_eq_at(a, b, ()) for a, b in zip(tb[0].operands[2:2 + nb], g[0].outputs)],
                                                                        kit.arr_eq_at(tb[0].operands[0], carry[0], ())), hyps=[j >= 0, j < Kz], function=F_TE,
                    what="train_batch receives the gathered minibatch (all fields) and the running policy")
    # train: epochs
    ctx2 = Ctx()
    pol2 = sym(ctx2, "pi", GenericActorCriticPolicy(space_a, Box(-jnp.inf, jnp.inf, (2,))))
    ost2 = sym(ctx2, "opt", sd((3,), f32))
    buf2 = sym(ctx2, "buf", st)
    k2, kc2 = kit.key_input("key")

    def te_stub(self, policy, opt_state, rollout_buffer, *, key):
        th, o, stat = ocall("TE#", (sd((2,), f32), sd((3,), f32), sd((), f32)), policy.theta, opt_state, key, jax.tree.leaves(rollout_buffer))
        from lerax.algorithm.ppo import PPOStats
        return eqx.tree_at(lambda p: p.theta, policy, th), o, PPOStats(stat, stat, stat, stat, stat)
    with extract.patched((PPO, "train_epoch", te_stub)):
        newp2, nost2, log2 = run(ctx2, lambda a, p, o, b_, kk: a.train(p, o, b_, key=kk), algo, pol2, ost2, buf2, k2)
    ok2 = len(ctx2.scans) >= 1
    S.fact("train/epoch-loop", ok2, function=F_T, what="train loops over the epochs")
    if ok2:
        rec = ctx2.scans[0]
        NEz = ctx2.dim(NE)
        S.prove("train/num_epochs-epochs", ctx2, ir.seq(rec.length, NEz), function=F_T, what="exactly num_epochs epochs per update")
        j = z3.Int("j")
        carry = rec.carry_sarrs(j)
        n0 = len(ctx2.calls)
        newc, ys = rec.body(carry, j)
        te = [c for c in ctx2.calls[n0:] if c.name == "TE#"]
        S.fact("train/one-train_epoch-per-epoch", len(te) == 1, function=F_T, what="each epoch is one train_epoch")
        if len(te) == 1:
            from lvc.vc import term_contains
            Kj = te[0].operands[2].scalar()
            j2 = z3.Int("j_other")
            Kj2 = z3.substitute(Kj, (j, j2))
            S.prove("train/epoch-key-fresh", ctx2, z3.And(z3.BoolVal(term_contains(Kj, kc2)), Kj != Kj2), hyps=[j >= 0, j < NEz, j2 >= 0, j2 < NEz, j != j2] + kit.rng_ground_injectivity([Kj, Kj2]), function=F_T,
                    replay=native_epoch_replay, what="epoch j shuffles with a key derived from the update's key and j, and different epochs get different keys (A-RNG: split / fold_in injective in the index), however the key is derived: a fresh shuffle every epoch")
            S.prove("train/every-epoch-sees-the-whole-buffer", ctx2, sand(*[kit.arr_eq_at(a, b, ()) for a, b in zip(te[0].operands[3:], kit.leaves(buf2))]), hyps=[j >= 0, j < NEz], function=F_T,
                    what="every epoch visits the same collected data (the buffer is passed unchanged)")


UNITS = [("batch_indices", unit_batch_indices), ("batch_indices-concrete", unit_batch_indices_concrete), ("gather", unit_gather), ("flatten", unit_flatten), ("train", unit_train_epoch)]
