#!/usr/bin/env python3
"""Developer tool: write the self-contained task descriptions handed to seeded-defect sub-agents (property text + scratch worktree only).
usage: make_seed_prompts.py <round-tag> [ids...]   -> /tmp/prompt_<tag>_<id>.txt and a git worktree /tmp/wt<tag>_<id> of /repo HEAD"""
import json, subprocess, sys
tag = sys.argv[1]
only = sys.argv[2:]
props = {json.loads(l)["id"]: json.loads(l) for l in open("/verif/properties.jsonl")}
FOCUS = {
 "C01": "wrapper counters restarted on auto-reset / reset returns an initial state with that state's own observation / wrapper stacks and the Gymnasium adapter",
 "C02": "MuJoCo or Unitree environments and wrapper stacks: observation-space membership (shape, dtype, bounds), reward / flag types",
 "C03": "the lambda recurrence across an episode end inside the buffer, return_t = A_t + V_t, several parallel environments",
 "C04": "the truncation bootstrap gamma*V(successor observation), action masks recorded and applied, the clipped action driving environment and reward",
 "C05": "warm-up stores exactly learning_starts transitions per environment; the successor observation is that of the pre-reset successor state; each environment's own buffer",
 "C06": "insertion wrap-around: exactly the most recent min(n, C) transitions with all fields from the same insertion",
 "C07": "SAC: min of the two TARGET critics at a freshly sampled next action minus alpha*log pi; no gradient reaches target networks; the actor loss does not move the critics",
 "C08": "value clipping (PPO2: larger of the clipped and unclipped errors), A2C / REINFORCE objectives, advantage normalisation, global-norm clipping through the configured optimiser",
 "C09": "flattening the (environment, step) axes neither loses nor duplicates a sample; all fields of a row still belong together; every epoch gets a fresh shuffle",
 "C10": "the number of iterations floor(total_timesteps / (num_envs*num_steps)); DQN target network update interval; Polyak update exactly once per iteration",
 "C11": "attaching observers (logging callback, progress bar, callback lists) does not change the trained policy; the policy passed in is left untouched",
 "C12": "every environment function gives the same result eagerly, under jit, or vmapped and depends only on its explicit arguments",
 "C13": "TimeLimit(N) exactness and restart on reset; observation / reward wrappers and the advertised space; pass-through for wrapper stacks; the adapters",
 "C14": "Discrete / MultiDiscrete / MultiBinary / Dict / Tuple: contains, sample with a mask, canonical, flatten_sample, equality vs hashing, Gymnasium round trip",
 "C15": "sample_and_log_prob returns the log-probability of the sample it returns; squashed laws within [low, high] incl. the Jacobian; prob = exp(log_prob); masked laws",
 "C16": "actor-critic policies with discrete, multi-discrete and multi-binary masks; without a key the mode; with a key the reported log-probability belongs to the sampled action",
 "C17": "a MuJoCo environment's reward components / termination / observation versus Gymnasium v5, or MountainCar / ContinuousMountainCar / CartPole",
 "C18": "loading into a policy whose parameter shapes differ raises; saving into not-yet-existing directories; every policy class",
 "C19": "the evaluation helper (mean undiscounted return of the requested number of episodes, each ending at first terminal/truncated state or step cap); cumulative number of environment steps in log records; per-environment statistics",
 "C20": "gait phases stay within [-pi, pi], half a cycle apart, advancing by 2*pi*frequency*dt per control step; desired foot heights within [0, swing height]; velocity command ranges",
}
T = open("/verif/tools/seed_prompt_template.txt").read()
for pid, p in sorted(props.items()):
    if only and pid not in only:
        continue
    wt = f"/tmp/wt{tag}_{pid}"
    import os
    if not os.path.isdir(wt):
        subprocess.run(["git", "-C", "/repo", "worktree", "add", "--detach", wt, "HEAD"], check=True, capture_output=True)
    txt = (T.replace("@WT@", wt).replace("@ID@", pid).replace("@TITLE@", p["title"]).replace("@STATEMENT@", p["statement"])
           .replace("@QUANT@", p["quantifier"]["text"]).replace("@FILES@", ", ".join(p["anchors"]["files"]))
           .replace("@FOCUS@", FOCUS[pid]))
    open(f"/tmp/prompt_{tag}_{pid}.txt", "w").write(txt)
    print(pid, wt)
