#!/usr/bin/env python3
"""Developer tool: write the self-contained task descriptions handed to seeded-defect sub-agents (property text + scratch worktree only).
usage: make_seed_prompts.py <round-tag> [ids...]   -> /tmp/prompt_<tag>_<id>.txt and a git worktree /tmp/wt<tag>_<id> of /repo HEAD"""
import json, subprocess, sys
tag = sys.argv[1]
only = sys.argv[2:]
props = {json.loads(l)["id"]: json.loads(l) for l in open("/verif/properties.jsonl")}
FOCUS = {
 "C01": "wrapper counters restarted on auto-reset / reset returns an initial state with that state's own observation / wrapper stacks and the Gymnasium adapter",
 "C02": "MuJoCo or Unitree environments and wrapper stacks: observation-space membership (shape, dtype, bounds), reward / flag types",
 "C03": "the lambda recurrence across an episode end inside the buffer, return_t = A_t + V_t, several parallel environments",
 "C04": "the truncation bootstrap gamma*V(successor observation), action masks recorded and applied, the clipped action driving environment and reward",
 "C05": "warm-up stores exactly learning_starts transitions per environment; the successor observation is that of the pre-reset successor state; each environment's own buffer",
 "C06": "insertion wrap-around: exactly the most recent min(n, C) transitions with all fields from the same insertion",
 "C07": "SAC: min of the two TARGET critics at a freshly sampled next action minus alpha*log pi; no gradient reaches target networks; the actor loss does not move the critics",
 "C08": "value clipping (PPO2: larger of the clipped and unclipped errors), A2C / REINFORCE objectives, advantage normalisation, global-norm clipping through the configured optimiser",
 "C09": "flattening the (environment, step) axes neither loses nor duplicates a sample; all fields of a row still belong together; every epoch gets a fresh shuffle",
 "C10": "the number of iterations floor(total_timesteps / (num_envs*num_steps)); DQN target network update interval; Polyak update exactly once per iteration",
 "C11": "attaching observers (logging callback, progress bar, callback lists) does not change the trained policy; the policy passed in is left untouched",
 "C12": "every environment function gives the same result eagerly, under jit, or vmapped and depends only on its explicit arguments",
 "C13": "TimeLimit(N) exactness and restart on reset; observation / reward wrappers and the advertised space; pass-through for wrapper stacks; the adapters",
 "C14": "Discrete / MultiDiscrete / MultiBinary / Dict / Tuple: contains, sample with a mask, canonical, flatten_sample, equality vs hashing, Gymnasium round trip",
 "C15": "sample_and_log_prob returns the log-probability of the sample it returns; squashed laws within [low, high] incl. the Jacobian; prob = exp(log_prob); masked laws",
 "C16": "actor-critic policies with discrete, multi-discrete and multi-binary masks; without a key the mode; with a key the reported log-probability belongs to the sampled action",
 "C17": "a MuJoCo environment's reward components / termination / observation versus Gymnasium v5, or MountainCar / ContinuousMountainCar / CartPole",
 "C18": "loading into a policy whose parameter shapes differ raises; saving into not-yet-existing directories; every policy class",
 "C19": "the evaluation helper (mean undiscounted return of the requested number of episodes, each ending at first terminal/truncated state or step cap); cumulative number of environment steps in log records; per-environment statistics",
 "C20": "gait phases stay within [-pi, pi], half a cycle apart, advancing by 2*pi*frequency*dt per control step; desired foot heights within [0, swing height]; velocity command ranges",
}
FOCUS3 = {
 "C01": "the Gymnasium adapter's step/reset (LeraxToGymEnv / GymToLeraxEnv) and reset returning an initial state together with THAT state's own observation; reward reported for exactly the transition taken",
 "C02": "Unitree G1 or MuJoCo environments: observation dtype / shape / bounds against the declared space, sampled actions accepted, rewards finite float scalars, flags boolean scalars, nothing depending on Python-side state",
 "C03": "lambda = 1 yields discounted Monte-Carlo returns and lambda = 0 one-step TD errors; several parallel environments are each estimated on their own",
 "C04": "the environment is driven, and its reward computed, with the action clipped into a bounded action space while the rollout stores the policy's own sample with the value and log-probability for exactly that observation; action masks recorded and applied",
 "C05": "every iteration adds num_steps transitions per environment to that environment's own buffer; reward and successor observation are those produced for the executed (bounds-clipped) action; policy state restarts after a done step",
 "C06": "sampling: only stored transitions, never unwritten slots, no transition twice within a batch, also when several per-environment buffers with different fill levels are sampled jointly",
 "C07": "SAC: the (1 - terminated) factor, the minus alpha*log pi term at a FRESHLY sampled next action, and that the actor loss does not move the critics",
 "C08": "A2C and REINFORCE objectives (-E[log pi * A] plus weighted value / entropy terms), optional advantage normalisation, approximate KL equal to 0 on on-policy data",
 "C09": "exactly floor(N/B)*B of the N samples are used per epoch; every epoch of an update visits the data once under a FRESH shuffle (PPO.train / train_epoch)",
 "C10": "training for total_timesteps performs exactly floor(total_timesteps / (num_envs*num_steps)) iterations, each advancing the iteration counter by one; SAC target critics follow the Polyak rule exactly once per iteration",
 "C11": "the policy passed in is left untouched; repeating training with the same inputs yields bit-identical parameters; progress bar / logging callback / callback lists as observers",
 "C12": "off-policy collection with N parallel environments (per-environment replay buffers) equals N independent single-environment collections; advantages never cross environments",
 "C13": "the Gymnasium and Gymnax adapters reproduce the trajectory of the environment they adapt; every documented wrapper can be constructed; FlattenObservation / ClipObservation advertise the matching space",
 "C14": "equality holds exactly between spaces of equal structure and parameters and agrees with hashing; Gymnasium round trip (Dict keys in Gymnasium's own order); flatten_sample returns flat_size numbers that determine the sample; canonical() is a member",
 "C15": "Normal / MultivariateNormalDiag / Bernoulli / Categorical wrappers: entropy, mode within the support, parameters given flat or as a sequence, prob = exp(log_prob)",
 "C16": "masked Categorical / MultiCategorical / Bernoulli laws: masked actions get probability zero and the remaining probabilities are renormalised proportionally; with a key the policy samples from the same distribution whose log-probability it reports",
 "C17": "initial-state range of a classic-control environment, MountainCar / ContinuousMountainCar dynamics or limits, or a MuJoCo environment's observation at reset / termination predicate (Hopper, Ant, Humanoid, InvertedPendulum)",
 "C18": "identical actions, values and log-probabilities after loading for every policy class (SAC and Q policies too), with or without the .eqx suffix",
 "C19": "log records reach the backend in iteration order with the cumulative number of environment steps; the smoothing factor of the episode statistics; statistics kept separately per environment",
 "C20": "velocity command and gait frequency within their configured ranges (zero command for the standing tasks); every non-randomised model parameter equals the nominal one; desired foot heights vanish at phase -pi and peak at phase 0",
}
FOCUS4 = {
 "C01": "wrapper stacks two or three deep (observation / reward / action wrappers around or inside TimeLimit), environments offering action masks, and which state's observation / info is returned on the flagged step",
 "C02": "the declared ACTION space of action wrappers (RescaleAction, ClipAction) versus the actions they accept and forward; observation bounds of a classic-control environment exactly at its state limits; dtype of rewards and flags under wrappers",
 "C03": "the time axis (ordering, first / last step), a non-default gamma, and the vmapped (several environments) use of compute_returns_and_advantages",
 "C04": "the A2C / REINFORCE collection paths, the recorded policy state and action mask, and which key / observation the recorded value and log-probability belong to",
 "C05": "the SAC (Box action) path, the stored next policy state and action mask, and several environments combined with a TimeLimit wrapper",
 "C06": "ReplayBuffer.add with pytree-structured observations / policy states and the relation between position, current_size and the slots that count as written",
 "C07": "DQN: the greedy action is chosen by the ONLINE network and evaluated by the TARGET network; the loss uses the online value of the action actually taken; the discount gamma",
 "C08": "the entropy term (sign and weight), the approximate KL statistic, and that the PPO ratio is taken against the STORED log-probabilities",
 "C09": "the public RolloutBuffer.sample / batches / gather API on pytree-structured fields, and batch_indices called without a key",
 "C10": "off-by-one relations between the iteration counter and the DQN target update; the temperature changing only with autotune; num_iterations of the off-policy algorithms",
 "C11": "hidden non-determinism or hidden inputs: wall-clock time, process ids, hash randomisation, object identity, or observer-generated names leaking into the training state",
 "C12": "policy and distribution functions, or Pendulum / CartPole component functions, giving the same result eagerly, under jit and under vmap",
 "C13": "the Gymnax adapters and GymToLeraxEnv; TransformAction with a mask_func; RescaleObservation / ClipAction advertised spaces",
 "C14": "MultiDiscrete / MultiBinary contains on wrong dtypes or shapes; nested Tuple / Dict canonical() and sample(); Box.sample with one-sided infinite bounds",
 "C15": "laws parameterised by probs rather than logits; the mode of squashed laws; the sequence form of MultiCategorical in sample_and_log_prob",
 "C16": "MultiCategorical masks in flat and sequence form, Bernoulli masks, and the deterministic / epsilon-greedy modes of SAC and Q policies",
 "C17": "CartPole thresholds and the reward on the terminating step, or the reward / observation of Pusher, Reacher, Swimmer, HalfCheetah or InvertedDoublePendulum against Gymnasium v5",
 "C18": "serialize called inside jit (ordering of the host callback), no_suffix=True, and the SAC policy round trip",
 "C19": "LoggingCallbackStepState.next with several environments, the smoothing factor, and average_reward's number of episodes and per-episode keys",
 "C20": "G1Standup / G1Standing specifics, the gait phase observation, the desired foot-height function between its end points, and snapping the robot to the ground at reset",
}
FOCUS5 = {pid: "a place of your own choosing that a reviewer would be least likely to look at: an interaction between two features, a rarely used public entry point or option, a numerically or structurally degenerate input (empty, size one, all equal, zero, repeated calls on one object), or a code path taken only under jit / vmap / several environments" for pid in FOCUS}
FOCUS6 = {pid: "not the listed files themselves but something they rely on: a shared helper or utility module, an abstract base-class method, a default value of a field or argument, an `__init__` that normalises its arguments; or a non-default constructor option / hyper-parameter value (legal, documented, but never set by the tests) under which the code takes a different path" for pid in FOCUS}
FOCUS7 = {pid: "a defect that needs TWO circumstances at once (each alone is handled correctly): e.g. parallel environments whose episodes end at different steps, a wrapper stack of depth two or more in an unusual order, an action mask together with a key-less (greedy) call, a buffer that has wrapped around AND is sampled jointly, the last element / last iteration / very first call of a loop, an option combination that is legal but unusual; or an off-by-one that only shows at such a boundary" for pid in FOCUS}
FOCUS8 = {pid: "any part of the statement you like - but make the change look like an improvement a reviewer would wave through (a performance fast path, a refactoring into a helper, a more defensive default, support for a new option, numerical stabilisation), and make it wrong only for inputs or configurations the tests and ordinary use never reach" for pid in FOCUS}
T = open("/verif/tools/seed_prompt_template.txt").read()
for pid, p in sorted(props.items()):
    if only and pid not in only:
        continue
    wt = f"/tmp/wt{tag}_{pid}"
    import os
    if not os.path.isdir(wt):
        subprocess.run(["git", "-C", "/repo", "worktree", "add", "--detach", wt, "HEAD"], check=True, capture_output=True)
    txt = (T.replace("@WT@", wt).replace("@ID@", pid).replace("@TITLE@", p["title"]).replace("@STATEMENT@", p["statement"])
           .replace("@QUANT@", p["quantifier"]["text"]).replace("@FILES@", ", ".join(p["anchors"]["files"]))
           .replace("@FOCUS@", ({"3": FOCUS3, "4": FOCUS4, "5": FOCUS5, "6": FOCUS6, "7": FOCUS7, "8": FOCUS8}.get(tag, FOCUS))[pid]))
    open(f"/tmp/prompt_{tag}_{pid}.txt", "w").write(txt)
    print(pid, wt)
