#!/usr/bin/env python3
"""Apply every kept seeded change to /repo in turn, run the property's quick check, undo, and record what was caught.
Writes seeded/<id>/meta.json (adds a `verif` section) and seeded/RESULTS.md.  Developer tool, not a registered command."""
import json, os, re, subprocess, sys
ROOT = os.path.dirname(os.path.dirname(os.path.abspath(__file__)))
ids = sorted(d for d in os.listdir(os.path.join(ROOT, "seeded")) if os.path.isdir(os.path.join(ROOT, "seeded", d)))
only = sys.argv[1:]
rows = []
for sid in ids:
    if only and sid not in only:
        continue
    d = os.path.join(ROOT, "seeded", sid)
    patch = os.path.join(d, "patch.diff")
    assert subprocess.run(["git", "-C", "/repo", "status", "--porcelain"], capture_output=True, text=True).stdout.strip() == "", "/repo not clean"
    ap = subprocess.run(["git", "-C", "/repo", "apply", patch], capture_output=True, text=True)
    if ap.returncode != 0:
        rows.append((sid, "PATCH DOES NOT APPLY", "", ""))
        continue
    try:
        demo = subprocess.run(["/venv/bin/python", os.path.join(d, "demo.py")], capture_output=True, text=True, env={**os.environ, "PYTHONPATH": "/repo/src", "JAX_PLATFORMS": "cpu"}, timeout=1200)
        prop = sid.split("-")[0]
        r = subprocess.run([os.path.join(ROOT, "check"), prop, "--no-evidence"], capture_output=True, text=True, cwd=ROOT, timeout=1800)
    finally:
        subprocess.run(["git", "-C", "/repo", "checkout", "--", "."], check=True)
    viol = re.findall(r"VIOLATION property=\S+ replay=\S*/([^/\s]+)\.json( no-failing-input-found)?", r.stdout)
    summ = [l for l in r.stdout.splitlines() if re.match(r"^C\d+ \[", l)]
    replayed = sum(1 for _, s in viol if not s)
    meta_p = os.path.join(d, "meta.json")
    meta = json.load(open(meta_p)) if os.path.exists(meta_p) else {}
    meta["verif"] = dict(check=f"./check {sid.split('-')[0]} --tier quick", exit_code=r.returncode, caught=r.returncode == 1, failed_obligations=[v for v, _ in viol][:12],
                         violations_with_native_replay=replayed, demo_exit_with_patch=demo.returncode, summary=summ[-1] if summ else "",
                         confirmed="patch applied to /repo working tree (git apply), demo.py run with PYTHONPATH=/repo/src (fails with the patch; passes without, checked by tools/keep_seed.sh), quick check run, patch reverted (git checkout -- .)")
    json.dump(meta, open(meta_p, "w"), indent=1)
    rows.append((sid, "caught" if r.returncode == 1 else f"NOT caught (exit {r.returncode})", f"{len(viol)} obligations ({replayed} replayed natively)", ", ".join(v for v, _ in viol[:3])))
    print(rows[-1], flush=True)
with open(os.path.join(ROOT, "seeded", "RESULTS.md"), "w") as f:
    f.write("| seed | verdict of ./check <id> --tier quick | failed obligations | first obligations |\n|---|---|---|---|\n")
    for row in rows:
        f.write("| " + " | ".join(row) + " |\n")
