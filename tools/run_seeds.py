#!/usr/bin/env python3
"""Apply every kept seeded change in turn to a scratch worktree of /repo (HEAD), run the property's quick check against that tree (LVC_REPO), undo, and record what was caught.
W workers (default 4), one scratch worktree under /tmp each (removed at the end); seeds of one property are handled by one worker.  /repo itself is never touched.
Writes seeded/<id>/meta.json (adds a `verif` section) and seeded/RESULTS.md.  Developer tool, not a registered command."""
import json, os, re, shutil, subprocess, sys
from concurrent.futures import ThreadPoolExecutor
ROOT = os.path.dirname(os.path.dirname(os.path.abspath(__file__)))
# the checks run from a snapshot of /verif taken now (so the machinery can be edited while this runs); results are written to the real tree
SNAP = f"/tmp/lvc_snap_{os.getpid()}"
subprocess.run(["rsync", "-a", "--delete", "--exclude", ".git", "--exclude", "replays", "--exclude", ".venv", "--exclude", "seeded", "--exclude", "refactors", ROOT + "/", SNAP + "/"], check=True)
os.symlink(os.path.join(ROOT, ".venv"), os.path.join(SNAP, ".venv"))
ids = sorted(d for d in os.listdir(os.path.join(ROOT, "seeded")) if os.path.isdir(os.path.join(ROOT, "seeded", d)))
args = sys.argv[1:]
W = 4
if args and args[0].startswith("-j"):
    W = int(args.pop(0)[2:])
only = args
ids = [i for i in ids if not only or i in only]
groups = {}
for sid in ids:
    groups.setdefault(sid.split("-")[0], []).append(sid)


def one(wt, rp, sid):
    d = os.path.join(ROOT, "seeded", sid)
    patch = os.path.join(d, "patch.diff")
    ap = subprocess.run(["git", "-C", wt, "apply", patch], capture_output=True, text=True)
    if ap.returncode != 0:
        return (sid, "PATCH DOES NOT APPLY", "", "")
    env = {**os.environ, "JAX_PLATFORMS": "cpu"}
    try:
        demo = subprocess.run(["/venv/bin/python", os.path.join(d, "demo.py")], capture_output=True, text=True, env={**env, "PYTHONPATH": wt + "/src"}, timeout=1800)
        prop = sid.split("-")[0]
        r = subprocess.run([os.path.join(SNAP, "check"), prop, "--no-evidence", "--jobs", "6"], capture_output=True, text=True, cwd=SNAP, timeout=3600, env={**env, "LVC_REPO": wt, "LVC_REPLAY_DIR": rp})
    finally:
        subprocess.run(["git", "-C", wt, "checkout", "--", "."], check=True)
    viol = re.findall(r"VIOLATION property=\S+ replay=\S*/([^/\s]+)\.json( no-failing-input-found)?", r.stdout)
    summ = [l for l in r.stdout.splitlines() if re.match(r"^C\d+ \[", l)]
    replayed = sum(1 for _, s in viol if not s)
    meta_p = os.path.join(d, "meta.json")
    meta = json.load(open(meta_p)) if os.path.exists(meta_p) else {}
    meta["verif"] = dict(check=f"./check {sid.split('-')[0]} --tier quick", exit_code=r.returncode, caught=r.returncode == 1, failed_obligations=[v for v, _ in viol][:12],
                         violations_with_native_replay=replayed, demo_exit_with_patch=demo.returncode, summary=summ[-1] if summ else "",
                         confirmed="patch applied to a scratch worktree of /repo HEAD (git apply), demo.py run with PYTHONPATH=<worktree>/src (fails with the patch; passes without, checked by tools/keep_seed.sh), quick check run against that tree, patch reverted")
    json.dump(meta, open(meta_p, "w"), indent=1)
    row = (sid, "caught" if r.returncode == 1 else f"NOT caught (exit {r.returncode})", f"{len(viol)} obligations ({replayed} replayed natively)", ", ".join(v for v, _ in viol[:3]))
    print(row, flush=True)
    return row


def worker(w, props):
    wt, rp = f"/tmp/lvc_seed_wt{w}", f"/tmp/lvc_seed_rp{w}"
    subprocess.run(["git", "-C", "/repo", "worktree", "remove", "--force", wt], capture_output=True)
    subprocess.run(["git", "-C", "/repo", "worktree", "add", "--detach", wt, "HEAD"], check=True, capture_output=True)
    rows = []
    try:
        for p in props:
            for sid in groups[p]:
                try:
                    rows.append(one(wt, rp, sid))
                except Exception as e:
                    rows.append((sid, f"TOOL ERROR {type(e).__name__}: {e}"[:120], "", ""))
                    subprocess.run(["git", "-C", wt, "checkout", "--", "."])
    finally:
        subprocess.run(["git", "-C", "/repo", "worktree", "remove", "--force", wt], capture_output=True)
        shutil.rmtree(rp, ignore_errors=True)
    return rows


props = sorted(groups, key=lambda p: -len(groups[p]))
parts = [props[w::W] for w in range(W)]
with ThreadPoolExecutor(W) as ex:
    rows = [r for part in ex.map(worker, range(W), parts) for r in part]
rows.sort()
if not only:
    with open(os.path.join(ROOT, "seeded", "RESULTS.md"), "w") as f:
        f.write("| seed | verdict of ./check <id> --tier quick | failed obligations | first obligations |\n|---|---|---|---|\n")
        for row in rows:
            f.write("| " + " | ".join(row) + " |\n")
shutil.rmtree(SNAP, ignore_errors=True)
