#!/bin/sh
# tools/keep_seed.sh <id> <worktree> : confirm the seeded change (demo passes without / fails with the patch) and keep it.
ID=$1; WT=$2
cd $WT || exit 2
git apply -R _seed/patch.diff 2>/dev/null
git diff --quiet -- src || { echo "worktree not clean after reverting patch"; git diff --stat; }
PYTHONPATH=$WT/src /venv/bin/python _seed/demo.py >/tmp/keep_seed_orig.log 2>&1; A=$?
git apply _seed/patch.diff || { echo "patch does not re-apply"; exit 2; }
PYTHONPATH=$WT/src /venv/bin/python _seed/demo.py >/tmp/keep_seed_pat.log 2>&1; B=$?
echo "demo original exit=$A patched exit=$B"
tail -3 /tmp/keep_seed_pat.log
if [ "$A" = 0 ] && [ "$B" != 0 ]; then
  mkdir -p /verif/seeded/$ID && cp _seed/patch.diff _seed/demo.py _seed/meta.json /verif/seeded/$ID/ && echo kept /verif/seeded/$ID
fi
