#!/bin/sh
# tools/first_verdict.sh <prop> <round> : confirm + keep the sub-agent's seed from /tmp/wt<round>_<prop>, run the property's quick check against that worktree (LVC_REPO), print the verdict,
# remove the worktree.  Developer tool.
P=$1; R=$2; WT=/tmp/wt${R}_$P; ID=$P-$R
sh /verif/tools/keep_seed.sh $ID $WT || exit 2
[ -d /verif/seeded/$ID ] || { echo "NOT KEPT $ID"; exit 2; }
cd /verif && LVC_REPO=$WT LVC_REPLAY_DIR=/tmp/lvc_fv_$ID ./check $P --no-evidence --jobs 6 2>&1 | grep -v warp | grep -E "^C[0-9]+ \[|VIOLATION|UNDECIDED|ERROR|KNOWN" | cut -c1-260 | head -${3:-8}
rm -rf /tmp/lvc_fv_$ID
git -C /repo worktree remove --force $WT && echo "worktree removed"
