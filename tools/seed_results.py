#!/usr/bin/env python3
"""Regenerate seeded/RESULTS.md from the `verif` sections tools/run_seeds.py wrote into seeded/<id>/meta.json (so partial re-runs are merged).  Developer tool."""
import json, os, re
ROOT = os.path.dirname(os.path.dirname(os.path.abspath(__file__)))
rows = []
for sid in sorted(os.listdir(os.path.join(ROOT, "seeded"))):
    mp = os.path.join(ROOT, "seeded", sid, "meta.json")
    if not os.path.isfile(mp):
        continue
    v = json.load(open(mp)).get("verif")
    if not v:
        rows.append((sid, "not run", "", ""))
        continue
    n = re.search(r"failed=(\d+)", v.get("summary", ""))
    rows.append((sid, "caught" if v["caught"] else f"NOT caught (exit {v['exit_code']})", f"{n.group(1) if n else len(v['failed_obligations'])} obligations ({v['violations_with_native_replay']} replayed natively)",
                 ", ".join(v["failed_obligations"][:3])))
with open(os.path.join(ROOT, "seeded", "RESULTS.md"), "w") as f:
    f.write("| seed | verdict of ./check <id> --tier quick | failed obligations | first obligations |\n|---|---|---|---|\n")
    for row in rows:
        f.write("| " + " | ".join(row) + " |\n")
print(len(rows), "seeds;", sum(1 for r in rows if r[1] == "caught"), "caught")
