#!/bin/sh
# tools/try_seed.sh <prop> <patch> [checks...] : apply a seeded patch to /repo, run the check(s), undo.
P=$1; PATCH=$2; shift 2
CHECKS=${@:-$P}
git -C /repo apply "$PATCH" || { echo "patch does not apply"; exit 2; }
git -C /repo diff --stat | tail -1
for c in $CHECKS; do
  (cd /verif && ./check $c --no-evidence 2>&1 | grep -v warp | grep -E "^C[0-9]+ |VIOLATION|UNDECIDED|ERROR|KNOWN" | head -8)
done
git -C /repo checkout -- .
