#!/usr/bin/env python3
"""Regenerate MANIFEST.json from tools/claims.json (one entry per property: claimed or not, notes)."""
import json, os
ROOT = os.path.dirname(os.path.dirname(os.path.abspath(__file__)))
claims = json.load(open(os.path.join(ROOT, "tools", "claims.json")))
props = [json.loads(l) for l in open(os.path.join(ROOT, "properties.jsonl"))]
BASE = "cd /repo && /venv/bin/python -m pytest -ra -q -p no:cacheprovider --timeout=900 --continue-on-collection-errors"
checks, na = [], []
for p in props:
    c = claims.get(p["id"], {})
    if c.get("claimed"):
        checks.append(dict(
            property_id=p["id"],
            quick_cmd=f"./check {p['id']} --tier quick",
            thorough_cmd=f"./check {p['id']} --tier thorough",
            evidence_file=f"/verif/evidence/{p['id']}.json",
            replay_cmd_template=f"./check {p['id']} --replay {{path}}",
            engine="lvc",
            level_claimed=dict(category=c.get("category", "proof"), text=c["text"], design_ref=c.get("design_ref", "DESIGN.md §4 " + p["id"])),
            level_note=c["note"],
            technique=c.get("technique", "sidecar contracts on the real functions; VCs generated from the extracted jaxpr (jax.make_jaxpr of the working tree); discharged by z3 5.1 with cvc5 re-check"),
        ))
    else:
        na.append(dict(property_id=p["id"], reason=c.get("reason", "check not built yet with this technique (in progress; not a claim of inapplicability)")))
m = dict(
    version=1,
    setup_cmd="./setup.sh",
    hooks=dict(guard="LERAX_VERIF", enable="none needed: contracts are sidecars in /verif/contracts keyed by module:qualname; collaborators are patched in the verifier process only",
               baseline_off_cmd=BASE, source_commits=[], add_only=True),
    engines=[dict(name="lvc", path="/verif/lvc", serves_properties=[c["property_id"] for c in checks],
                  kind_free_text="contract-based deductive verifier: jaxpr extraction of the real functions, VC generation over lazily indexed symbolic arrays and uninterpreted collaborators, z3/cvc5 discharge, native replay of counter-models")],
    checks=checks,
    notes="See DESIGN.md. Exit codes: 0 held, 1 violation (VIOLATION line), 2 undecided, 3 internal error. Known findings (genuine defects recorded, not repaired) and fixed ones are listed in known_findings.json (committed, never written at run time); a listed known finding prints a KNOWN-FINDING line and does not change the exit code.",
    not_applicable=na,
)
json.dump(m, open(os.path.join(ROOT, "MANIFEST.json"), "w"), indent=1)
print("claimed:", [c["property_id"] for c in checks])
