#!/usr/bin/env python3
"""Developer tool: task descriptions + scratch worktrees for behaviour-preserving-refactoring sub-agents (false-alarm testing).  usage: make_refactor_prompts.py <tag>"""
import os, subprocess, sys
tag = sys.argv[1]
GROUPS = {
 "H01": "src/lerax/algorithm/on_policy.py, src/lerax/buffer/rollout.py",
 "H02": "src/lerax/algorithm/off_policy.py, src/lerax/buffer/replay.py",
 "H03": "src/lerax/algorithm/ppo.py, src/lerax/algorithm/a2c.py, src/lerax/algorithm/reinforce.py, src/lerax/buffer/base_buffer.py",
 "H04": "src/lerax/algorithm/dqn.py, src/lerax/algorithm/sac.py, src/lerax/algorithm/base_algorithm.py",
 "H05": "src/lerax/env/base_env.py, src/lerax/wrapper/misc.py, src/lerax/wrapper/transform_action.py, src/lerax/wrapper/transform_observation.py, src/lerax/wrapper/transform_reward.py, src/lerax/wrapper/utils.py",
 "H06": "src/lerax/space/box.py, src/lerax/space/discrete.py, src/lerax/space/multi_discrete.py, src/lerax/space/multi_binary.py, src/lerax/space/dict.py, src/lerax/space/tuple.py",
 "H07": "src/lerax/distribution/*.py, src/lerax/policy/actor.py, src/lerax/policy/q/base_q.py, src/lerax/policy/actor_critic/mlp.py, src/lerax/policy/sac/mlp.py",
 "H08": "src/lerax/env/classic_control/cartpole.py, acrobot.py, mountain_car.py, continuous_mountain_car.py, pendulum.py, base_classic_control.py (all under src/lerax/env/classic_control/)",
 "H09": "src/lerax/env/mujoco/walker2d.py, hopper.py, ant.py, humanoid.py, half_cheetah.py, reacher.py, pusher.py, base_mujoco.py (all under src/lerax/env/mujoco/)",
 "H10": "src/lerax/callback/logging/callback.py, src/lerax/benchmark/__init__.py, src/lerax/utils.py, src/lerax/env/unitree/g1/gait.py, src/lerax/env/unitree/g1/randomize.py, src/lerax/env/unitree/g1/base_g1.py",
}
T = open("/verif/tools/refactor_prompt_template.txt" if tag != "S" else "/verif/tools/refactor_prompt_template2.txt").read()
for gid, files in GROUPS.items():
    wt = f"/tmp/wt{tag}_{gid}"
    if not os.path.isdir(wt):
        subprocess.run(["git", "-C", "/repo", "worktree", "add", "--detach", wt, "HEAD"], check=True, capture_output=True)
    open(f"/tmp/prompt_{tag}_{gid}.txt", "w").write(T.replace("@WT@", wt).replace("@FILES@", files))
    print(gid, wt)
