#!/bin/sh
# tools/mut.sh <prop> <file-relative-to-/repo> <sed-expr>   : apply a one-line edit to /repo, run the check, undo.
P=$1; F=$2; E=$3
cd /repo && sed -i "$E" "$F" && git diff --stat | tail -1
cd /verif && ./check $P --no-evidence 2>&1 | grep -v "warp" | grep -E "^C[0-9]+ |VIOLATION|UNDECIDED|ERROR|KNOWN" | head -${4:-8}
git -C /repo checkout -- .
