#!/bin/sh
# tools/keep_refactor.sh <gid> <worktree> : keep a sub-agent's behaviour-preserving refactoring under /verif/refactors/<gid>/
G=$1; WT=$2
mkdir -p /verif/refactors/$G && cp $WT/_refactor/patch.diff $WT/_refactor/notes.md /verif/refactors/$G/ && cp $WT/_refactor/equiv.py /verif/refactors/$G/ 2>/dev/null
echo kept /verif/refactors/$G; wc -l /verif/refactors/$G/patch.diff
