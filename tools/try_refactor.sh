#!/bin/sh
# tools/try_refactor.sh <gid> [checks...] : apply a kept behaviour-preserving refactoring (refactors/<gid>/patch.diff) to /repo, run the checks (default: all 20), undo.
# Any VIOLATION here is a false alarm of the machinery; UNDECIDED is tolerated but recorded.
G=$1; shift
CHECKS=${@:-C01 C02 C03 C04 C05 C06 C07 C08 C09 C10 C11 C12 C13 C14 C15 C16 C17 C18 C19 C20}
git -C /repo apply /verif/refactors/$G/patch.diff || { echo "patch does not apply"; exit 2; }
git -C /repo diff --stat | tail -1
for c in $CHECKS; do
  (cd /verif && ./check $c --no-evidence 2>&1 | grep -v warp | grep -E "^C[0-9]+ |VIOLATION|UNDECIDED|ERROR|KNOWN" | head -12)
done
git -C /repo checkout -- .
