#!/usr/bin/env python3
"""Apply every kept behaviour-preserving refactoring set (refactors/<id>/patch.diff) in turn to a scratch worktree of /repo (HEAD), run ALL twenty quick checks against that tree
(LVC_REPO), undo, and record the outcome in refactors/RESULTS.md.  Any VIOLATION here is a false alarm of the machinery; undecided obligations are listed.  W workers (default 4),
one scratch worktree under /tmp each (removed at the end); /repo itself is never touched.  Developer tool, not a registered command."""
import os, re, shutil, subprocess, sys
from concurrent.futures import ThreadPoolExecutor
ROOT = os.path.dirname(os.path.dirname(os.path.abspath(__file__)))
# the checks run from a snapshot of /verif taken now (so the machinery can be edited while this runs); results are written to the real tree
SNAP = f"/tmp/lvc_snap_{os.getpid()}"
subprocess.run(["rsync", "-a", "--delete", "--exclude", ".git", "--exclude", "replays", "--exclude", ".venv", "--exclude", "seeded", "--exclude", "refactors", ROOT + "/", SNAP + "/"], check=True)
os.symlink(os.path.join(ROOT, ".venv"), os.path.join(SNAP, ".venv"))
ids = sorted(d for d in os.listdir(os.path.join(ROOT, "refactors")) if os.path.isdir(os.path.join(ROOT, "refactors", d)))
args = sys.argv[1:]
W = 4
if args and args[0].startswith("-j"):
    W = int(args.pop(0)[2:])
only = args
ids = [i for i in ids if not only or i in only]
CHECKS = os.environ.get("LVC_CHECKS", "").split() or [f"C{i:02d}" for i in range(1, 21)]      # LVC_CHECKS="C11 C13": partial re-run (RESULTS.md is then left alone)


def one(wt, rp, rid):
    patch = os.path.join(ROOT, "refactors", rid, "patch.diff")
    if subprocess.run(["git", "-C", wt, "apply", patch]).returncode != 0:
        return (rid, "PATCH DOES NOT APPLY", "", "")
    viol, undec, total, disc = [], [], 0, 0
    env = {**os.environ, "JAX_PLATFORMS": "cpu", "LVC_REPO": wt, "LVC_REPLAY_DIR": rp}
    try:
        for c in CHECKS:
            r = subprocess.run([os.path.join(SNAP, "check"), c, "--no-evidence", "--jobs", "6"], capture_output=True, text=True, cwd=SNAP, timeout=3600, env=env)
            viol += [f"{c}:{m}" for m in re.findall(r"VIOLATION property=\S+ replay=\S*/([^/\s]+)\.json", r.stdout)]
            undec += [f"{c}:{m.strip()[:90]}" for m in re.findall(r"UNDECIDED ([^\n]*)", r.stdout)]
            m = re.search(r"obligations=(\d+) discharged=(\d+)", r.stdout)
            if m:
                total += int(m.group(1)); disc += int(m.group(2))
            if r.returncode == 3:
                viol.append(f"{c}:CHECKER-ERROR")
    finally:
        subprocess.run(["git", "-C", wt, "checkout", "--", "."], check=True)
    row = (rid, "silent" if not viol else "FALSE ALARM", f"{disc}/{total} obligations discharged", "; ".join(viol + ["undecided " + u for u in undec]) or "-")
    print(row, flush=True)
    return row


def worker(w, mine):
    wt, rp = f"/tmp/lvc_ref_wt{w}", f"/tmp/lvc_ref_rp{w}"
    subprocess.run(["git", "-C", "/repo", "worktree", "remove", "--force", wt], capture_output=True)
    subprocess.run(["git", "-C", "/repo", "worktree", "add", "--detach", wt, "HEAD"], check=True, capture_output=True)
    try:
        return [one(wt, rp, rid) for rid in mine]
    finally:
        subprocess.run(["git", "-C", "/repo", "worktree", "remove", "--force", wt], capture_output=True)
        shutil.rmtree(rp, ignore_errors=True)


parts = [ids[w::W] for w in range(W)]
with ThreadPoolExecutor(W) as ex:
    rows = sorted(r for part in ex.map(worker, range(W), parts) for r in part)
if not only and not os.environ.get("LVC_CHECKS"):
    with open(os.path.join(ROOT, "refactors", "RESULTS.md"), "w") as f:
        f.write("| refactoring set | all 20 quick checks | obligations | violations / undecided |\n|---|---|---|---|\n")
        for row in rows:
            f.write("| " + " | ".join(row) + " |\n")
shutil.rmtree(SNAP, ignore_errors=True)
