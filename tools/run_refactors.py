#!/usr/bin/env python3
"""Apply every kept behaviour-preserving refactoring set (refactors/<id>/patch.diff) to /repo in turn, run ALL twenty quick checks, undo, and record the outcome in
refactors/RESULTS.md.  Any VIOLATION here is a false alarm of the machinery; undecided obligations are listed.  Developer tool, not a registered command."""
import os, re, subprocess, sys
ROOT = os.path.dirname(os.path.dirname(os.path.abspath(__file__)))
ids = sorted(d for d in os.listdir(os.path.join(ROOT, "refactors")) if os.path.isdir(os.path.join(ROOT, "refactors", d)))
only = sys.argv[1:]
CHECKS = [f"C{i:02d}" for i in range(1, 21)]
rows = []
for rid in ids:
    if only and rid not in only:
        continue
    patch = os.path.join(ROOT, "refactors", rid, "patch.diff")
    assert subprocess.run(["git", "-C", "/repo", "status", "--porcelain"], capture_output=True, text=True).stdout.strip() == "", "/repo not clean"
    if subprocess.run(["git", "-C", "/repo", "apply", patch]).returncode != 0:
        rows.append((rid, "PATCH DOES NOT APPLY", "", ""))
        continue
    viol, undec, total, disc = [], [], 0, 0
    try:
        for c in CHECKS:
            r = subprocess.run([os.path.join(ROOT, "check"), c, "--no-evidence"], capture_output=True, text=True, cwd=ROOT, timeout=3600)
            viol += [f"{c}:{m}" for m in re.findall(r"VIOLATION property=\S+ replay=\S*/([^/\s]+)\.json", r.stdout)]
            undec += [f"{c}:{m.strip()[:90]}" for m in re.findall(r"UNDECIDED ([^\n]*)", r.stdout)]
            m = re.search(r"obligations=(\d+) discharged=(\d+)", r.stdout)
            if m:
                total += int(m.group(1)); disc += int(m.group(2))
            if r.returncode == 3:
                viol.append(f"{c}:CHECKER-ERROR")
    finally:
        subprocess.run(["git", "-C", "/repo", "checkout", "--", "."], check=True)
    rows.append((rid, "silent" if not viol else "FALSE ALARM", f"{disc}/{total} obligations discharged", "; ".join(viol + ["undecided " + u for u in undec]) or "-"))
    print(rows[-1], flush=True)
with open(os.path.join(ROOT, "refactors", "RESULTS.md"), "w") as f:
    f.write("| refactoring set | all 20 quick checks | obligations | violations / undecided |\n|---|---|---|---|\n")
    for row in rows:
        f.write("| " + " | ".join(row) + " |\n")
