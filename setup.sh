#!/bin/sh
# Build the overlay venv /verif/.venv: /venv's packages (jax, equinox, lerax deps) + z3-solver + cvc5
# from the offline wheelhouse. Idempotent; everything comes from files on disk.
set -e
cd "$(dirname "$0")"
if [ -x .venv/bin/python ] && .venv/bin/python -c "import z3, jax" 2>/dev/null; then
    exit 0
fi
rm -rf .venv
/venv/bin/python -m venv --without-pip .venv
SP=$(.venv/bin/python -c "import sysconfig; print(sysconfig.get_paths()['purelib'])")
PYV=$(/venv/bin/python -c "import sys; print('python%d.%d' % sys.version_info[:2])")
echo "import site; site.addsitedir('/venv/lib/$PYV/site-packages')" > "$SP/_venv_overlay.pth"
PIP_NO_INDEX=1 /venv/bin/python -m pip --python .venv/bin/python install -q --no-index \
    --find-links /opt/veriftools/wheels z3-solver cvc5 >/dev/null
.venv/bin/python -c "import z3, cvc5, jax; print('verif venv ok: z3', z3.get_version_string(), 'jax', jax.__version__)"
