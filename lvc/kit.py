"""Helpers shared by contract modules."""
from __future__ import annotations

import itertools

import equinox as eqx
import jax
import jax.numpy as jnp
import numpy as np
import z3

from . import extract, ir, opaque
from .extract import run, sym, const, is_sarr
from .ir import SArr, Ctx, KeySort, sand, sor, snot, seq, site, simplies, sle, slt, sge, sgt, sadd, ssub, smul


def leaves(tree):
    return [l for l in jax.tree.leaves(tree, is_leaf=is_sarr) if is_sarr(l)]


def arr_eq(a: SArr, b: SArr, idx_prefix=None, ctx=None):
    """Element-wise equality of two SArrs.  Concrete shapes are expanded; symbolic leading extents are handled
    at fresh symbolic indices supplied through `fresh_index`."""
    assert len(a.shape) == len(b.shape), (a.shape, b.shape)
    conj = []
    if a.concrete() and b.concrete():
        if a.shape != b.shape:
            return False
        for i in a.indices():
            conj.append(seq(a.at(i), b.at(i)))
        return sand(*conj)
    raise ir.Unsupported(f"arr_eq on symbolic shapes {a.shape}; use arr_eq_at")


def arr_eq_at(a: SArr, b: SArr, lead):
    """equality of a[lead + rest] and b[lead + rest] for all concrete rest"""
    n = len(lead)
    rest_a, rest_b = a.shape[n:], b.shape[n:]
    assert all(isinstance(d, int) for d in rest_a), a.shape
    if tuple(rest_a) != tuple(rest_b):
        return False
    conj = []
    for r in itertools.product(*[range(d) for d in rest_a]):
        conj.append(seq(a.at(tuple(lead) + r), b.at(tuple(lead) + r)))
    return sand(*conj)


def tree_eq(t1, t2, lead=()):
    l1, l2 = leaves(t1), leaves(t2)
    if len(l1) != len(l2):
        return False
    return sand(*[arr_eq_at(a, b, lead) for a, b in zip(l1, l2)])


def tree_eq_named(t1, t2, lead=()):
    """[(path, formula)] per leaf"""
    p1 = jax.tree_util.tree_flatten_with_path(t1, is_leaf=is_sarr)[0]
    p2 = jax.tree_util.tree_flatten_with_path(t2, is_leaf=is_sarr)[0]
    p1 = [(p, l) for p, l in p1 if is_sarr(l)]
    p2 = [(p, l) for p, l in p2 if is_sarr(l)]
    out = []
    if len(p1) != len(p2):
        return [("structure", False)]
    for (pa, a), (pb, b) in zip(p1, p2):
        out.append((jax.tree_util.keystr(pa), arr_eq_at(a, b, lead)))
    return out


def key_input(name):
    c = z3.Const(name, KeySort)
    a = SArr((), "k", lambda idx: c, jax.random.key(0).dtype)
    return extract.with_jshape(a, (), jax.random.key(0).dtype), c


def key_struct():
    return jax.ShapeDtypeStruct((), jax.random.key(0).dtype)


def holes_for(ctx, spec_names, input_key):
    """Create one key hole per (label, collaborator name); candidates are the key operands at the call sites of
    that collaborator in the program translated so far (must be called BEFORE the spec is translated), restricted to
    keys derived from `input_key`."""
    from .vc import key_candidates
    sarrs, holes = {}, {}
    for label, base in spec_names.items():
        a, c = key_input(f"hole_{label}")
        sarrs[label] = a
        holes[c] = key_candidates(ctx, base, input_key)
    return sarrs, holes


def int_scalar(name):
    c = z3.Int(name)
    a = SArr((), "i", lambda idx: c, jnp.int32)
    return extract.with_jshape(a, (), jnp.int32), c


def real_scalar(name):
    c = z3.Real(name)
    a = SArr((), "f", lambda idx: c, jnp.float32)
    return extract.with_jshape(a, (), jnp.float32), c


def bool_scalar(name):
    c = z3.Bool(name)
    a = SArr((), "b", lambda idx: c, jnp.bool_)
    return extract.with_jshape(a, (), jnp.bool_), c


# ----------------------------------------------------------------------------------------------
# native replay helpers
# ----------------------------------------------------------------------------------------------

def concrete_like(tree, rng, scale=1.0):
    """random concrete arrays shaped like the array / SDS leaves of tree"""
    def conv(x):
        if isinstance(x, jax.ShapeDtypeStruct) or eqx.is_array(x):
            if jax.dtypes.issubdtype(x.dtype, jax.dtypes.prng_key):
                return jax.random.key(int(rng.randint(0, 2**31 - 1)))
            if jnp.issubdtype(x.dtype, jnp.floating):
                return jnp.asarray(rng.uniform(-scale, scale, size=x.shape), x.dtype)
            if jnp.issubdtype(x.dtype, jnp.integer):
                return jnp.asarray(rng.randint(0, 4, size=x.shape), x.dtype)
            if jnp.issubdtype(x.dtype, jnp.bool_):
                return jnp.asarray(rng.rand(*x.shape) > 0.5)
        return x
    return jax.tree.map(conv, tree, is_leaf=lambda x: isinstance(x, jax.ShapeDtypeStruct))


def trees_close(a, b, tol=1e-5):
    la, lb = jax.tree.leaves(a), jax.tree.leaves(b)
    if len(la) != len(lb):
        return False
    for x, y in zip(la, lb):
        x, y = np.asarray(x), np.asarray(y)
        if x.shape != y.shape:
            return False
        if x.dtype.kind == "f":
            if not np.allclose(x, y, rtol=tol, atol=tol, equal_nan=True):
                return False
        else:
            if jax.dtypes.issubdtype(x.dtype, jax.dtypes.prng_key):
                continue
            if not np.array_equal(x, y):
                return False
    return True


def native_search(check, make_inputs, bool_names=(), trials=6, seed=0, ignore_keys=True):
    """Replay helper: run `check(*inputs) -> (ok: bool, observed: dict)` natively on concrete inputs with
    pseudo-random collaborators, enumerating forced values for the boolean collaborators in `bool_names`
    (e.g. terminal/truncate flags).  Returns a replay-result dict."""
    rng = np.random.RandomState(seed)
    combos = list(itertools.product([False, True], repeat=len(bool_names))) or [()]
    old_ov = dict(opaque.OVERRIDES)
    old_ik = opaque.IGNORE_KEYS
    opaque.IGNORE_KEYS = ignore_keys
    try:
        for combo in combos:
            opaque.OVERRIDES.clear()
            opaque.OVERRIDES.update(old_ov)
            for n, v in zip(bool_names, combo):
                opaque.OVERRIDES[n] = [np.asarray(v)]
            for t in range(trials):
                inputs = make_inputs(rng)
                with jax.disable_jit():
                    ok, observed = check(*inputs)
                if not ok:
                    return dict(reproduced=True, route="R1 (real function run eagerly; collaborators = deterministic "
                                "pseudo-random functions of their non-key arguments)",
                                forced_flags=dict(zip(bool_names, [bool(c) for c in combo])),
                                inputs=jax.tree.map(lambda x: np.asarray(jax.random.key_data(x) if jax.dtypes.issubdtype(getattr(x, 'dtype', np.float32), jax.dtypes.prng_key) else x).tolist() if hasattr(x, "shape") else x, _arrays_only(inputs)),
                                observed=observed)
        return dict(reproduced=False, note=f"{len(combos) * trials} native trials did not reproduce the solver's counter-model")
    finally:
        opaque.OVERRIDES.clear()
        opaque.OVERRIDES.update(old_ov)
        opaque.IGNORE_KEYS = old_ik


def _arrays_only(tree):
    return [l for l in jax.tree.leaves(tree) if eqx.is_array(l)]


def tolist(x):
    return jax.tree.map(lambda v: np.asarray(v).tolist() if hasattr(v, "shape") and not jax.dtypes.issubdtype(v.dtype, jax.dtypes.prng_key) else "<key>", x)


def uf_names_of(arrs, ctx):
    """names of all uninterpreted functions a list of SArr leaves depends on, looking through reduction symbols into their bodies"""
    from . import ir
    import z3
    red = {r.sym.get_id(): r for r in ctx.reductions}
    names, seen, stack = set(), set(), []
    for l in arrs:
        idx = tuple(z3.Int(f"u{k}") if not isinstance(dd, int) else None for k, dd in enumerate(l.shape))
        if all(isinstance(dd, int) for dd in l.shape):
            for ix in l.indices():
                t = l.at(ix)
                if ir.is_z3(t):
                    stack.append(t)
        else:
            t = l.at(tuple(z3.Int(f"u{k}") if not isinstance(dd, int) else 0 for k, dd in enumerate(l.shape)))
            if ir.is_z3(t):
                stack.append(t)
    jj = z3.Int("ufn!j")
    while stack:
        t = stack.pop()
        i = t.get_id()
        if i in seen:
            continue
        seen.add(i)
        if i in red:
            bt = red[i].body(jj)
            red.update({r.sym.get_id(): r for r in ctx.reductions})
            if ir.is_z3(bt):
                stack.append(bt)
            continue
        if z3.is_app(t) and t.decl().kind() == z3.Z3_OP_UNINTERPRETED and t.num_args() > 0:
            names.add(t.decl().name())
        stack.extend(t.children())
    return names




def lane_eq(batched: SArr, single: SArr, lane):
    """batched[lane, ...] == single[...] for every (concrete) trailing index"""
    rest = batched.shape[1:]
    if tuple(rest) != tuple(single.shape):
        return False
    return sand(*[seq(batched.at((lane,) + r), single.at(r)) for r in itertools.product(*[range(d) for d in rest])])


def model_float(model, name, default=0.0):
    """numeric value of the z3 constant `name` in a counter-model (default when the model leaves it unconstrained)"""
    if model is None:
        return default
    for d in model.decls():
        if d.arity() == 0 and d.name() == name:
            v = model[d]
            try:
                if z3.is_rational_value(v) or z3.is_int_value(v):
                    return float(v.as_fraction())
                if z3.is_algebraic_value(v):
                    return float(v.approx(10).as_fraction())
            except Exception:
                return default
    return default


def key_subterms(arrs, must_contain=(), index=None, limit=8):
    """Key-sort subterms of the given symbolic leaves (evaluated at `index` on their leading axis when given) that contain every constant in `must_contain`,
    smallest first: candidates for 'the key this lane was computed from'."""
    from . import ir
    import z3
    from .vc import term_contains
    roots = []
    for l in arrs:
        rest = tuple(z3.Int(f"ks!{j}") if not isinstance(d, int) else 0 for j, d in enumerate(l.shape[1:])) if index is not None else None
        try:
            t = l.at((index,) + rest) if index is not None else l.at(tuple(0 if isinstance(d, int) else z3.Int(f"ks!{j}") for j, d in enumerate(l.shape)))
        except Exception:
            continue
        if ir.is_z3(t):
            roots.append(t)
    found, seen, stack = {}, set(), list(roots)
    while stack:
        t = stack.pop()
        if t.get_id() in seen:
            continue
        seen.add(t.get_id())
        if t.sort() == ir.KeySort and z3.is_app(t) and t.num_args() > 0 and all(term_contains(t, c) for c in must_contain):
            found[t.get_id()] = t
        stack.extend(t.children())

    def size(t):
        n, st, sn = 0, [t], set()
        while st:
            x = st.pop()
            if x.get_id() in sn:
                continue
            sn.add(x.get_id())
            n += 1
            st.extend(x.children())
        return n
    return sorted(found.values(), key=size)[:limit]


def rng_index_injective(ctx):
    """A-RNG: keys derived from one key with different indices are different keys (split / fold_in are injective in the index)"""
    from . import ir
    import z3
    kk, n_, a, b = z3.Const("inj!k", ir.KeySort), z3.Int("inj!n"), z3.Int("inj!a"), z3.Int("inj!b")
    sp = ctx.uf("split", [ir.KeySort, z3.IntSort(), z3.IntSort()], ir.KeySort)
    fi = ctx.uf("fold_in", [ir.KeySort, z3.IntSort()], ir.KeySort)
    return [z3.ForAll([kk, n_, a, b], z3.Implies(a != b, sp(kk, n_, a) != sp(kk, n_, b))), z3.ForAll([kk, a, b], z3.Implies(a != b, fi(kk, a) != fi(kk, b)))]


def rng_ground_injectivity(terms):
    """Ground instances of A-RNG index-injectivity for the given key terms: two applications of split (fold_in) to the same key (and count) with different indices are different
    keys.  Cheaper for the solver than the quantified axioms of rng_index_injective; sub-terms are included."""
    import z3
    apps, seen, stack = [], set(), [t for t in terms if t is not None]
    while stack:
        t = stack.pop()
        if not z3.is_expr(t) or t.get_id() in seen:
            continue
        seen.add(t.get_id())
        if z3.is_app(t) and t.num_args() > 0 and t.decl().name() in ("split", "fold_in"):
            apps.append(t)
        stack.extend(t.children())
    out = []
    for a in range(len(apps)):
        for b in range(a + 1, len(apps)):
            t1, t2 = apps[a], apps[b]
            if t1.decl().name() != t2.decl().name():
                continue
            if t1.decl().name() == "split" and t1.arg(0).eq(t2.arg(0)) and t1.arg(1).eq(t2.arg(1)):
                out.append(z3.Implies(t1.arg(2) != t2.arg(2), t1 != t2))
            if t1.decl().name() == "fold_in" and t1.arg(0).eq(t2.arg(0)):
                out.append(z3.Implies(t1.arg(1) != t2.arg(1), t1 != t2))
    return out
