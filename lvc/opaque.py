"""The `opaque` JAX primitive: an uninterpreted function inside a traced program.

`ocall(name, out_struct, *args)` binds one equation `opaque[name=...]` whose operands are the flattened
array leaves of `args` and whose results have the avals given by `out_struct` (a pytree of
jax.ShapeDtypeStruct).  In a verification condition the equation is an uninterpreted function of its
operands (lvc.ir).  Natively (replay) it evaluates to a deterministic pseudo-random function of
(name, operands) unless OVERRIDES pins its outputs (values read off a solver counter-model).

Rules: abstract evaluation (result avals), batching (vmap => pointwise application, recorded in `levels`),
reverse-mode differentiation (`dcall`: jax.custom_vjp whose backward pass is the opaque call `vjp:<name>`),
impl + lowering (native replay).
"""
from __future__ import annotations

import zlib

import jax
import jax.numpy as jnp
import numpy as np
from jax.extend import core as jex_core
from jax.interpreters import batching, mlir

opaque_p = jex_core.Primitive("opaque")
opaque_p.multiple_results = True

# name -> list of numpy arrays (one per output) used instead of the pseudo-random default at native replay
OVERRIDES: dict[str, list] = {}
# name -> python callable(*operands) -> list of outputs; takes precedence over OVERRIDES
NATIVE_IMPLS: dict[str, object] = {}
# native replay: collaborators ignore their key operands (deterministic environments / policies)
IGNORE_KEYS = False


def _is_key(dtype):
    return jax.dtypes.issubdtype(dtype, jax.dtypes.prng_key)


def _abstract(*avals, name, out_avals, levels, meta):
    return [jax.core.ShapedArray(s, d) for (s, d) in out_avals]


opaque_p.def_abstract_eval(_abstract)


def _pseudo(name, out_avals, meta, *args):
    """Deterministic pseudo-random outputs as a jnp function of the operands."""
    if name in NATIVE_IMPLS:
        return list(NATIVE_IMPLS[name](*args))
    seed = zlib.crc32(name.encode()) & 0x7FFFFFFF
    rng = np.random.RandomState(seed)
    acc = jnp.float32(rng.uniform(-1, 1))
    kacc = None
    for a in args:
        if _is_key(a.dtype):
            if IGNORE_KEYS:
                continue
            kd = jax.random.key_data(a).astype(jnp.float32).reshape(-1)
            w = rng.uniform(-1, 1, size=kd.shape).astype(np.float32)
            acc = acc + jnp.sum(jnp.sin(kd * 1e-3) * w)
            kacc = a if kacc is None else kacc
        else:
            x = jnp.asarray(a).astype(jnp.float32).reshape(-1)
            w = rng.uniform(-2, 2, size=x.shape).astype(np.float32)
            acc = acc + jnp.sum(x * w)
    outs = []
    over = OVERRIDES.get(name)
    for j, (shape, dtype) in enumerate(out_avals):
        if over is not None and over[j] is not None:
            outs.append(jnp.broadcast_to(jnp.asarray(over[j]).astype(dtype), shape))
            continue
        n = int(np.prod(shape)) if len(shape) else 1
        ph = rng.uniform(0, 6.28, size=n).astype(np.float32).reshape(shape)
        fr = rng.uniform(0.5, 3.0, size=n).astype(np.float32).reshape(shape)
        base = jnp.sin(acc * fr + ph)  # in [-1, 1]
        m = (meta or {}).get(j, None) if isinstance(meta, dict) else None
        if _is_key(dtype):
            k0 = jax.random.key(seed)
            bits = (base * 1e6).astype(jnp.int32).reshape(-1)
            ks = jax.vmap(lambda b: jax.random.fold_in(k0, b))(bits)
            outs.append(ks.reshape(shape))
        elif jnp.issubdtype(dtype, jnp.bool_):
            outs.append(base > 0.3)
        elif jnp.issubdtype(dtype, jnp.integer):
            hi = m if m is not None else 3
            outs.append(jnp.clip(((base + 1) * 0.5 * hi).astype(dtype), 0, hi - 1))
        else:
            outs.append((base * 2.0).astype(dtype))
    return outs


def _impl(*args, name, out_avals, levels, meta):
    # peel vmap levels: evaluate pointwise with jax.vmap over the recorded batched-operand masks
    def core(*a):
        return _pseudo(name, _core_out_avals(out_avals, len(levels)), dict(meta), *a)

    f = core
    for mask in levels:  # levels[0] = innermost vmap
        in_axes = tuple(0 if b else None for b in mask)
        f = jax.vmap(f, in_axes=in_axes, out_axes=0)
    return f(*args)


def _core_out_avals(out_avals, nlevels):
    return tuple((tuple(s[nlevels:]), d) for (s, d) in out_avals)


opaque_p.def_impl(_impl)
mlir.register_lowering(opaque_p, mlir.lower_fun(_impl, multiple_results=True))


def _batch(args, dims, *, name, out_avals, levels, meta):
    size = None
    moved = []
    mask = []
    for a, d in zip(args, dims):
        if d is None:
            moved.append(a)
            mask.append(False)
        else:
            size = a.shape[d]
            moved.append(jnp.moveaxis(a, d, 0))
            mask.append(True)
    new_out = tuple(((size,) + tuple(s), dt) for (s, dt) in out_avals)
    outs = opaque_p.bind(*moved, name=name, out_avals=new_out, levels=levels + (tuple(mask),), meta=meta)
    return outs, [0] * len(outs)


batching.primitive_batchers[opaque_p] = _batch


def _flat_avals(struct):
    leaves, tree = jax.tree.flatten(struct)
    return tuple((tuple(l.shape), l.dtype) for l in leaves), tree


def ocall(name: str, out_struct, *args, meta=None):
    """Uninterpreted call: returns a pytree shaped like out_struct."""
    flat_args = [jnp.asarray(a) if not hasattr(a, "dtype") else a for a in jax.tree.leaves(args)]
    out_avals, tree = _flat_avals(out_struct)
    outs = opaque_p.bind(*flat_args, name=name, out_avals=out_avals, levels=(), meta=tuple(sorted((meta or {}).items())))
    return jax.tree.unflatten(tree, outs)


def dcall(name: str, out_struct, *args, meta=None):
    """Differentiable uninterpreted call (reverse mode): backward pass is `vjp:<name>`(operands, cotangents)
    returning one cotangent per inexact operand."""
    flat_args, in_tree = jax.tree.flatten(args)
    flat_args = [jnp.asarray(a) for a in flat_args]
    diff_idx = [i for i, a in enumerate(flat_args) if jnp.issubdtype(a.dtype, jnp.inexact)]
    nondiff = [a for i, a in enumerate(flat_args) if i not in diff_idx]
    nd_idx = [i for i in range(len(flat_args)) if i not in diff_idx]

    def assemble(diff_vals, nd_vals):
        full = [None] * len(flat_args)
        for i, v in zip(diff_idx, diff_vals):
            full[i] = v
        for i, v in zip(nd_idx, nd_vals):
            full[i] = v
        return full

    @jax.custom_vjp
    def f(diff_vals, nd_vals):
        return ocall(name, out_struct, *assemble(diff_vals, nd_vals), meta=meta)

    def fwd(diff_vals, nd_vals):
        return f(diff_vals, nd_vals), (diff_vals, nd_vals)

    def bwd(res, ct):
        diff_vals, nd_vals = res
        ct_leaves = [c for c in jax.tree.leaves(ct) if jnp.issubdtype(jnp.asarray(c).dtype, jnp.inexact)]
        struct = [jax.ShapeDtypeStruct(v.shape, v.dtype) for v in diff_vals]
        grads = ocall("vjp:" + name, struct, *assemble(diff_vals, nd_vals), *ct_leaves)
        nd_ct = [np.zeros(v.shape, jax.dtypes.float0) if not jnp.issubdtype(v.dtype, jnp.inexact) else None for v in nd_vals]
        return (list(grads), nd_ct)

    f.defvjp(fwd, bwd)
    return f([flat_args[i] for i in diff_idx], nondiff)
