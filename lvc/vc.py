"""Verification-condition discharge: z3 (API) first, cvc5 (SMT-LIB, CLI-free python binding) as second back end.

Verdict per obligation: discharged (unsat) / failed (sat, counter-model kept) / undecided (unknown, timeout,
unsupported primitive) / error.  Only `sat` ever becomes a violation.
"""
from __future__ import annotations

import itertools
import os
import time
import traceback

import z3
from fractions import Fraction

from . import ir

QUICK_TIMEOUT_MS = 20_000
THOROUGH_TIMEOUT_MS = 120_000


def tier_timeout(tier):
    return THOROUGH_TIMEOUT_MS if tier == "thorough" else QUICK_TIMEOUT_MS


def term_contains(t, c):
    """does z3 term t contain subterm c?"""
    seen = set()
    stack = [t]
    cid = c.get_id()
    while stack:
        x = stack.pop()
        i = x.get_id()
        if i == cid:
            return True
        if i in seen:
            continue
        seen.add(i)
        stack.extend(x.children())
    return False


def model_summary(m, limit=60):
    out = {}
    if m is None:
        return out
    for d in m.decls()[:400]:
        try:
            if d.arity() == 0:
                out[d.name()] = str(m[d])
            else:
                s = str(m[d])
                out[d.name()] = s if len(s) < 300 else s[:300] + "..."
        except Exception:
            pass
        if len(out) >= limit:
            break
    return out


def _solve_z3(formulas, timeout_ms):
    s = z3.Solver()
    s.set("timeout", int(timeout_ms))
    for f in formulas:
        s.add(f)
    t0 = time.time()
    r = s.check()
    dt = time.time() - t0
    if r == z3.sat:
        return "sat", s.model(), dt, s
    if r == z3.unsat:
        return "unsat", None, dt, s
    return "unknown:" + s.reason_unknown(), None, dt, s


_CVC5_RESERVED = {"sin", "cos", "tan", "csc", "sec", "cot", "arcsin", "arccos", "arctan", "arccsc", "arcsec", "arccot", "exp", "sqrt", "abs", "pi", "log", "pow",
                  "floor", "ceil", "sign", "tanh", "max", "min", "round", "erf"}


def _solve_cvc5(formulas, timeout_ms):
    """Re-check through SMT-LIB text with the cvc5 python binding (independent back end)."""
    try:
        import cvc5
    except Exception as e:  # pragma: no cover
        return "unknown:no-cvc5", None, 0.0
    s = z3.Solver()
    for f in formulas:
        s.add(f)
    text = s.to_smt2()
    logic = "ALL"
    t0 = time.time()
    try:
        slv = cvc5.Solver()
        slv.setOption("tlimit-per", str(int(timeout_ms)))
        slv.setOption("produce-models", "false")
        ip = cvc5.InputParser(slv)
        body = "\n".join(l for l in text.replace("(check-sat)", "").splitlines() if not l.startswith("(set-logic") and not l.startswith("(set-info"))
        import re
        # uninterpreted functions whose names collide with cvc5 theory symbols (sin, cos, exp, ...) are renamed; they stay uninterpreted
        for nm in set(re.findall(r"\(declare-fun ([A-Za-z_]+) ", body)) & _CVC5_RESERVED:
            body = re.sub(r"(?<![A-Za-z0-9_!.#|])" + nm + r"(?![A-Za-z0-9_!.#|])", "uf_" + nm, body)
        ip.setStringInput(cvc5.InputLanguage.SMT_LIB_2_6, "(set-logic ALL)\n" + body, "vc")
        sm = ip.getSymbolManager()
        while True:
            cmd = ip.nextCommand()
            if cmd.isNull():
                break
            cmd.invoke(slv, sm)
        r = slv.checkSat()
        dt = time.time() - t0
        if r.isUnsat():
            return "unsat", None, dt
        if r.isSat():
            return "sat", None, dt
        return "unknown:cvc5", None, dt
    except Exception as e:
        return f"unknown:cvc5-error:{type(e).__name__}:{str(e)[:80]}", None, time.time() - t0


def _mentions_ufs(t, names):
    if not names:
        return False
    seen, stack = set(), [t]
    while stack:
        x = stack.pop()
        if x.get_id() in seen:
            continue
        seen.add(x.get_id())
        if z3.is_app(x) and x.decl().name() in names:
            return True
        stack.extend(x.children())
    return False


def _conjuncts(g):
    out, stack = [], [g]
    while stack:
        t = stack.pop()
        if z3.is_and(t):
            stack.extend(reversed(t.children()))
        else:
            out.append(t)
    return out


def _finite_cases(formulas, max_vals=8):
    """(x, [values]) for the first hypothesis of the form Or(x == c1, ..., x == cn) with x an integer constant and ci numerals"""
    for f in formulas:
        if not z3.is_or(f):
            continue
        x, vals = None, []
        for d in f.children():
            if not (z3.is_eq(d) and d.num_args() == 2):
                break
            a, c = d.arg(0), d.arg(1)
            if z3.is_int_value(a):
                a, c = c, a
            if not (z3.is_const(a) and a.decl().kind() == z3.Z3_OP_UNINTERPRETED and z3.is_int(a) and z3.is_int_value(c)) or (x is not None and not a.eq(x)):
                break
            x = a
            vals.append(c)
        else:
            if x is not None and 1 < len(vals) <= max_vals:
                return x, vals
    return None


import re as _re
_SHAPE_ID = _re.compile(r"(^one-|-one-|one_|-once|^calls-|^body-|epoch-loop|forward-loop|same-structure|^reset-once|exactly-one|one-scan|one-while|one-sum|one-train|one-update|one-choice|one-draw|one-ordered)")


class ObResult(dict):
    pass


_MUL = z3.Function("nl!mul", z3.RealSort(), z3.RealSort(), z3.RealSort())
_DIV = z3.Function("nl!div", z3.RealSort(), z3.RealSort(), z3.RealSort())


def abstract_nonlinear(formulas):
    """Replace products / quotients of non-constant reals by applications of uninterpreted functions (arguments ordered, so
    commutativity is kept).  Every model of real arithmetic is a model of the abstraction, hence `unsat` of the abstraction
    proves `unsat` of the original; `sat` of the abstraction means nothing (treated as unknown by the caller)."""
    memo = {}

    def is_num(t):
        return z3.is_rational_value(t) or z3.is_int_value(t) or z3.is_algebraic_value(t)

    def rw(t):
        i = t.get_id()
        if i in memo:
            return memo[i]
        if z3.is_quantifier(t) or not z3.is_app(t):
            memo[i] = t
            return t
        ch = [rw(c) for c in t.children()]
        k = t.decl().kind()
        out = None
        if k == z3.Z3_OP_MUL and z3.is_real(t):
            nums = [c for c in ch if is_num(c)]
            rest = sorted([c for c in ch if not is_num(c)], key=lambda c: c.get_id())
            if len(rest) >= 2:
                acc = rest[0]
                for c in rest[1:]:
                    acc = _MUL(acc, c)
                out = acc
                for n in nums:
                    out = n * out
        elif k == z3.Z3_OP_DIV and z3.is_real(t) and not is_num(ch[1]):
            out = _DIV(ch[0], ch[1])
        if out is None:
            out = t.decl()(*ch) if ch else t
        memo[i] = out
        return out
    _x, _y = z3.Reals("nl!x nl!y")
    comm = z3.ForAll([_x, _y], _MUL(_x, _y) == _MUL(_y, _x))
    return [rw(f) for f in formulas] + [comm]


def close_reductions(ctx, base, timeout_ms=5000, max_rounds=4):
    """Congruence for reductions over symbolic extents.  A reduction is an uninterpreted constant plus (kind, extent, body).
    Lemmas added (each justified by a discharged side query at fresh indices):
      * same kind, equal extents, point-wise equal bodies  =>  equal reductions;
      * sum whose body does not depend on the index (body(j1) == body(j2))  =>  sum == extent * body;
      * sum of non-negative terms is non-negative.
    Returns the list of lemma formulas (possibly creating further reduction records while evaluating bodies)."""
    # incremental across the obligations of one unit: lemmas are consequences of (ctx.assumptions, base) only, so they are reusable for the same base
    cache = ctx.__dict__.setdefault("_red_cache", {})
    ck = (tuple(ir.zbool(h).get_id() for h in base), len(ctx.assumptions))
    lemmas, done_pairs, done_const = cache.setdefault(ck, ([], set(), set()))
    for _ in range(max_rounds):
        changed = False
        reds = list(ctx.reductions)
        j1, j2 = z3.Int("red!j1"), z3.Int("red!j2")
        for r in reds:
            if r.rid in done_const or r.kind != "sum":
                continue
            done_const.add(r.rid)
            ext = ir.zint(r.extent)
            b1, b2 = r.body(j1), r.body(j2)
            rng = [j1 >= 0, j1 < ext, j2 >= 0, j2 < ext]
            cur = list(ctx.assumptions) + base + lemmas
            if ir.is_const(b1) or _valid(cur + rng, ir.seq(b1, b2), timeout_ms):
                lemmas.append(z3.Implies(ext >= 1, ir.zreal(r.sym) == z3.ToReal(ext) * ir.zreal(z3.substitute(ir.zreal(b1), (j1, z3.IntVal(0))) if ir.is_z3(b1) else b1)))
                changed = True
            if _valid(cur + rng[:2], ir.sge(b1, 0), timeout_ms):
                lemmas.append(ir.zreal(r.sym) >= 0)
            changed = changed or len(ctx.reductions) != len(reds)
        reds = list(ctx.reductions)
        for a in reds:
            for b in reds:
                if a.rid >= b.rid or a.kind != b.kind or (a.rid, b.rid) in done_pairs or (a.rid, b.rid, "f", len(lemmas)) in done_pairs:
                    continue
                ea, eb = ir.zint(a.extent), ir.zint(b.extent)
                cur = list(ctx.assumptions) + base + lemmas
                if not (ea.eq(eb) or _valid(cur, ea == eb, timeout_ms)):
                    done_pairs.add((a.rid, b.rid))
                    continue
                ba, bb = a.body(j1), b.body(j1)
                hy = list(ctx.assumptions) + base + lemmas + [j1 >= 0, j1 < ea]
                n_lem = len(lemmas)
                done_pairs.add((a.rid, b.rid, "f", n_lem))  # not retried until a new lemma has been added
                if _valid(hy, ir.seq(ba, bb), timeout_ms):
                    lemmas.append(a.sym == b.sym)
                    done_pairs.add((a.rid, b.rid))
                    changed = True
                elif a.kind == "sum" and not z3.is_bool(ir.z_of(ba, "f")) and _valid(hy, ir.seq(ba, ir.sneg(bb)), timeout_ms):
                    lemmas.append(ir.zreal(a.sym) == -ir.zreal(b.sym))  # linearity: sum(-f) = -sum(f)
                    done_pairs.add((a.rid, b.rid))
                    changed = True
                elif a.kind == "sum" and not z3.is_bool(ir.z_of(ba, "f")) and (a.rid, b.rid, "s") not in done_pairs:
                    done_pairs.add((a.rid, b.rid, "s"))
                    # linearity with a numeric factor: sum(k*f) = k*sum(f); candidates k are the numerals occurring in either body
                    for k in _scale_candidates(ba, bb):
                        if _valid(hy, ir.zreal(ir.z_of(ba, "f")) == k * ir.zreal(ir.z_of(bb, "f")), min(timeout_ms, 2000)):
                            lemmas.append(ir.zreal(a.sym) == k * ir.zreal(b.sym))
                            done_pairs.add((a.rid, b.rid))
                            changed = True
                            break
        if not changed and len(ctx.reductions) == len(reds):
            break
    return list(lemmas)


def _numerals(t, out, limit=200):
    seen, stack = set(), [t]
    while stack and len(seen) < limit:
        x = stack.pop()
        if x.get_id() in seen:
            continue
        seen.add(x.get_id())
        if z3.is_rational_value(x) or z3.is_int_value(x):
            out.add(x.as_fraction() if z3.is_rational_value(x) else Fraction(x.as_long()))
        else:
            stack.extend(x.children())


def _scale_candidates(ba, bb, limit=6):
    na, nb = set(), set()
    if ir.is_z3(ba):
        _numerals(ba, na)
    if ir.is_z3(bb):
        _numerals(bb, nb)
    nums = na ^ nb  # a factor k relating the two bodies shows up as a numeral in one of them only
    ks = []
    for c in sorted(nums, key=lambda c: (abs(c.numerator) + abs(c.denominator), c)):
        if c in (0, 1, -1):
            continue
        for k in (c, 1 / c, -c, -1 / c):
            if k not in ks:
                ks.append(k)
    return [z3.RealVal(str(k)) for k in ks[:4 * limit]]


def _valid(hyps, goal, timeout_ms):
    if ir.is_const(goal):
        return bool(goal)
    st, _, _, _ = _solve_z3([ir.zbool(h) for h in hyps] + [z3.Not(goal), ir.INF_AXIOM], timeout_ms)
    return st == "unsat"


class Session:
    """Collects obligation results for one unit."""

    def __init__(self, prop, unit, tier, seed=0):
        self.prop, self.unit, self.tier, self.seed = prop, unit, tier, seed
        self.results = []
        self.functions = set()
        self.assumed = set()
        self.bounded = []
        self.samples = []
        self.notes = []
        self.timeout_ms = tier_timeout(tier)
        self.default_replay = None      # native replay route used by obligations of this unit that name none of their own

    # -- bookkeeping ---------------------------------------------------------------------------
    def under_contract(self, *fns):
        self.functions.update(fns)

    def assume_ids(self, *ids):
        self.assumed.update(ids)

    def note(self, s):
        self.notes.append(s)

    def _record(self, oid, status, **kw):
        r = ObResult(id=f"{self.unit}/{oid}", status=status, **kw)
        self.results.append(r)
        return r

    # -- proving ---------------------------------------------------------------------------------
    def prove(self, oid, ctx, goal, hyps=(), function=None, replay=None, what=None, holes=None, timeout_ms=None, nl_budget_ms=None, candidate_only=False):
        """Obligation: (definitional axioms of ctx /\\ hyps) => goal, for all values of the free symbols.
        holes: optional {z3 key constant: [candidate key terms]} — existential key holes (DESIGN 1.3)."""
        t0 = time.time()
        replay = replay or self.default_replay
        try:
            rec = self._prove(oid, ctx, goal, hyps, function, replay, what, holes, timeout_ms or self.timeout_ms, nl_budget_ms)
            if rec.get("status") == "undecided" and "timeout" in str(rec.get("reason")):
                # a timeout is not a verdict and often only load on the machine: one retry with three times the budget (also for the nonlinear-first budget)
                self.results.remove(rec)
                rec = self._prove(oid, ctx, goal, hyps, function, replay, what, holes, 3 * (timeout_ms or self.timeout_ms), (3 * nl_budget_ms) if nl_budget_ms else nl_budget_ms)
                rec["retried_after_timeout"] = True
            if candidate_only and rec.get("status") == "failed":
                # one side of the obligation is an ABSTRACTED library (uninterpreted law): a counter-model is only a candidate - a violation only if the native replay reproduces it
                rec["abstraction_incomplete"] = True
            return rec
        except ir.Unsupported as e:
            return self._record(oid, "undecided", reason=f"unsupported: {e}", function=function, seconds=time.time() - t0)

    def _prove(self, oid, ctx, goal, hyps, function, replay, what, holes, timeout_ms, nonlinear_first_budget_ms=None):
        t0 = time.time()
        goal = ir.zbool(goal)
        hyps = [ir.zbool(h) for h in hyps]
        red_lemmas = close_reductions(ctx, hyps) if ctx.reductions else []
        base = list(ctx.assumptions) + hyps + red_lemmas
        base.append(ir.INF_AXIOM)
        combos = [()]
        hole_list = []
        if holes:
            # only the holes that actually occur in this obligation matter
            hole_list = [(h, c) for h, c in holes.items() if term_contains(goal, h) or any(term_contains(x, h) for x in hyps)]
            combos = list(itertools.product(*[c for _, c in hole_list]))
            if not combos:
                return self._record(oid, "failed", function=function, what=what, backend="z3",
                                    reason="no candidate key for a key hole (no call of the collaborator found)",
                                    seconds=time.time() - t0, model={}, replay=replay)
        first_fail = None
        undecided = None
        for combo in combos[:64]:
            subst = [(h, c) for (h, _), c in zip(hole_list, combo)]
            g = z3.substitute(goal, *subst) if subst else goal
            b = [z3.substitute(f, *subst) for f in base] if subst else base
            backend = "z3-" + z3.get_version_string()
            st, model, dt = None, None, 0.0
            neg = b + [z3.Not(g)]
            nl = nonlinear_first_budget_ms
            budget = timeout_ms if not nl else min(timeout_ms, max(abs(nl), 5000))
            cases = _finite_cases(b) if nl else None

            def by_cases(solve_abstract_only):
                # finite case split on an integer constant constrained by a hypothesis Or(x == c1, ...): substitute each value
                x, vals = cases
                tot = 0.0
                for v in vals:
                    fs = [z3.simplify(z3.substitute(f, (x, v))) for f in neg]
                    stc, _, dtc, _ = _solve_z3(abstract_nonlinear(fs), min(budget, 3000) if solve_abstract_only else budget)
                    tot += dtc
                    if stc != "unsat" and not solve_abstract_only:
                        stc, _, dtc, _ = _solve_z3(fs, budget)
                        tot += dtc
                    if stc != "unsat":
                        return False, tot
                return True, tot
            if nl and nl < 0:
                # abstraction first (fast and stable for relational obligations whose two sides share their structure)
                st0, _, dt0, _ = _solve_z3(abstract_nonlinear(neg), timeout_ms)
                dt += dt0
                if st0 == "unsat":
                    st, backend = "unsat", backend + " (nonlinear products abstracted to uninterpreted functions)"
            if st is None and cases is not None:
                ok, dtc = by_cases(True)
                dt += dtc
                if ok:
                    st, backend = "unsat", backend + f" (case split on {cases[0]} over {len(cases[1])} values; nonlinear products abstracted)"
            if st is None:
                st, model, dt1, solver = _solve_z3(neg, timeout_ms if not nl else min(timeout_ms, abs(nl)))
                dt += dt1
            if st.startswith("unknown") and z3.is_and(g) and g.num_args() > 1:
                # conjunct splitting: each conjunct separately is a much smaller (nonlinear) refutation problem
                ok = True
                for cj in _conjuncts(g):
                    stc, _, dtc, _ = _solve_z3(b + [z3.Not(cj)], budget)
                    dt += dtc
                    if stc != "unsat":
                        ok = False
                        break
                if ok:
                    st, backend = "unsat", backend + " (goal split into conjuncts)"
            if st.startswith("unknown") and cases is not None:
                ok, dtc = by_cases(False)
                dt += dtc
                if ok:
                    st, backend = "unsat", backend + f" (case split on {cases[0]} over {len(cases[1])} values)"
            if st.startswith("unknown") and not (nl and nl < 0):
                st3, _, dt3, _ = _solve_z3(abstract_nonlinear(neg), timeout_ms)
                dt += dt3
                if st3 == "unsat":
                    st, backend = "unsat", backend + " (nonlinear products abstracted to uninterpreted functions)"
            if st.startswith("unknown"):
                st2, _, dt2 = _solve_cvc5(b + [z3.Not(g)], timeout_ms)
                if st2 == "unsat":
                    st, dt, backend = "unsat", dt + dt2, "cvc5(after z3 unknown)"
            if st == "unsat":
                # vacuity canary: the hypotheses alone must be satisfiable
                cst, _, cdt, _ = _solve_z3(b, min(timeout_ms, 3_000))
                canary = {"sat": "sat", "unsat": "UNSAT"}.get(cst, "unknown")
                if canary == "UNSAT":
                    return self._record(oid, "error", function=function, what=what, backend=backend,
                                        reason="vacuous: hypotheses unsatisfiable", seconds=time.time() - t0)
                rec = self._record(oid, "discharged", function=function, what=what, backend=backend,
                                   seconds=round(time.time() - t0, 3), solver_s=round(dt, 3), canary=canary, replay=replay,
                                   n_assumptions=len(b), holes=[str(c) for c in combo] or None, _hole_terms=list(combo))
                if self.tier == "thorough":
                    st2, _, dt2 = _solve_cvc5(b + [z3.Not(g)], min(timeout_ms, 15_000))
                    rec["cvc5_recheck"] = st2
                    rec["cvc5_s"] = round(dt2, 3)
                return rec
            if st == "sat" and first_fail is None:
                first_fail = (model, combo, dt, backend)
            if st.startswith("unknown") and undecided is None:
                undecided = st
        if first_fail is not None:
            model, combo, dt, backend = first_fail
            return self._record(oid, "failed", function=function, what=what, backend=backend,
                                seconds=round(time.time() - t0, 3), solver_s=round(dt, 3),
                                model=model_summary(model), _model=model, replay=replay,
                                holes=[str(c) for c in combo] or None,
                                abstraction_incomplete=any(term_contains(goal, r.sym) or any(term_contains(h, r.sym) for h in hyps) for r in ctx.reductions) or _mentions_ufs(goal, getattr(ctx, "abstract_ufs", ())))
        return self._record(oid, "undecided", function=function, what=what, reason=undecided,
                            seconds=round(time.time() - t0, 3))

    def cover(self, oid, ctx, formula, hyps=(), function=None, what=None):
        """Reachability / non-vacuity: the formula must be satisfiable together with the assumptions."""
        t0 = time.time()
        st, model, dt, _ = _solve_z3(list(ctx.assumptions) + [ir.zbool(h) for h in hyps] + [ir.zbool(formula), ir.INF_AXIOM],
                                     min(self.timeout_ms, 10_000))
        if st == "sat":
            return self._record(oid, "discharged", function=function, what=what or "cover (satisfiable)",
                                backend="z3-" + z3.get_version_string(), seconds=round(time.time() - t0, 3), kind="cover")
        if st == "unsat":
            return self._record(oid, "error", function=function, what=what, reason="cover unsatisfiable (vacuous contract)",
                                seconds=round(time.time() - t0, 3), kind="cover")
        return self._record(oid, "undecided", function=function, what=what, reason=st, kind="cover",
                            seconds=round(time.time() - t0, 3))

    def fact(self, oid, ok, function=None, what=None, detail=None, replay=None, kind="structural", shape=None):
        """A decided non-SMT obligation (dataflow / frame / structural / native evaluation).
        `shape` facts state the PROGRAM SHAPE a contract relies on (one scan, one call of a callee, one host callback ...): when one fails, the contract can no longer be stated in
        its present form - that is `undecided`, not a violation, unless the native replay route shows a behavioural difference.  By default ids that speak about counts of program
        constructs are shape facts."""
        replay = replay or self.default_replay
        if shape is None:
            shape = bool(_SHAPE_ID.search(oid.rsplit("/", 1)[-1]))
        rec = self._record(oid, "discharged" if ok else "failed", function=function, what=what,
                           backend=kind, detail=detail, replay=replay, seconds=0.0, model={} if not ok else None)
        if shape and not ok:
            rec["abstraction_incomplete"] = True
            rec["shape_fact"] = True
        return rec

    def undecided(self, oid, reason, function=None, what=None):
        return self._record(oid, "undecided", function=function, what=what, reason=reason, seconds=0.0)

    def bounded_check(self, oid, ok, bound, function=None, what=None, detail=None, replay=None):
        """A bounded stand-in: reported separately, never counted as proved."""
        self.bounded.append(dict(id=f"{self.unit}/{oid}", ok=bool(ok), bound=bound, function=function, what=what, detail=detail))
        if not ok:
            self._record(oid, "failed", function=function, what=what, backend="bounded-native", detail=detail,
                         replay=replay, seconds=0.0, model={})


def key_candidates(ctx, base_name, input_key=None, operand_pos=None):
    """Key-sort operand terms passed to calls of collaborator `base_name` in the translated program."""
    cands = []
    for call in ctx.calls:
        nm = call.name
        if nm != base_name:
            continue
        for p, a in enumerate(call.operands):
            if a.kind == "k" and a.shape == ():
                t = a.at(())
                if input_key is not None and not term_contains(t, input_key):
                    continue
                if not any(t.eq(c) for c in cands):
                    cands.append(t)
    return cands
