"""lvc - lerax verification conditions: contract-based deductive verification over extracted jaxprs."""
