"""Generic (uninterpreted) collaborators: subclasses of lerax's REAL abstract classes whose abstract
methods bind the `opaque` primitive.  Inherited concrete methods (AbstractEnvLike.step, wrapper methods,
algorithm step functions, ...) therefore run unmodified during extraction, and in the VC every abstract
method is an uninterpreted function of its explicit arguments (assumption A-PURE).
"""
from __future__ import annotations

from typing import ClassVar

import equinox as eqx
import jax
import jax.numpy as jnp
from jax import ShapeDtypeStruct as SDS

from lerax.callback import AbstractCallback, AbstractCallbackState, AbstractCallbackStepState
from lerax.env import AbstractEnv, AbstractEnvState
from lerax.policy import (
    AbstractActorCriticPolicy,
    AbstractPolicyState,
    AbstractQPolicy,
    AbstractSACPolicy,
)
from lerax.space import Box, Discrete

from .opaque import dcall, ocall

F = jnp.float32
I = jnp.int32
STATE_DIM = 2
OBS_DIM = 2


def f32(*shape):
    return SDS(tuple(shape), F)


class GState(AbstractEnvState):
    x: jax.Array


def action_struct(space):
    if isinstance(space, Box):
        return SDS(space.shape, F)
    if isinstance(space, Discrete):
        return SDS((), I)
    raise TypeError(space)


class GenericEnv(AbstractEnv):
    """Any environment: every component function is uninterpreted."""

    name: str = eqx.field(static=True)
    action_space: Box | Discrete
    observation_space: Box
    tag: str = eqx.field(static=True)
    masked: bool = eqx.field(static=True)

    def __init__(self, action_space=None, tag="env", masked=False, obs_dim=OBS_DIM, observation_space=None):
        self.name = "Generic-" + tag
        self.tag = tag
        self.action_space = action_space if action_space is not None else Box(-jnp.ones((2,)), jnp.ones((2,)))
        self.observation_space = (
            observation_space if observation_space is not None else Box(-jnp.inf, jnp.inf, (obs_dim,))
        )
        self.masked = masked

    def _n(self, m):
        return f"{self.tag}.{m}"

    def initial(self, *, key):
        return GState(ocall(self._n("initial"), f32(STATE_DIM), key))

    def action_mask(self, state, *, key):
        if self.masked and isinstance(self.action_space, Discrete):
            return ocall(self._n("action_mask"), SDS((self.action_space.n,), jnp.bool_), state, key)
        return None

    def transition(self, state, action, *, key):
        return GState(ocall(self._n("transition"), f32(STATE_DIM), state, action, key))

    def observation(self, state, *, key):
        return ocall(self._n("observation"), SDS(self.observation_space.shape, F), state, key)

    def reward(self, state, action, next_state, *, key):
        return ocall(self._n("reward"), f32(), state, action, next_state, key)

    def terminal(self, state, *, key):
        return ocall(self._n("terminal"), SDS((), jnp.bool_), state, key)

    def truncate(self, state):
        return ocall(self._n("truncate"), SDS((), jnp.bool_), state)

    def state_info(self, state):
        return {"info": ocall(self._n("state_info"), f32(), state)}

    def transition_info(self, state, action, next_state):
        return {"info": ocall(self._n("transition_info"), f32(), state, action, next_state)}

    def default_renderer(self):
        raise NotImplementedError

    def render(self, state, renderer):
        raise NotImplementedError


class _Static:
    """holder for a static (metadata) field whose value contains arrays: compared by identity and hashed by id, so that jax's comparison of static arguments (which evaluates
    `==` on metadata when two different objects meet in one process) never compares arrays"""
    def __init__(self, v):
        self.v = v

    def __eq__(self, other):
        return self is other

    def __hash__(self):
        return id(self)


class GenericInnerEnv(GenericEnv):
    """Any environment-LIKE object a wrapper may sit on (possibly itself a wrapper stack): as GenericEnv, but `unwrapped` is a DIFFERENT environment with different spaces
    and its own collaborators (tag 'decoy'), so that code reaching through `self.unwrapped` where `self.env` is meant becomes visible."""
    _decoy: "_Static" = eqx.field(static=True)

    def __init__(self, action_space=None, tag="env", masked=False, obs_dim=OBS_DIM, observation_space=None, decoy=None):
        super().__init__(action_space, tag, masked, obs_dim, observation_space)
        self._decoy = _Static(decoy if decoy is not None else GenericEnv(Box(-jnp.ones((5,)), jnp.ones((5,))), tag="decoy", observation_space=Box(-jnp.inf, jnp.inf, (7,))))

    @property
    def decoy(self):
        return self._decoy.v

    @property
    def unwrapped(self):
        return self._decoy.v


class GPState(AbstractPolicyState):
    h: jax.Array


PS_DIM = 1


class GenericActorCriticPolicy(AbstractActorCriticPolicy):
    """Any stateful actor-critic policy with parameters theta."""

    name: ClassVar[str] = "GenericAC"
    action_space: Box | Discrete
    observation_space: Box
    theta: jax.Array
    tag: str = eqx.field(static=True)

    def __init__(self, action_space, observation_space, tag="pi", theta=None):
        self.action_space = action_space
        self.observation_space = observation_space
        self.theta = jnp.zeros((2,), F) if theta is None else theta
        self.tag = tag

    def _n(self, m):
        return f"{self.tag}.{m}"

    def _meta(self, j):
        return {j: self.action_space.n} if isinstance(self.action_space, Discrete) else None

    def __call__(self, state, observation, *, key=None, action_mask=None):
        nm = "call" if key is not None else "call_greedy"
        h, a = ocall(
            self._n(nm), (f32(PS_DIM), action_struct(self.action_space)), self.theta, state, observation, key,
            action_mask, meta=self._meta(1),
        )
        return GPState(h), a

    def reset(self, *, key):
        return GPState(ocall(self._n("reset"), f32(PS_DIM), self.theta, key))

    def action_and_value(self, state, observation, *, key, action_mask=None):
        h, a, v, lp = ocall(
            self._n("action_and_value"),
            (f32(PS_DIM), action_struct(self.action_space), f32(), f32()),
            self.theta, state, observation, key, action_mask, meta=self._meta(1),
        )
        return GPState(h), a, v, lp

    def evaluate_action(self, state, observation, action, *, action_mask=None):
        h, v, lp, ent = dcall(
            self._n("evaluate_action"), (f32(PS_DIM), f32(), f32(), f32()),
            self.theta, state, observation, action, action_mask,
        )
        return GPState(h), v, lp, ent

    def value(self, state, observation):
        h, v = dcall(self._n("value"), (f32(PS_DIM), f32()), self.theta, state, observation)
        return GPState(h), v


class GenericQPolicy(AbstractQPolicy):
    """Any Q policy: q_values is uninterpreted; the real epsilon-greedy __call__ is inherited."""

    name: ClassVar[str] = "GenericQ"
    action_space: Discrete
    observation_space: Box
    epsilon: float
    theta: jax.Array
    tag: str = eqx.field(static=True)

    def __init__(self, action_space, observation_space, epsilon=0.1, tag="q", theta=None):
        self.action_space = action_space
        self.observation_space = observation_space
        self.epsilon = epsilon
        self.theta = jnp.zeros((2,), F) if theta is None else theta
        self.tag = tag

    def q_values(self, state, observation):
        h, q = dcall(f"{self.tag}.q_values", (f32(PS_DIM), f32(self.action_space.n)), self.theta, state, observation)
        return GPState(h), q

    def reset(self, *, key):
        return GPState(ocall(f"{self.tag}.reset", f32(PS_DIM), self.theta, key))


class GenericPolicy(AbstractQPolicy.__mro__[1]):  # AbstractPolicy
    """Any behaviour policy (off-policy collection): __call__ uninterpreted."""

    name: ClassVar[str] = "GenericPolicy"
    action_space: Box | Discrete
    observation_space: Box
    theta: jax.Array
    tag: str = eqx.field(static=True)

    def __init__(self, action_space, observation_space, tag="pi", theta=None):
        self.action_space = action_space
        self.observation_space = observation_space
        self.theta = jnp.zeros((2,), F) if theta is None else theta
        self.tag = tag

    def __call__(self, state, observation, *, key=None, action_mask=None):
        meta = {1: self.action_space.n} if isinstance(self.action_space, Discrete) else None
        h, a = ocall(
            f"{self.tag}.call", (f32(PS_DIM), action_struct(self.action_space)), self.theta, state, observation, key,
            action_mask, meta=meta,
        )
        return GPState(h), a

    def reset(self, *, key):
        return GPState(ocall(f"{self.tag}.reset", f32(PS_DIM), self.theta, key))


class GenericSACPolicy(AbstractSACPolicy):
    name: ClassVar[str] = "GenericSAC"
    action_space: Box
    observation_space: Box
    theta: jax.Array
    tag: str = eqx.field(static=True)

    def __init__(self, action_space, observation_space, tag="pi", theta=None):
        self.action_space = action_space
        self.observation_space = observation_space
        self.theta = jnp.zeros((2,), F) if theta is None else theta
        self.tag = tag

    def __call__(self, state, observation, *, key=None, action_mask=None):
        nm = "call" if key is not None else "call_greedy"
        h, a = ocall(f"{self.tag}.{nm}", (f32(PS_DIM), action_struct(self.action_space)), self.theta, state, observation, key)
        return GPState(h), a

    def reset(self, *, key):
        return GPState(ocall(f"{self.tag}.reset", f32(PS_DIM), self.theta, key))

    def action_distribution(self, state, observation):
        raise NotImplementedError("generic SAC policy exposes action_and_log_prob only")

    def action_and_log_prob(self, state, observation, *, key):
        h, a, lp = dcall(
            f"{self.tag}.action_and_log_prob", (f32(PS_DIM), action_struct(self.action_space), f32()),
            self.theta, state, observation, key,
        )
        return GPState(h), a, lp


class GCbStep(AbstractCallbackStepState):
    c: jax.Array


class GCbState(AbstractCallbackState):
    c: jax.Array


def _ctx_leaves(ctx):
    # every array leaf reachable from the context (incl. locals) is an explicit argument of the callback
    return [l for l in jax.tree.leaves(ctx) if eqx.is_array(l)]


class GenericCallback(AbstractCallback):
    """Any callback: every hook is an uninterpreted function of the whole context and the key."""

    tag: str = eqx.field(static=True)

    def __init__(self, tag="cb"):
        self.tag = tag

    def reset(self, ctx, *, key):
        return GCbState(ocall(f"{self.tag}.reset", f32(1), _ctx_leaves(ctx), key))

    def step_reset(self, ctx, *, key):
        return GCbStep(ocall(f"{self.tag}.step_reset", f32(1), _ctx_leaves(ctx), key))

    def on_step(self, ctx, *, key):
        return GCbStep(ocall(f"{self.tag}.on_step", f32(1), ctx.state, ctx.done, ctx.reward, _ctx_leaves(ctx.locals), key))

    def on_iteration(self, ctx, *, key):
        return GCbState(ocall(f"{self.tag}.on_iteration", f32(1), _ctx_leaves(ctx), key))

    def on_training_start(self, ctx, *, key):
        return GCbState(ocall(f"{self.tag}.on_training_start", f32(1), _ctx_leaves(ctx), key))

    def on_training_end(self, ctx, *, key):
        return GCbState(ocall(f"{self.tag}.on_training_end", f32(1), _ctx_leaves(ctx), key))

    def continue_training(self, ctx, *, key):
        return ocall(f"{self.tag}.continue_training", SDS((), jnp.bool_), _ctx_leaves(ctx), key)


class SimpleCallback(GenericCallback):
    """Generic callback whose on_step only sees (state, done, reward, key): keeps jaxprs small."""

    def on_step(self, ctx, *, key):
        return GCbStep(ocall(f"{self.tag}.on_step", f32(1), ctx.state, ctx.done, ctx.reward, key))

    def step_reset(self, ctx, *, key):
        return GCbStep(ocall(f"{self.tag}.step_reset", f32(1), key))

    def reset(self, ctx, *, key):
        return GCbState(ocall(f"{self.tag}.reset", f32(1), key))
