"""Extraction: real functions -> jaxprs -> SArr programs.

`run(ctx, fn, *args)` traces `fn` (a REAL lerax function, a spec function written with jax.numpy, or a
composition) on arguments whose array leaves are SArr (symbolic arrays) and evaluates the resulting jaxpr
symbolically with lvc.ir; non-array leaves (static fields, Python flags, callables) are passed through
unchanged, exactly as equinox's filtered transformations treat them.  Nothing is paraphrased by hand: the
jaxpr is what jit hands to XLA.
"""
from __future__ import annotations

import contextlib

import equinox as eqx
import jax
import jax.numpy as jnp
import numpy as np

from . import ir
from .ir import SArr


def is_sarr(x):
    return isinstance(x, SArr)


def _is_dyn(x):
    return isinstance(x, SArr)


def sds_of(a: SArr):
    shape = getattr(a, "jshape", None)
    if shape is None:
        shape = a.shape
    dt = a.dtype
    if dt is None:
        dt = {"f": jnp.float32, "i": jnp.int32, "b": jnp.bool_}[a.kind]
    return jax.ShapeDtypeStruct(tuple(shape), dt)


class SArrJ(SArr):
    """SArr that remembers its jax shape (with symbolic _DimExpr dims) so it can be re-traced."""
    __slots__ = ("jshape",)


def with_jshape(a: SArr, jshape, dtype=None):
    b = SArrJ(a.shape, a.kind, a.fn, dtype if dtype is not None else a.dtype)
    b._memo = a._memo
    b.jshape = tuple(jshape)
    return b


def sym(ctx, name, tree):
    """Replace every array / ShapeDtypeStruct leaf of `tree` by a fresh symbolic input named name.path."""
    def is_leaf(x):
        return isinstance(x, (jax.ShapeDtypeStruct, SArr))

    paths_leaves, treedef = jax.tree_util.tree_flatten_with_path(tree, is_leaf=is_leaf)
    out = []
    for path, leaf in paths_leaves:
        if isinstance(leaf, SArr):
            out.append(leaf)
            continue
        if isinstance(leaf, jax.ShapeDtypeStruct) or eqx.is_array(leaf):
            pstr = name + jax.tree_util.keystr(path).replace("'", "").replace('"', "")
            kind = ir.kind_of_dtype(leaf.dtype)
            a = ir.fresh_input(pstr, ctx.shape(leaf.shape), kind, leaf.dtype)
            out.append(with_jshape(a, leaf.shape, leaf.dtype))
        else:
            out.append(leaf)
    return jax.tree_util.tree_unflatten(treedef, out)


def const(tree):
    """Concrete arrays -> constant SArr leaves."""
    def conv(x):
        if eqx.is_array(x) or isinstance(x, (np.ndarray, np.generic)):
            a = ir.const_arr(np.asarray(x))
            return with_jshape(a, np.shape(x), np.asarray(x).dtype)
        return x
    return jax.tree.map(conv, tree)


def scalar(ctx, term, kind, dtype=None):
    dt = dtype or {"f": jnp.float32, "i": jnp.int32, "b": jnp.bool_}.get(kind)
    a = SArr((), kind, lambda idx: term, dt)
    return with_jshape(a, (), dt)


class Traced:
    def __init__(self, closed_jaxpr, out_tree, out_static_leaves, out_is_dyn):
        self.closed_jaxpr = closed_jaxpr
        self.out_tree = out_tree
        self.out_static_leaves = out_static_leaves
        self.out_is_dyn = out_is_dyn


def trace(fn, args, kwargs=None):
    """Trace fn(*args, **kwargs) where SArr leaves are the dynamic inputs.  Returns (Traced, dyn_leaves)."""
    kwargs = kwargs or {}
    leaves, treedef = jax.tree.flatten((args, kwargs), is_leaf=is_sarr)
    dyn_pos = [i for i, l in enumerate(leaves) if _is_dyn(l)]
    dyn = [leaves[i] for i in dyn_pos]
    sds = [sds_of(l) for l in dyn]
    box = {}

    def flat_fn(*dyn_vals):
        ls = list(leaves)
        for p, v in zip(dyn_pos, dyn_vals):
            ls[p] = v
        a, kw = jax.tree.unflatten(treedef, ls)
        out = fn(*a, **kw)
        oleaves, otree = jax.tree.flatten(out)
        # arrays are dynamic outputs; Python scalars (static module fields such as epsilon, flags) stay static, as under eqx.filter_jit
        is_dyn = [eqx.is_array(l) or isinstance(l, (np.ndarray, np.generic)) for l in oleaves]
        # python scalars / numpy values become constants of the program
        dyn_out = [jnp.asarray(l) for l, d in zip(oleaves, is_dyn) if d]
        box["otree"] = otree
        box["static"] = [None if d else l for l, d in zip(oleaves, is_dyn)]
        box["is_dyn"] = is_dyn
        return dyn_out

    cj = jax.make_jaxpr(flat_fn)(*sds)
    return Traced(cj, box["otree"], box["static"], box["is_dyn"]), dyn


def run(ctx, fn, *args, **kwargs):
    try:
        tr, dyn = trace(fn, args, kwargs)
    except jax.errors.TracerBoolConversionError:
        # Python-level control flow on a traced value (`if`, `max`, `assert` ... on a symbolic input): explore every path and merge the results under their
        # path conditions (If-trees); the accepted-path condition is recorded in ctx.fork_accepting for contracts that need it.
        return run_forked(ctx, fn, args, kwargs)
    return eval_traced(ctx, tr, dyn)


def run_forked(ctx, fn, args, kwargs=None, max_paths=32):
    import z3
    paths = fork_paths(fn, args, kwargs, max_paths=max_paths)
    evald = []
    n0 = len(ctx.calls)
    for tr, dyn, decisions in paths:
        conds, out = eval_traced(ctx, tr, dyn)
        pc = ir.sand(*[ir.seq(c.scalar(), d) for c, d in zip(conds, decisions)])
        evald.append((pc, out))
    # the same collaborator call issued on several paths (identical name, batching and operand terms) is ONE call of the program: keep the first record
    seen, kept = set(), []
    for c in ctx.calls[n0:]:
        sig = _call_signature(c)
        if sig is not None and sig in seen:
            continue
        seen.add(sig)
        kept.append(c)
    ctx.calls[n0:] = kept
    is_s = lambda x: isinstance(x, ir.SArr)
    flat = [jax.tree.flatten(o, is_leaf=is_s) for _, o in evald]
    td0 = flat[0][1]
    if any(td != td0 for _, td in flat[1:]):
        raise ir.Unsupported("paths of Python-level control flow return differently structured results")
    merged = []
    for li in range(len(flat[0][0])):
        leaves = [f[0][li] for f in flat]
        if not is_s(leaves[0]):
            if any(is_s(l) or not _same_static(l, leaves[0]) for l in leaves[1:]):
                raise ir.Unsupported("paths of Python-level control flow return different static values")
            merged.append(leaves[0])
            continue
        if any(not is_s(l) or tuple(l.shape) != tuple(leaves[0].shape) or l.kind != leaves[0].kind for l in leaves[1:]):
            raise ir.Unsupported("paths of Python-level control flow return differently shaped results")

        def fn_at(idx, leaves=leaves):
            v = leaves[-1].at(idx)
            for (pc, _), l in zip(reversed(evald[:-1]), reversed(leaves[:-1])):
                v = ir.site(pc, l.at(idx), v)
            return v
        m = ir.SArr(leaves[0].shape, leaves[0].kind, fn_at, dtype=leaves[0].dtype)
        merged.append(with_jshape(m, getattr(leaves[0], "jshape", leaves[0].shape), leaves[0].dtype))
    ctx.__dict__.setdefault("fork_paths_explored", []).append(len(paths))
    return jax.tree.unflatten(td0, merged)


def _call_signature(c):
    import z3
    try:
        ops = []
        for a in c.operands:
            if all(isinstance(d, int) for d in a.shape) and int(np.prod(a.shape or (1,))) <= 256:
                ops.append((tuple(a.shape), tuple(ir.key_of(a.at(ix)) for ix in a.indices())))
            else:
                idx = tuple(z3.Int(f"sig!{k}") if not isinstance(d, int) else 0 for k, d in enumerate(a.shape))
                ops.append((tuple(str(d) for d in a.shape), ir.key_of(a.at(idx))))
        return (c.name, str(c.levels), str(getattr(c, "path", None)), tuple(ops))
    except Exception:
        return None


def _same_static(a, b):
    try:
        if a is b:
            return True
        r = a == b
        return bool(r) if not hasattr(r, "all") else bool(r.all())
    except Exception:
        return False


def eval_traced(ctx, tr: Traced, dyn):
    cj = tr.closed_jaxpr
    outs = ir.eval_jaxpr(ctx, cj.jaxpr, cj.consts, list(dyn))
    outs = [with_jshape(o, v.aval.shape, v.aval.dtype) for o, v in zip(outs, cj.jaxpr.outvars)]
    it = iter(outs)
    leaves = [next(it) if d else s for d, s in zip(tr.out_is_dyn, tr.out_static_leaves)]
    return jax.tree.unflatten(tr.out_tree, leaves)


def jaxpr_text(tr: Traced, limit=4000):
    s = str(tr.closed_jaxpr)
    return s if len(s) <= limit else s[:limit] + "\n... (truncated)"


# ----------------------------------------------------------------------------------------------
# patches (verifier process only; restored afterwards)
# ----------------------------------------------------------------------------------------------

@contextlib.contextmanager
def patched(*triples):
    """patched((obj, 'attr', new), ...)"""
    saved = []
    try:
        for obj, attr, new in triples:
            had = attr in vars(obj) if hasattr(obj, "__dict__") else hasattr(obj, attr)
            saved.append((obj, attr, vars(obj).get(attr) if had and hasattr(obj, "__dict__") else getattr(obj, attr, None), had))
            setattr(obj, attr, new)
        yield
    finally:
        for obj, attr, old, had in reversed(saved):
            if had:
                setattr(obj, attr, old)
            else:
                try:
                    delattr(obj, attr)
                except AttributeError:
                    pass


def symbolic_dims(spec: str, constraints=()):
    """jax.export.symbolic_shape wrapper: symbolic_dims('T, N') -> tuple of dimension variables."""
    from jax import export
    return export.symbolic_shape(spec, constraints=tuple(constraints))


# ----------------------------------------------------------------------------------------------
# forking tracer: explore every Python-level branch taken on a traced value
# ----------------------------------------------------------------------------------------------

class ForkState:
    def __init__(self):
        self.schedule = []
        self.taken = []  # (tracer, decision)

    def decide(self, tracer):
        i = len(self.taken)
        d = self.schedule[i] if i < len(self.schedule) else True
        self.taken.append((tracer, d))
        return d


_FORK = None


def _install_bool_hook():
    from jax._src import core as jcore

    if getattr(jcore.ShapedArray, "_lvc_hooked", False):
        return
    orig = jcore.ShapedArray._bool

    def _bool(self, tracer):
        if _FORK is None:
            return orig(self, tracer)
        return _FORK.decide(tracer)

    jcore.ShapedArray._bool = _bool
    jcore.ShapedArray._lvc_hooked = True


def fork_paths(fn, args, kwargs=None, max_paths=64, raises=()):
    """Enumerate all paths of fn(*args) w.r.t. bool(tracer) decisions.
    Returns list of (Traced, dyn, decisions) where the traced program has the branch conditions as extra
    leading outputs: out = (conds_tuple, original_out).  Raises ir.Unsupported if more than max_paths."""
    global _FORK
    _install_bool_hook()
    results = []
    stack = [[]]
    while stack:
        sched = stack.pop()
        st = ForkState()
        st.schedule = list(sched)

        def wrapped(*a, **kw):
            out = fn(*a, **kw)
            conds = tuple(jnp.asarray(t) for t, _ in st.taken)
            return conds, out

        _FORK = st
        try:
            tr, dyn = trace(wrapped, args, kwargs)
        except raises as e:
            # a path on which the real code raises (e.g. a failed `assert` on traced values): recorded as (None, exception, decisions)
            tr, dyn = None, e
        finally:
            _FORK = None
        decisions = [d for _, d in st.taken]
        results.append((tr, dyn, decisions))
        # schedule alternatives for decisions beyond the given prefix
        for i in range(len(sched), len(decisions)):
            alt = decisions[:i] + [not decisions[i]]
            stack.append(alt)
        if len(results) > max_paths:
            raise ir.Unsupported(f"more than {max_paths} paths")
    return results
