"""Check driver: runs the units of one property in a process pool, aggregates verdicts, writes evidence and
replay files, prints VIOLATION / KNOWN-FINDING lines, sets the exit code (0 held / 1 violation / 2 undecided /
3 internal error)."""
from __future__ import annotations

import argparse
import importlib
import json
import multiprocessing as mp
import os
import re
import sys
import time
import traceback

ROOT = os.path.dirname(os.path.dirname(os.path.abspath(__file__)))


def _safe(s):
    return re.sub(r"[^A-Za-z0-9_.-]+", "_", s)


def _jsonable(x):
    try:
        json.dumps(x)
        return x
    except Exception:
        if isinstance(x, dict):
            return {str(k): _jsonable(v) for k, v in x.items()}
        if isinstance(x, (list, tuple)):
            return [_jsonable(v) for v in x]
        return repr(x)


def _pin_worker(counter, ncpu):
    """Pin each pool worker to one CPU before JAX starts: XLA then sizes its thread pools to 1 and 14 workers do
    not oversubscribe the machine."""
    try:
        with counter.get_lock():
            i = counter.value
            counter.value += 1
        cpus = sorted(os.sched_getaffinity(0))
        os.sched_setaffinity(0, {cpus[i % len(cpus)]})
    except Exception:
        pass


def run_unit(args):
    prop, modname, unit_name, tier, seed = args
    t0 = time.time()
    os.environ.setdefault("JAX_PLATFORMS", "cpu")
    sys.path.insert(0, ROOT)
    import lvc.prelude  # noqa: F401  (must precede any lerax import)
    from lvc import vc
    out = dict(unit=unit_name, results=[], functions=[], assumed=[], bounded=[], samples=[], notes=[], error=None)
    try:
        mod = importlib.import_module(modname)
        fn = dict(mod.UNITS)[unit_name]
        S = vc.Session(prop, unit_name, tier, seed)
        try:
            fn(S)
        except Exception as e:
            from lvc import ir as _ir
            tb_files = [fs.filename for fs in traceback.extract_tb(e.__traceback__)]
            in_repo = any(f.startswith(os.environ.get("LVC_REPO", "/repo").rstrip("/") + "/") for f in tb_files)
            if isinstance(e, _ir.Unsupported) or in_repo:
                # the code under contract uses something the translator does not model, or raised while being extracted on symbolic inputs (e.g. not typeable with symbolic
                # sizes): undecided for the obligations of this unit, never a verdict by itself.  If the unit names a native replay battery (Session.default_replay), that is
                # run on the real code: a reproduced failing input is a violation (of the obligation "native-witness"), otherwise the unit stays undecided
                reason = (f"unsupported by the translator: {e}" if isinstance(e, _ir.Unsupported) else f"the code under contract raised during symbolic extraction: {type(e).__name__}: {str(e)[:300]}")
                witness = None
                if S.default_replay is not None:
                    try:
                        witness = S.default_replay(None)
                    except Exception as e2:
                        witness = dict(reproduced=False, note=f"native replay raised {type(e2).__name__}: {str(e2)[:200]}")
                if witness and witness.get("reproduced"):
                    S._record("native-witness", "failed", function=None, what="the unit's obligations could not be generated (" + reason[:160] + "); its native replay battery finds a failing input on the real code",
                              backend="native", detail=reason[:300], replay=(lambda m, w=witness: w), seconds=0.0, model={})
                else:
                    S._record("unit-undecided", "undecided", reason=reason + ("" if witness is None else "; native replay battery: no failing input"))
            else:
                S._record("unit-crash", "error", reason=f"{type(e).__name__}: {e}", trace=traceback.format_exc()[-3000:])
        for r in S.results:
            rp = r.pop("replay", None)
            model = r.pop("_model", None)
            r.pop("_hole_terms", None)
            if r["status"] == "failed":
                if rp is not None:
                    try:
                        rr = rp(model)
                    except Exception as e:
                        rr = dict(reproduced=False, error=f"replay crashed: {type(e).__name__}: {e}",
                                  trace=traceback.format_exc()[-2000:])
                    r["replay_result"] = _jsonable(rr)
                else:
                    r["replay_result"] = dict(reproduced=False, note="no native replay route for this obligation")
                if r.get("abstraction_incomplete") and not (r.get("replay_result") or {}).get("reproduced"):
                    # sums over a symbolic extent are uninterpreted (congruence + a few linearity lemmas only): a counter-model that does not reproduce natively
                    # may be an artefact of that abstraction -> undecided, never a violation
                    r["status"] = "undecided"
                    r["reason"] = ("the program no longer has the shape this contract is stated over (" + str(r.get("what"))[:120] + "); no behavioural difference reproduced natively") if r.get("shape_fact") else "counter-model relies on an abstraction (uninterpreted reductions over a symbolic extent, or an uninterpreted library law) and did not reproduce natively (possible artefact of the abstraction)"
            elif r["status"] == "discharged" and rp is not None and (tier == "thorough" or os.environ.get("LVC_SELFTEST_REPLAYS")) and time.time() - t0 < 900:
                # cross-check of prover against CPython: on a discharged obligation the native replay route must not find a failing input
                try:
                    rr = rp(None)
                    r["native_crosscheck"] = "agrees" if not rr.get("reproduced") else "DISAGREES"
                    if rr.get("reproduced"):
                        r["status"] = "error"
                        r["reason"] = "obligation discharged but its native replay route finds a failing input: prover or replay route is wrong"
                        r["replay_result"] = _jsonable(rr)
                except Exception as e:
                    r["native_crosscheck"] = f"replay crashed: {type(e).__name__}: {str(e)[:200]}"
                    if os.environ.get("LVC_SELFTEST_REPLAYS"):   # developer mode: a crashing replay route is a defect of the machinery
                        r["status"] = "error"
                        r["reason"] = "native replay route crashed on the unchanged tree: " + r["native_crosscheck"]
            out["results"].append(_jsonable(dict(r)))
        out["functions"] = sorted(S.functions)
        out["assumed"] = sorted(S.assumed)
        out["bounded"] = _jsonable(S.bounded)
        out["samples"] = _jsonable(S.samples)
        out["notes"] = S.notes
    except Exception as e:
        out["error"] = f"{type(e).__name__}: {e}\n{traceback.format_exc()[-3000:]}"
    out["wall_s"] = round(time.time() - t0, 2)
    return out


def load_known():
    p = os.path.join(ROOT, "known_findings.json")
    if not os.path.exists(p):
        return []
    return json.load(open(p)).get("findings", [])


def main(argv=None):
    ap = argparse.ArgumentParser()
    ap.add_argument("prop")
    ap.add_argument("--tier", default=os.environ.get("VERIF_TIER", "quick"), choices=["quick", "thorough"])
    ap.add_argument("--replay", default=None)
    ap.add_argument("--units", default=None, help="comma-separated unit names (developer use)")
    ap.add_argument("--jobs", type=int, default=int(os.environ.get("VERIF_JOBS", "0")))
    ap.add_argument("--no-evidence", action="store_true")
    a = ap.parse_args(argv)
    prop = a.prop
    tier = a.tier
    seed = int(os.environ.get("VERIF_SEED", "0") or 0)
    t0 = time.time()
    sys.path.insert(0, ROOT)
    os.environ.setdefault("JAX_PLATFORMS", "cpu")
    import lvc.prelude  # noqa: F401
    modname = f"contracts.{prop}"
    try:
        mod = importlib.import_module(modname)
    except Exception:
        traceback.print_exc()
        print(f"INTERNAL-ERROR property={prop} cannot import contracts")
        return 3
    units = [n for n, _ in mod.UNITS]
    only = None
    if a.replay:
        try:
            rj = json.load(open(a.replay))
            only = rj.get("obligation")
            units = [rj["unit"]]
        except Exception as e:
            print(f"cannot read replay file {a.replay}: {e}")
            return 3
    if a.units:
        units = [u for u in units if u in a.units.split(",")]
    tier_units = getattr(mod, "THOROUGH_ONLY", set())
    if tier == "quick":
        units = [u for u in units if u not in tier_units]
    jobs = a.jobs or min(len(units), max(1, (os.cpu_count() or 4) - 2), 14)
    work = [(prop, modname, u, tier, seed) for u in units]
    if jobs <= 1 or len(work) == 1:
        outs = [run_unit(w) for w in work]
    else:
        ctx = mp.get_context("spawn")
        counter = ctx.Value("i", 0)
        with ctx.Pool(jobs, initializer=_pin_worker, initargs=(counter, os.cpu_count())) as pool:
            outs = pool.map(run_unit, work, chunksize=1)

    results, functions, assumed, bounded, samples, notes = [], set(), set(), [], [], []
    internal = []
    for o in outs:
        if o["error"]:
            internal.append(f"{o['unit']}: {o['error']}")
        results += o["results"]
        functions.update(o["functions"])
        assumed.update(o["assumed"])
        bounded += o["bounded"]
        samples += o["samples"]
        notes += o["notes"]
    if only:
        results = [r for r in results if r["id"] == only] or results

    known = [k for k in load_known() if k.get("property") == prop and k.get("status") == "known"]
    failed = [r for r in results if r["status"] == "failed"]
    undec = [r for r in results if r["status"] == "undecided"]
    errors = [r for r in results if r["status"] == "error"]
    discharged = [r for r in results if r["status"] == "discharged"]
    violations = []
    known_hits = []
    for r in failed:
        k = next((k for k in known if k.get("obligation") == r["id"]), None)
        if k is not None:
            known_hits.append((r, k))
        else:
            violations.append(r)

    rdir = os.path.join(os.environ.get("LVC_REPLAY_DIR") or os.path.join(ROOT, "replays"), prop)      # LVC_REPLAY_DIR: developer tools running several trees in parallel
    if os.path.isdir(rdir) and not a.replay:
        for fn in os.listdir(rdir):  # replay files belong to the current run only
            try:
                os.remove(os.path.join(rdir, fn))
            except OSError:
                pass
    lines = []
    for r in violations:
        os.makedirs(rdir, exist_ok=True)
        path = os.path.join(rdir, _safe(r["id"]) + ".json")
        rr = r.get("replay_result") or {}
        with open(path, "w") as f:
            json.dump(dict(property=prop, unit=r["id"].split("/")[0], obligation=r["id"], function=r.get("function"),
                           what=r.get("what"), verifier_output=dict(status="sat", backend=r.get("backend"),
                                                                    model=r.get("model"), detail=r.get("detail"),
                                                                    holes=r.get("holes")),
                           replay=rr, tier=tier), f, indent=1)
        suffix = "" if rr.get("reproduced") else " no-failing-input-found"
        lines.append(f"VIOLATION property={prop} replay={path}{suffix}")
    for r, k in known_hits:
        print(f"KNOWN-FINDING: property={prop} {k.get('what', r['id'])} [{r['id']}]")

    n_obl = len(results)
    wall = round(time.time() - t0, 2)
    summary = (f"{prop} [{tier}] obligations={n_obl} discharged={len(discharged)} failed={len(failed)} "
               f"(known={len(known_hits)}) undecided={len(undec)} errors={len(errors) + len(internal)} "
               f"bounded={len(bounded)} wall={wall}s")
    print(summary)
    for r in undec:
        print(f"  UNDECIDED {r['id']}: {r.get('reason')}")
    for r in errors:
        print(f"  ERROR {r['id']}: {r.get('reason')}")
        if r.get("trace"):
            print("    " + r["trace"].replace("\n", "\n    "))
    for e in internal:
        print(f"  INTERNAL {e}")
    for r in failed:
        print(f"  FAILED {r['id']} ({r.get('function')}): {r.get('what')}")
    for ln in lines:
        print(ln)

    if not a.no_evidence and not a.replay and not a.units:
        trusted = sorted(set(getattr(mod, "TRUSTED", [])) | assumed)
        ev = dict(
            property_id=prop, tier=tier, seed=seed, level=getattr(mod, "LEVEL", "proof"),
            coverage=dict(
                explanation=getattr(mod, "EXPLANATION", "contract-based deductive verification: obligations generated from the extracted jaxprs of the real functions and discharged by z3/cvc5; see obligation_list"),
                # bounded stand-ins are never counted as proof obligations (a passing one is only listed under `bounded`; a failing one - e.g. a recorded known finding - is listed
                # there with ok=false and under failed / known_findings)
                obligations=len([r for r in results if r.get("backend") != "bounded-native"]), discharged=len(discharged),
                checker_cmd=f"./check {prop} --tier {tier}",
                trusted_base=trusted,
                failed=len(failed), known_findings=len(known_hits), undecided=len(undec),
                functions_under_contract=sorted(functions),
                backends=sorted({str(r.get("backend")) for r in results if r.get("backend")}),
                solver_seconds=round(sum(float(r.get("solver_s") or 0) for r in results), 3),
                obligation_list=[dict(id=r["id"], status=r["status"], function=r.get("function"), what=r.get("what"),
                                      backend=r.get("backend"), seconds=r.get("seconds"), canary=r.get("canary"),
                                      cvc5_recheck=r.get("cvc5_recheck")) for r in results],
                bounded=bounded,
                samples=(samples[:8] or [dict(id=r["id"], what=r.get("what")) for r in results[:5]]),
                extraction_drops=getattr(mod, "DROPS", []),
                not_decided=getattr(mod, "NOT_DECIDED", []),
                unit_wall_s={o["unit"]: o["wall_s"] for o in outs},
                notes=notes[:40],
            ),
            assumptions=list(getattr(mod, "ASSUMPTIONS", [])),
            wall_s=wall,
            violations=len(violations),
        )
        os.makedirs(os.path.join(ROOT, "evidence"), exist_ok=True)
        with open(os.path.join(ROOT, "evidence", f"{prop}.json"), "w") as f:
            json.dump(ev, f, indent=1)

    if violations:
        return 1
    if internal or errors or n_obl == 0:
        return 3
    if undec:
        return 2
    return 0


if __name__ == "__main__":
    sys.exit(main())
