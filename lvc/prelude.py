"""Imported before lerax in every verifier process.

tensorboardX and wandb are logging back ends that lerax imports at module import time; importing them costs
seconds of (heavily contended) kernel time per process and none of their code is ever executed by a check, so
the verifier process substitutes empty stand-in modules.  Listed in every evidence file's trusted base.
"""
import os
import sys
import types

os.environ.setdefault("JAX_PLATFORMS", "cpu")
os.environ.setdefault("WANDB_MODE", "disabled")

for _name, _attrs in (("tensorboardX", ("SummaryWriter",)), ("wandb", ())):
    if _name not in sys.modules:
        _m = types.ModuleType(_name)
        _m.__lvc_stub__ = True
        for _a in _attrs:
            setattr(_m, _a, type(_a, (), {"__init__": lambda self, *a, **k: None}))
        sys.modules[_name] = _m
