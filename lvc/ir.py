"""jaxpr -> SMT terms.

A jaxpr variable of shape (d1..dk) is an `SArr`: a lazily evaluated, memoised map  index tuple -> scalar term.
Scalars are z3 terms (Real for floating point under A-REAL, Int for integers under A-INT, Bool, and the
uninterpreted sort Key for PRNG keys) or folded Python constants (bool / int / Fraction).
Each primitive maps SArrs to SArrs; no quantifier is introduced.  Unknown primitives raise Unsupported
(the obligation becomes *undecided*, never a pass and never a violation).
"""
from __future__ import annotations

import itertools
import math
from fractions import Fraction

import jax
import numpy as np
import z3

KeySort = z3.DeclareSort("Key")


class Unsupported(Exception):
    pass


# ----------------------------------------------------------------------------------------------
# scalar helpers (constant folding keeps terms small and indices concrete whenever possible)
# ----------------------------------------------------------------------------------------------

def is_z3(x):
    return isinstance(x, z3.ExprRef)


def is_const(x):
    return not is_z3(x)


def zreal(x):
    if is_z3(x):
        if z3.is_int(x):
            return z3.ToReal(x)
        return x
    if isinstance(x, bool):
        return z3.RealVal(1 if x else 0)
    if isinstance(x, float):
        x = const_float(x)
        if is_z3(x):
            return x
    fr = Fraction(x)
    return z3.RealVal(f"{fr.numerator}/{fr.denominator}") if fr.denominator != 1 else z3.RealVal(fr.numerator)


def zint(x):
    if is_z3(x):
        return x
    return z3.IntVal(int(x))


def zbool(x):
    if is_z3(x):
        return x
    return z3.BoolVal(bool(x))


INF = z3.Real("INF")  # float infinity under the real model: a symbolic constant, assumed huge (INF_AXIOM)
NAN = z3.Real("NAN")  # float NaN under the real model: an unconstrained real (comparisons are NOT modelled)
INF_AXIOM = INF > z3.RealVal("1" + "0" * 30)


def const_float(v):
    v = float(v)
    if math.isinf(v):
        return INF if v > 0 else -INF
    if math.isnan(v):
        return NAN
    return Fraction(v)


def z_of(x, kind):
    if kind == "f":
        return zreal(x)
    if kind == "i":
        return zint(x)
    if kind == "b":
        return zbool(x)
    return x


def _num(x):
    return isinstance(x, (int, Fraction)) and not isinstance(x, bool)


def sadd(a, b):
    if _num(a) and _num(b):
        return a + b
    if _num(a) and a == 0:
        return b
    if _num(b) and b == 0:
        return a
    return _arith(a, b, lambda x, y: x + y)


def ssub(a, b):
    if _num(a) and _num(b):
        return a - b
    if _num(b) and b == 0:
        return a
    return _arith(a, b, lambda x, y: x - y)


def smul(a, b):
    if _num(a) and _num(b):
        return a * b
    if _num(a) and a == 1:
        return b
    if _num(b) and b == 1:
        return a
    if (_num(a) and a == 0) or (_num(b) and b == 0):
        return 0
    return _arith(a, b, lambda x, y: x * y)


def _isreal(x):
    return isinstance(x, Fraction) or (is_z3(x) and z3.is_real(x))


def _arith(a, b, op):
    if _isreal(a) or _isreal(b):
        return op(zreal(a), zreal(b))
    return op(zint(a), zint(b))


def sdiv_real(a, b):
    if _num(a) and _num(b) and b != 0:
        return Fraction(a) / Fraction(b)
    return zreal(a) / zreal(b)


def sneg(a):
    if _num(a):
        return -a
    return -a


def _cmp(a, b, pyop, zop):
    if is_const(a) and is_const(b):
        return pyop(a, b)
    if _isreal(a) or _isreal(b):
        return zop(zreal(a), zreal(b))
    if isinstance(a, bool) or isinstance(b, bool) or (is_z3(a) and z3.is_bool(a)):
        return zop(zbool(a), zbool(b))
    if (is_z3(a) and a.sort() == KeySort) or (is_z3(b) and b.sort() == KeySort):
        return zop(a, b)
    return zop(zint(a), zint(b))


def seq(a, b):
    return _cmp(a, b, lambda x, y: x == y, lambda x, y: x == y)


def sne(a, b):
    return _cmp(a, b, lambda x, y: x != y, lambda x, y: x != y)


def slt(a, b):
    return _cmp(a, b, lambda x, y: x < y, lambda x, y: x < y)


def sle(a, b):
    return _cmp(a, b, lambda x, y: x <= y, lambda x, y: x <= y)


def sgt(a, b):
    return slt(b, a)


def sge(a, b):
    return sle(b, a)


def sand(*xs):
    out = []
    for x in xs:
        if is_const(x):
            if not x:
                return False
            continue
        out.append(x)
    if not out:
        return True
    return out[0] if len(out) == 1 else z3.And(*out)


def sor(*xs):
    out = []
    for x in xs:
        if is_const(x):
            if x:
                return True
            continue
        out.append(x)
    if not out:
        return False
    return out[0] if len(out) == 1 else z3.Or(*out)


def snot(x):
    if is_const(x):
        return not x
    return z3.Not(x)


def simplies(a, b):
    return sor(snot(a), b)


def site(c, a, b):
    if is_const(c):
        return a if c else b
    if is_const(a) and is_const(b) and type(a) == type(b) and a == b:
        return a
    if is_z3(a) and is_z3(b) and a.eq(b):
        return a
    # unify sorts
    if _isreal(a) or _isreal(b):
        return z3.If(c, zreal(a), zreal(b))
    if isinstance(a, bool) or isinstance(b, bool) or (is_z3(a) and z3.is_bool(a)) or (is_z3(b) and z3.is_bool(b)):
        return z3.If(c, zbool(a), zbool(b))
    if is_z3(a) and a.sort() == KeySort:
        return z3.If(c, a, b)
    return z3.If(c, zint(a), zint(b))


def smax(a, b):
    if is_const(a) and is_const(b):
        return max(a, b)
    return site(sge(a, b), a, b)


def smin(a, b):
    if is_const(a) and is_const(b):
        return min(a, b)
    return site(sle(a, b), a, b)


def key_of(x):
    """hashable identity of a scalar (for memo tables)."""
    if is_z3(x):
        return ("z", x.get_id())
    return ("c", x)


# ----------------------------------------------------------------------------------------------
# symbolic arrays
# ----------------------------------------------------------------------------------------------

class SArr:
    __slots__ = ("shape", "kind", "fn", "_memo", "dtype")

    def __init__(self, shape, kind, fn, dtype=None):
        self.shape = tuple(shape)
        self.kind = kind
        self.fn = fn
        self._memo = {}
        self.dtype = dtype

    def at(self, *idx):
        if len(idx) == 1 and isinstance(idx[0], tuple):
            idx = idx[0]
        assert len(idx) == len(self.shape), (idx, self.shape)
        k = tuple(key_of(i) for i in idx)
        hit = self._memo.get(k)
        if hit is None:
            v = self.fn(tuple(idx))
            self._memo[k] = (v, idx)  # keep idx alive so z3 ids stay unique
            return v
        return hit[0]

    @property
    def ndim(self):
        return len(self.shape)

    def concrete(self):
        return all(isinstance(d, int) for d in self.shape)

    def indices(self):
        assert self.concrete(), self.shape
        return itertools.product(*[range(d) for d in self.shape])

    def elems(self):
        return [self.at(i) for i in self.indices()]

    def scalar(self):
        assert self.shape == (), self.shape
        return self.at(())

    def __repr__(self):
        return f"SArr({self.kind}{list(self.shape)})"


def const_arr(val, kind=None):
    a = np.asarray(val)
    if kind is None:
        kind = kind_of_dtype(a.dtype)
    if kind == "f":
        conv = const_float
    elif kind == "b":
        conv = bool
    else:
        conv = int

    def fn(idx):
        if all(isinstance(i, int) for i in idx):
            return conv(a[idx])
        # symbolic index into a constant array: ite chain
        if a.size > 64:
            raise Unsupported("symbolic index into large constant array")
        out = None
        for cidx in itertools.product(*[range(d) for d in a.shape]):
            cond = sand(*[seq(i, c) for i, c in zip(idx, cidx)])
            v = conv(a[cidx])
            out = v if out is None else site(cond, v, out)
        return out

    return SArr(a.shape, kind, fn, dtype=a.dtype)


def kind_of_dtype(dt):
    if jax.dtypes.issubdtype(dt, jax.dtypes.prng_key):
        return "k"
    dt = np.dtype(dt) if not isinstance(dt, np.dtype) else dt
    if dt == jax.dtypes.float0:
        return "f"
    if dt.kind == "f":
        return "f"
    if dt.kind in "iu":
        return "i"
    if dt.kind == "b":
        return "b"
    raise Unsupported(f"dtype {dt}")


def sort_of_kind(kind):
    return {"f": z3.RealSort(), "i": z3.IntSort(), "b": z3.BoolSort(), "k": KeySort}[kind]


def fresh_input(name, shape, kind, dtype=None):
    """Symbolic input array: element (i,j) is the uninterpreted function name(i,j) (a constant for rank 0)."""
    rank = len(shape)
    srt = sort_of_kind(kind)
    if rank == 0:
        c = z3.Const(name, srt)
        return SArr((), kind, lambda idx: c, dtype)
    if all(isinstance(d, int) for d in shape) and int(np.prod(shape)) <= 64:
        def fn(idx):
            if all(isinstance(i, int) for i in idx):
                return z3.Const(name + "[" + ",".join(map(str, idx)) + "]", srt)
            out = None
            for cidx in itertools.product(*[range(d) for d in shape]):
                v = z3.Const(name + "[" + ",".join(map(str, cidx)) + "]", srt)
                cond = sand(*[seq(i, c) for i, c in zip(idx, cidx)])
                out = v if out is None else site(cond, v, out)
            return out
        return SArr(shape, kind, fn, dtype)
    f = z3.Function(name, *([z3.IntSort()] * rank), srt)
    return SArr(shape, kind, lambda idx: f(*[zint(i) for i in idx]), dtype)


# ----------------------------------------------------------------------------------------------
# translation context
# ----------------------------------------------------------------------------------------------

class OpaqueCall:
    def __init__(self, name, levels, operands, outputs, path):
        self.name, self.levels, self.operands, self.outputs, self.path = name, levels, operands, outputs, path


class Reduction:
    def __init__(self, rid, kind, extent, body, sym):
        self.rid, self.kind, self.extent, self.body, self.sym = rid, kind, extent, body, sym


class ScanRecord:
    """A scan with symbolic trip count, encoded by uninterpreted carry sequences (see _scan_symbolic)."""

    def __init__(self):
        self.length = None
        self.reverse = False
        self.carry_at = None  # k -> list[SArr]   carry BEFORE processing step number k (k in 0..length)
        self.body = None  # (carry list[SArr], k) -> (carry', ys) one step at step number k
        self.init = None
        self.xs_at = None
        self.unfolded = set()
        self.name = None


class Ctx:
    """Everything produced while translating one program: assumptions (definitional axioms), opaque call
    records, reductions, scans, dimension variables."""

    def __init__(self, dims=None):
        self.assumptions = []
        self.calls: list[OpaqueCall] = []
        self.reductions: list[Reduction] = []
        self.scans: list[ScanRecord] = []
        self.effects = []
        self.dimenv = dict(dims or {})
        self._ufs = {}
        self._fresh = 0
        self.unfold_depth = 1
        self.path = True
        self.uses_inf = False
        self.unroll_limit = 12
        self.callee_contracts = {}  # opaque name -> callable(ctx, call) adding assumptions / assertions
        self.asserts = []  # (label, formula) proof obligations generated at call sites (callee preconditions)
        self.notes = []

    def fresh(self, prefix):
        self._fresh += 1
        return f"{prefix}!{self._fresh}"

    def uf(self, name, arg_sorts, res_sort):
        k = (name, tuple(s.name() for s in arg_sorts), res_sort.name())
        f = self._ufs.get(k)
        if f is None:
            nm = name if not any(kk[0] == name for kk in self._ufs) else name + "/" + "_".join(k[1])
            f = z3.Function(nm, *arg_sorts, res_sort)
            self._ufs[k] = f
        return f

    def dim(self, d):
        if isinstance(d, (int, np.integer)):
            return int(d)
        if is_z3(d):
            return d
        # jax symbolic dimension expression
        env = {}
        for v in _dim_vars(d):
            if v not in self.dimenv:
                self.dimenv[v] = z3.Int(v)
            env[v] = self.dimenv[v]
        return _eval_dim(d, env)

    def shape(self, shp):
        return tuple(self.dim(d) for d in shp)

    def assume(self, f):
        if is_const(f):
            if not f:
                self.assumptions.append(z3.BoolVal(False))
            return
        self.assumptions.append(f)


def _dim_vars(d):
    try:
        return sorted(d._get_vars())
    except Exception:
        from jax._src.export import shape_poly
        return sorted(shape_poly._DimExpr._get_vars(d))


def _eval_dim(d, env):
    """Evaluate a jax _DimExpr over z3 ints with floor semantics for floordiv/mod (z3's div/mod agree with
    Python's for positive divisors, which is the only case JAX's shape algebra produces here)."""
    from jax._src.export import shape_poly as sp

    if isinstance(d, (int, np.integer)):
        return int(d)
    out = 0
    for term, coeff in d._sorted_terms:
        t = int(coeff)
        for factor, exp in term._factors:
            fv = _eval_factor(factor, env)
            for _ in range(exp):
                t = smul(t, fv)
        out = sadd(out, t)
    return out


def _eval_factor(f, env):
    from jax._src.export import shape_poly as sp

    if f.var is not None:
        return env[f.var]
    ops = [_eval_dim(o, env) if not isinstance(o, (int, np.integer)) else int(o) for o in f.operands]
    op = f.operation
    if op == sp._DimFactor.FLOORDIV:
        a, b = ops
        if is_const(a) and is_const(b):
            return a // b
        return zint(a) / zint(b)
    if op == sp._DimFactor.MOD:
        a, b = ops
        if is_const(a) and is_const(b):
            return a % b
        return zint(a) % zint(b)
    if op == sp._DimFactor.MAX:
        return smax(*ops)
    if op == sp._DimFactor.MIN:
        return smin(*ops)
    if op == sp._DimFactor.NON_NEGATIVE:
        return smax(ops[0], 0)
    raise Unsupported(f"dim op {op}")


# ----------------------------------------------------------------------------------------------
# primitive rules
# ----------------------------------------------------------------------------------------------

RULES = {}


def rule(*names):
    def deco(f):
        for n in names:
            RULES[n] = f
        return f
    return deco


def out_shape(ctx, eqn, j=0):
    return ctx.shape(eqn.outvars[j].aval.shape)


def out_kind(eqn, j=0):
    return kind_of_dtype(eqn.outvars[j].aval.dtype)


def _bcast_scalar(x, shape):
    """jaxpr literals may be rank-0 while the other operand has rank>0 only via explicit broadcast, but
    weak-typed scalars show up as rank-0 operands of elementwise ops."""
    if x.shape == shape:
        return x
    if x.shape == ():
        return SArr(shape, x.kind, lambda idx: x.at(()), x.dtype)
    if len(x.shape) == len(shape) and all((isinstance(d, int) and d == 1) or key_of(d) == key_of(e) for d, e in zip(x.shape, shape)):
        ones = [isinstance(d, int) and d == 1 and not (isinstance(e, int) and e == 1) for d, e in zip(x.shape, shape)]
        return SArr(shape, x.kind, lambda idx: x.at(tuple(0 if o else i for o, i in zip(ones, idx))), x.dtype)
    raise Unsupported(f"implicit broadcast {x.shape} -> {shape}")


def elementwise(op, kind=None):
    def r(ctx, eqn, *xs):
        shp = out_shape(ctx, eqn)
        k = kind or out_kind(eqn)
        try:
            xs = [_bcast_scalar(x, shp) for x in xs]
        except Unsupported as e:
            raise Unsupported(f"{e} in {eqn.primitive.name} {[str(v.aval) for v in eqn.invars]}")
        return [SArr(shp, k, lambda idx: op(*[x.at(idx) for x in xs]), eqn.outvars[0].aval.dtype)]
    return r


def _and(a, b):
    return sand(a, b)


def _or(a, b):
    return sor(a, b)


RULES["add"] = elementwise(sadd)
RULES["add_any"] = elementwise(sadd)
RULES["sub"] = elementwise(ssub)
RULES["neg"] = elementwise(sneg)
RULES["max"] = elementwise(lambda a, b: sor(a, b) if _is_boolish(a, b) else smax(a, b))
RULES["min"] = elementwise(lambda a, b: sand(a, b) if _is_boolish(a, b) else smin(a, b))
RULES["eq"] = elementwise(seq)
RULES["ne"] = elementwise(sne)
RULES["lt"] = elementwise(slt)
RULES["le"] = elementwise(sle)
RULES["le_to"] = elementwise(sle)  # total-order comparisons (sort / searchsorted): identical to le / lt on non-NaN reals (A-REAL)
RULES["lt_to"] = elementwise(slt)
RULES["gt"] = elementwise(sgt)
RULES["ge"] = elementwise(sge)
RULES["stop_gradient"] = elementwise(lambda a: a)
RULES["copy"] = elementwise(lambda a: a)
RULES["copy_p"] = elementwise(lambda a: a)
RULES["real"] = elementwise(lambda a: a)
RULES["reduce_precision"] = elementwise(lambda a: a)
RULES["optimization_barrier"] = None  # set below


def _is_boolish(a, b):
    return isinstance(a, bool) or isinstance(b, bool) or (is_z3(a) and z3.is_bool(a)) or (is_z3(b) and z3.is_bool(b))


@rule("mul")
def _mul(ctx, eqn, a, b):
    if out_kind(eqn) == "b":
        return elementwise(_and)(ctx, eqn, a, b)
    return elementwise(smul)(ctx, eqn, a, b)


@rule("and")
def _and_rule(ctx, eqn, a, b):
    if out_kind(eqn) != "b":
        return elementwise(_int_bitop(ctx, "and"))(ctx, eqn, a, b)
    return elementwise(_and)(ctx, eqn, a, b)


def _int_bitop(ctx, name):
    """Bitwise and / or on INTEGERS: an uninterpreted commutative function with the facts that hold for non-negative operands (or: >= both operands, or(x, 0) = x;
    and: <= both operands, and(x, 0) = 0).  An abstraction: obligations that mention it are `abstraction_incomplete` (a counter-model is a candidate only)."""
    f = ctx.uf(f"int_{name}", [z3.IntSort(), z3.IntSort()], z3.IntSort())
    ctx.__dict__.setdefault("abstract_ufs", set()).add(f"int_{name}")

    def op(x, y):
        if is_const(x) and is_const(y):
            return (int(x) | int(y)) if name == "or" else (int(x) & int(y))
        x, y = zint(x), zint(y)
        lo, hi = (x, y) if x.get_id() <= y.get_id() else (y, x)     # commutativity by argument ordering
        r = f(lo, hi)
        nn = z3.And(x >= 0, y >= 0)
        if name == "or":
            ctx.assume(z3.Implies(nn, z3.And(r >= x, r >= y, r <= x + y)))
            ctx.assume(z3.And(z3.Implies(x == 0, r == y), z3.Implies(y == 0, r == x)))
        else:
            ctx.assume(z3.Implies(nn, z3.And(r <= x, r <= y, r >= 0)))
            ctx.assume(z3.And(z3.Implies(x == 0, r == 0), z3.Implies(y == 0, r == 0)))
        return r
    return op


@rule("or")
def _or_rule(ctx, eqn, a, b):
    if out_kind(eqn) != "b":
        return elementwise(_int_bitop(ctx, "or"))(ctx, eqn, a, b)
    return elementwise(_or)(ctx, eqn, a, b)


@rule("xor")
def _xor_rule(ctx, eqn, a, b):
    if out_kind(eqn) != "b":
        raise Unsupported("bitwise xor on integers")
    return elementwise(lambda x, y: sne(x, y))(ctx, eqn, a, b)


@rule("not")
def _not_rule(ctx, eqn, a):
    if out_kind(eqn) != "b":
        raise Unsupported("bitwise not on integers")
    return elementwise(snot)(ctx, eqn, a)


@rule("div")
def _div(ctx, eqn, a, b):
    if out_kind(eqn) == "f":
        return elementwise(sdiv_real)(ctx, eqn, a, b)
    # integer division truncates toward zero (lax.div)
    def idiv(x, y):
        if is_const(x) and is_const(y) and y != 0:
            q = abs(x) // abs(y)
            return q if (x >= 0) == (y >= 0) else -q
        x, y = zint(x), zint(y)
        # truncation toward zero from z3's euclidean division
        q = x / y
        return z3.If(z3.And(x < 0, x % y != 0), z3.If(y > 0, q + 1, q - 1), q)
    return elementwise(idiv)(ctx, eqn, a, b)


@rule("rem")
def _rem(ctx, eqn, a, b):
    if out_kind(eqn) == "f":
        # lax.rem on floats = C fmod: a - b*trunc(a/b); encoded with an integer quotient witness
        def frem(x, y):
            x, y = zreal(x), zreal(y)
            # the integer quotient trunc(x / y) is a FUNCTION of (x, y): equal operands give equal quotients (needed for relational obligations)
            q = ctx.uf("fmodq", [z3.RealSort(), z3.RealSort()], z3.IntSort())(x, y)
            ctx.__dict__.setdefault("fmod_quotients", []).append(q)
            r = x - y * z3.ToReal(q)
            ay = z3.If(y >= 0, y, -y)
            ctx.assume(z3.Implies(y != 0, z3.And(z3.If(x >= 0, z3.And(r >= 0, r < ay), z3.And(r <= 0, r > -ay)))))
            return r
        return elementwise(frem)(ctx, eqn, a, b)

    def irem(x, y):
        if is_const(x) and is_const(y) and y != 0:
            return int(math.fmod(x, y))
        x, y = zint(x), zint(y)
        m = x % y  # euclidean, in [0, |y|)
        return z3.If(z3.And(x < 0, m != 0), m - z3.If(y > 0, y, -y), m)
    return elementwise(irem)(ctx, eqn, a, b)


@rule("sign")
def _sign(ctx, eqn, a):
    return elementwise(lambda x: site(sgt(x, 0), 1, site(slt(x, 0), -1, 0)))(ctx, eqn, a)


@rule("abs")
def _abs(ctx, eqn, a):
    return elementwise(lambda x: abs(x) if is_const(x) else site(sge(x, 0), x, sneg(x)))(ctx, eqn, a)


@rule("square")
def _square(ctx, eqn, a):
    return elementwise(lambda x: smul(x, x))(ctx, eqn, a)


@rule("integer_pow")
def _ipow(ctx, eqn, a):
    y = eqn.params["y"]

    def p(x):
        if y >= 0:
            out = 1
            for _ in range(y):
                out = smul(out, x)
            return out
        out = 1
        for _ in range(-y):
            out = smul(out, x)
        return sdiv_real(1, out)
    return elementwise(p)(ctx, eqn, a)


def _unary_uf(name, axioms=None):
    def r(ctx, eqn, a):
        f = ctx.uf(name, [z3.RealSort()], z3.RealSort())

        def app(x):
            t = f(zreal(x))
            if axioms:
                axioms(ctx, f, zreal(x), t)
            return t
        return elementwise(app)(ctx, eqn, a)
    return r


def _exp_ax(ctx, f, x, t):
    ctx.assume(t > 0)
    ctx.assume(z3.Implies(x == 0, t == 1))
    ctx.assume(z3.Implies(x > 0, t > 1))
    ctx.assume(z3.Implies(x < 0, t < 1))
    ctx.note_transc("exp", x, t)


def _log_ax(ctx, f, x, t):
    ctx.assume(z3.Implies(x == 1, t == 0))
    ctx.assume(z3.Implies(x > 1, t > 0))
    ctx.assume(z3.Implies(z3.And(x > 0, x < 1), t < 0))
    ctx.note_transc("log", x, t)


def _trig_ax(ctx, f, x, t):
    ctx.assume(z3.And(t >= -1, t <= 1))


def _logistic_ax(ctx, f, x, t):
    ctx.assume(z3.And(t > 0, t < 1))


def _tanh_ax(ctx, f, x, t):
    ctx.assume(z3.And(t > -1, t < 1))


def _sqrt_ax(ctx, f, x, t):
    ctx.assume(z3.Implies(x >= 0, z3.And(t >= 0, t * t == x)))


def _note_transc(self, name, x, t):
    lst = self.__dict__.setdefault("transc", [])
    lst.append((name, x, t))


Ctx.note_transc = _note_transc

RULES["exp"] = _unary_uf("exp", _exp_ax)
RULES["log"] = _unary_uf("log", _log_ax)
RULES["sin"] = _unary_uf("sin", _trig_ax)
RULES["cos"] = _unary_uf("cos", _trig_ax)
RULES["tanh"] = _unary_uf("tanh", _tanh_ax)
RULES["logistic"] = _unary_uf("logistic", _logistic_ax)
RULES["sqrt"] = _unary_uf("sqrt", _sqrt_ax)
RULES["log1p"] = _unary_uf("log1p")
RULES["expm1"] = _unary_uf("expm1")
RULES["erf"] = _unary_uf("erf")
RULES["erf_inv"] = _unary_uf("erf_inv")
RULES["lgamma"] = _unary_uf("lgamma")
RULES["is_finite"] = None  # below
RULES["tan"] = _unary_uf("tan")
RULES["asin"] = _unary_uf("asin")
RULES["acos"] = _unary_uf("acos")
RULES["atan"] = _unary_uf("atan")


@rule("rsqrt")
def _rsqrt(ctx, eqn, a):
    f = ctx.uf("sqrt", [z3.RealSort()], z3.RealSort())

    def app(x):
        x = zreal(x)
        t = f(x)
        _sqrt_ax(ctx, f, x, t)
        return 1 / t
    return elementwise(app)(ctx, eqn, a)


@rule("pow")
def _pow(ctx, eqn, a, b):
    f = ctx.uf("pow", [z3.RealSort(), z3.RealSort()], z3.RealSort())
    return elementwise(lambda x, y: f(zreal(x), zreal(y)))(ctx, eqn, a, b)


@rule("atan2")
def _atan2(ctx, eqn, a, b):
    f = ctx.uf("atan2", [z3.RealSort(), z3.RealSort()], z3.RealSort())
    return elementwise(lambda x, y: f(zreal(x), zreal(y)))(ctx, eqn, a, b)


@rule("is_finite")
def _is_finite(ctx, eqn, a):
    # real model: every real other than the symbolic +-INF and NAN constants is finite
    def fin(x):
        if is_const(x):
            return True
        ctx.uses_inf = True
        return z3.And(x < INF, x > -INF)
    return elementwise(fin, "b")(ctx, eqn, a)


@rule("floor")
def _floor(ctx, eqn, a):
    def fl(x):
        if is_const(x):
            return Fraction(math.floor(x))
        return z3.ToReal(z3.ToInt(zreal(x)))
    return elementwise(fl)(ctx, eqn, a)


@rule("ceil")
def _ceil(ctx, eqn, a):
    def cl(x):
        if is_const(x):
            return Fraction(math.ceil(x))
        return -z3.ToReal(z3.ToInt(-zreal(x)))
    return elementwise(cl)(ctx, eqn, a)


@rule("round")
def _round(ctx, eqn, a):
    f = ctx.uf("round", [z3.RealSort()], z3.RealSort())
    return elementwise(lambda x: f(zreal(x)))(ctx, eqn, a)


@rule("select_n")
def _select_n(ctx, eqn, which, *cases):
    shp = out_shape(ctx, eqn)
    which = _bcast_scalar(which, shp)

    def fn(idx):
        w = which.at(idx)
        if which.kind == "b":
            return site(w, cases[1].at(idx), cases[0].at(idx))
        out = cases[-1].at(idx)
        for j in range(len(cases) - 2, -1, -1):
            out = site(seq(w, j), cases[j].at(idx), out)
        return out
    return [SArr(shp, out_kind(eqn), fn, eqn.outvars[0].aval.dtype)]


@rule("clamp")
def _clamp(ctx, eqn, lo, x, hi):
    shp = out_shape(ctx, eqn)
    lo, hi = _bcast_scalar(lo, shp), _bcast_scalar(hi, shp)
    return [SArr(shp, out_kind(eqn), lambda idx: smin(smax(x.at(idx), lo.at(idx)), hi.at(idx)), eqn.outvars[0].aval.dtype)]


@rule("convert_element_type")
def _convert(ctx, eqn, a):
    src, dst = a.kind, out_kind(eqn)

    def conv(x):
        if src == dst:
            return x
        if src == "b":
            return site(x, 1, 0) if dst == "i" else site(x, Fraction(1), Fraction(0))
        if src == "i" and dst == "f":
            return Fraction(x) if is_const(x) else z3.ToReal(x)
        if src == "f" and dst == "i":
            if is_const(x):
                return int(x)
            x = zreal(x)  # truncation toward zero
            return z3.If(x >= 0, z3.ToInt(x), -z3.ToInt(-x))
        if dst == "b":
            return sne(x, 0)
        raise Unsupported(f"convert {src}->{dst}")
    return elementwise(conv)(ctx, eqn, a)


@rule("broadcast_in_dim")
def _bid(ctx, eqn, a, *dyn):
    shp = out_shape(ctx, eqn)
    bd = eqn.params["broadcast_dimensions"]
    in_shape = a.shape

    def fn(idx):
        sub = []
        for k, d in enumerate(bd):
            sub.append(0 if (isinstance(in_shape[k], int) and in_shape[k] == 1) else idx[d])
        return a.at(tuple(sub))
    return [SArr(shp, a.kind, fn, a.dtype)]


def _unravel(ctx, flat, shape):
    """flat index -> index tuple in row-major `shape` (possibly symbolic extents)."""
    idx = []
    rem = flat
    for k in range(len(shape) - 1, -1, -1):
        d = shape[k]
        if k == 0:
            idx.append(rem)
        else:
            if is_const(rem) and is_const(d):
                idx.append(rem % d)
                rem = rem // d
            elif is_const(d) and d == 1:
                idx.append(0)
            else:
                # rem, d nonneg: z3 euclidean div/mod coincide with floor
                idx.append(zint(rem) % zint(d))
                rem = zint(rem) / zint(d)
    return tuple(reversed(idx))


def _ravel(idx, shape):
    flat = 0
    for i, d in zip(idx, shape):
        flat = sadd(smul(flat, d), i)
    return flat


@rule("reshape")
def _reshape(ctx, eqn, a, *dyn):
    shp = out_shape(ctx, eqn)
    in_shape = a.shape
    # fast paths: adding/removing unit dims
    nz_in = [d for d in in_shape if not (isinstance(d, int) and d == 1)]
    nz_out = [d for d in shp if not (isinstance(d, int) and d == 1)]
    if len(nz_in) == len(nz_out) and all(key_of(x) == key_of(y) for x, y in zip(nz_in, nz_out)):
        pos_in = [k for k, d in enumerate(in_shape) if not (isinstance(d, int) and d == 1)]
        pos_out = [k for k, d in enumerate(shp) if not (isinstance(d, int) and d == 1)]

        def fn(idx):
            sub = [0] * len(in_shape)
            for pi, po in zip(pos_in, pos_out):
                sub[pi] = idx[po]
            return a.at(tuple(sub))
        return [SArr(shp, a.kind, fn, a.dtype)]

    def fn2(idx):
        flat = _ravel(idx, shp)
        return a.at(_unravel(ctx, flat, in_shape))
    return [SArr(shp, a.kind, fn2, a.dtype)]


@rule("squeeze")
def _squeeze(ctx, eqn, a):
    dims = set(d % max(a.ndim, 1) for d in eqn.params["dimensions"])
    shp = out_shape(ctx, eqn)

    def fn(idx):
        it = iter(idx)
        return a.at(tuple(0 if k in dims else next(it) for k in range(a.ndim)))
    return [SArr(shp, a.kind, fn, a.dtype)]


@rule("expand_dims")
def _expand(ctx, eqn, a):
    dims = set(eqn.params["dimensions"])
    shp = out_shape(ctx, eqn)
    return [SArr(shp, a.kind, lambda idx: a.at(tuple(i for k, i in enumerate(idx) if k not in dims)), a.dtype)]


@rule("transpose")
def _transpose(ctx, eqn, a):
    perm = eqn.params["permutation"]
    shp = out_shape(ctx, eqn)

    def fn(idx):
        sub = [None] * len(perm)
        for k, p in enumerate(perm):
            sub[p] = idx[k]
        return a.at(tuple(sub))
    return [SArr(shp, a.kind, fn, a.dtype)]


@rule("rev")
def _rev(ctx, eqn, a):
    dims = set(eqn.params["dimensions"])
    shp = out_shape(ctx, eqn)
    return [SArr(shp, a.kind, lambda idx: a.at(tuple(ssub(ssub(shp[k], 1), i) if k in dims else i for k, i in enumerate(idx))), a.dtype)]


@rule("concatenate")
def _concat(ctx, eqn, *xs):
    ax = eqn.params["dimension"]
    shp = out_shape(ctx, eqn)
    pieces = []
    offs = 0
    for x in xs:
        pieces.append((offs, x.shape[ax], x))
        offs = sadd(offs, x.shape[ax])

    def fn(idx):
        i = idx[ax]

        def ev(p):
            o, n, x = pieces[p]
            sub = tuple(ssub(i, o) if k == ax else j for k, j in enumerate(idx))
            if p == len(pieces) - 1:
                return x.at(sub)
            inside = slt(i, sadd(o, n))
            if is_const(inside):
                return x.at(sub) if inside else ev(p + 1)
            return site(inside, x.at(sub), ev(p + 1))
        return ev(0)
    return [SArr(shp, xs[0].kind, fn, xs[0].dtype)]


@rule("pad")
def _pad(ctx, eqn, a, pv):
    cfg = eqn.params["padding_config"]
    shp = out_shape(ctx, eqn)
    if any(c[2] != 0 for c in cfg):
        raise Unsupported("interior padding")

    def fn(idx):
        sub = tuple(ssub(i, ctx.dim(c[0])) for i, c in zip(idx, cfg))
        inside = sand(*[sand(sge(s, 0), slt(s, d)) for s, d in zip(sub, a.shape)])
        if is_const(inside):
            return a.at(sub) if inside else pv.at(())
        return site(inside, a.at(sub), pv.at(()))
    return [SArr(shp, a.kind, fn, a.dtype)]


@rule("slice")
def _slice(ctx, eqn, a):
    starts = [ctx.dim(s) for s in eqn.params["start_indices"]]
    strides = eqn.params["strides"] or [1] * len(starts)
    shp = out_shape(ctx, eqn)
    return [SArr(shp, a.kind, lambda idx: a.at(tuple(sadd(s, smul(i, st)) for s, i, st in zip(starts, idx, strides))), a.dtype)]


def _clamp_index(i, lo, hi):
    return smin(smax(i, lo), hi)


@rule("dynamic_slice")
def _dynamic_slice(ctx, eqn, a, *starts):
    sizes = [ctx.dim(s) for s in eqn.params["slice_sizes"]]
    shp = out_shape(ctx, eqn)
    st = [_clamp_index(s.at(()), 0, ssub(d, n)) for s, d, n in zip(starts, a.shape, sizes)]
    return [SArr(shp, a.kind, lambda idx: a.at(tuple(sadd(s, i) for s, i in zip(st, idx))), a.dtype)]


@rule("dynamic_update_slice")
def _dus(ctx, eqn, a, upd, *starts):
    shp = out_shape(ctx, eqn)
    st = [_clamp_index(s.at(()), 0, ssub(d, n)) for s, d, n in zip(starts, a.shape, upd.shape)]

    def fn(idx):
        rel = tuple(ssub(i, s) for i, s in zip(idx, st))
        inside = sand(*[sand(sge(r, 0), slt(r, n)) for r, n in zip(rel, upd.shape)])
        if is_const(inside):
            return upd.at(rel) if inside else a.at(idx)
        return site(inside, upd.at(rel), a.at(idx))
    return [SArr(shp, a.kind, fn, a.dtype)]


@rule("iota")
def _iota(ctx, eqn):
    shp = out_shape(ctx, eqn)
    d = eqn.params["dimension"]
    k = out_kind(eqn)
    return [SArr(shp, k, lambda idx: idx[d] if k == "i" else (Fraction(idx[d]) if is_const(idx[d]) else z3.ToReal(idx[d])), eqn.outvars[0].aval.dtype)]


@rule("dim_as_value")
def _dim_as_value(ctx, eqn):
    d = ctx.dim(eqn.params["dim"])
    return [SArr((), "i", lambda idx: d, eqn.outvars[0].aval.dtype)]


@rule("gather")
def _gather(ctx, eqn, a, indices):
    dn = eqn.params["dimension_numbers"]
    slice_sizes = [ctx.dim(s) for s in eqn.params["slice_sizes"]]
    mode = eqn.params["mode"]
    shp = out_shape(ctx, eqn)
    offset_dims = tuple(dn.offset_dims)
    collapsed = tuple(dn.collapsed_slice_dims)
    start_index_map = tuple(dn.start_index_map)
    operand_batching = tuple(getattr(dn, "operand_batching_dims", ()))
    indices_batching = tuple(getattr(dn, "start_indices_batching_dims", ()))
    out_rank = len(shp)
    batch_dims_out = [d for d in range(out_rank) if d not in offset_dims]
    # operand dims that carry an offset (not collapsed, not batching)
    offset_operand_dims = [d for d in range(a.ndim) if d not in collapsed and d not in operand_batching]
    mode_s = str(mode)
    clip = "CLIP" in mode_s or "PROMISE" in mode_s
    fill = "FILL" in mode_s or "DROP" in mode_s

    def fn(idx):
        bidx = tuple(idx[d] for d in batch_dims_out)  # index into indices[..., :-1]
        full = [0] * a.ndim
        for od, opd in zip(offset_dims, offset_operand_dims):
            full[opd] = idx[od]
        # batching dims
        for opd, ibd in zip(operand_batching, indices_batching):
            full[opd] = bidx[ibd] if ibd < len(bidx) else 0
        ok = True
        for k, opd in enumerate(start_index_map):
            s = indices.at(bidx + (k,))
            if clip:
                s = _clamp_index(s, 0, ssub(a.shape[opd], slice_sizes[opd]))
            else:
                ok = sand(ok, sge(s, 0), sle(s, ssub(a.shape[opd], slice_sizes[opd])))
            full[opd] = sadd(full[opd], s)
        v = None
        if fill and not (is_const(ok) and ok):
            fv = eqn.params.get("fill_value")
            if fv is None:
                fv = NAN if a.kind == "f" else (False if a.kind == "b" else -(2 ** 31))
            if is_const(ok) and not ok:
                return fv
            return site(ok, a.at(tuple(full)), fv)
        return a.at(tuple(full))
    return [SArr(shp, a.kind, fn, a.dtype)]


def _scatter_generic(combine):
    def r(ctx, eqn, a, indices, updates):
        dn = eqn.params["dimension_numbers"]
        shp = out_shape(ctx, eqn)
        uwd = tuple(int(d) for d in dn.update_window_dims)
        iwd = tuple(int(d) for d in dn.inserted_window_dims)
        sdtod = tuple(int(d) for d in dn.scatter_dims_to_operand_dims)
        obd = tuple(int(d) for d in getattr(dn, "operand_batching_dims", ()))
        ibd = tuple(int(d) for d in getattr(dn, "scatter_indices_batching_dims", ()))
        upd_scatter_dims = [d for d in range(updates.ndim) if d not in uwd]  # correspond 1-1 to indices dims (all but the last)
        window_operand_dims = [d for d in range(a.ndim) if d not in iwd and d not in obd]
        # scatter dims that are batching dims are FORCED to the output's batch coordinate; the others are enumerated
        free_pos = [k for k in range(len(upd_scatter_dims)) if k not in ibd]
        scat_shape = [updates.shape[upd_scatter_dims[k]] for k in free_pos]
        if not all(isinstance(d, int) for d in scat_shape):
            if obd:
                raise Unsupported("batched scatter with symbolic number of scatter points")
            return _scatter_symbolic(ctx, eqn, a, indices, updates, combine, uwd, iwd, sdtod, upd_scatter_dims, window_operand_dims, [updates.shape[d] for d in upd_scatter_dims])
        mode_s = str(eqn.params["mode"])
        clip = "CLIP" in mode_s
        points = list(itertools.product(*[range(d) for d in scat_shape]))
        if len(points) > 64:
            raise Unsupported("scatter with many points")

        def fn(idx):
            val = a.at(idx)
            for fp in points:
                p = [None] * len(upd_scatter_dims)
                for k, v in zip(free_pos, fp):
                    p[k] = v
                for od, ib in zip(obd, ibd):
                    p[ib] = idx[od]
                start = [0] * a.ndim
                for k, opd in enumerate(sdtod):
                    start[opd] = indices.at(tuple(p) + (k,))
                wext = {opd: updates.shape[ud] for ud, opd in zip(uwd, window_operand_dims)}
                conds = []
                uidx = [None] * updates.ndim
                for sd_, pi in zip(upd_scatter_dims, p):
                    uidx[sd_] = pi
                inb = True
                for opd in range(a.ndim):
                    if opd in obd:
                        continue
                    if opd in iwd:
                        s = start[opd]
                        if clip:
                            s = _clamp_index(s, 0, ssub(a.shape[opd], 1))
                        else:
                            inb = sand(inb, sge(s, 0), slt(s, a.shape[opd]))
                        conds.append(seq(idx[opd], s))
                    else:
                        ud = uwd[window_operand_dims.index(opd)]
                        ext = wext[opd]
                        s = start[opd]
                        if clip:
                            s = _clamp_index(s, 0, ssub(a.shape[opd], ext))
                        else:
                            inb = sand(inb, sge(s, 0), sle(s, ssub(a.shape[opd], ext)))
                        rel = ssub(idx[opd], s)
                        conds.append(sand(sge(rel, 0), slt(rel, ext)))
                        uidx[ud] = rel
                hit = sand(inb, *conds)
                if is_const(hit):
                    if hit:
                        val = combine(val, updates.at(tuple(uidx)))
                else:
                    val = site(hit, combine(val, updates.at(tuple(uidx))), val)
            return val
        return [SArr(shp, a.kind, fn, a.dtype)]
    return r


def _scatter_symbolic(ctx, eqn, a, indices, updates, combine, uwd, iwd, sdtod, upd_scatter_dims, window_operand_dims, scat_shape):
    """scatter-add with a symbolic number of scatter points (one scatter axis, no window):
    out[idx] = a[idx] + SUM_p [indices[p] == idx] * updates[p]   (a reduction over the symbolic extent)."""
    if eqn.primitive.name not in ("scatter-add", "scatter_add") or len(scat_shape) != 1 or uwd:
        raise Unsupported("scatter with symbolic number of scatter points (only windowless scatter-add is modelled)")
    shp = out_shape(ctx, eqn)
    ext = scat_shape[0]

    def fn(idx):
        def body(p):
            hit = sand(*[seq(idx[opd], indices.at((p, k))) for k, opd in enumerate(sdtod)])
            return site(hit, updates.at((p,)), 0 if a.kind == "i" else Fraction(0))
        rid = len(ctx.reductions)
        sym = z3.Const(ctx.fresh("red_scatter"), sort_of_kind(a.kind))
        ctx.reductions.append(Reduction(rid, "sum", ext, body, sym))
        return sadd(a.at(idx), sym)
    return [SArr(shp, a.kind, fn, a.dtype)]


RULES["scatter"] = _scatter_generic(lambda old, new: new)
RULES["scatter-add"] = _scatter_generic(lambda old, new: sadd(old, new))
RULES["scatter_add"] = RULES["scatter-add"]


def _reduce(kind):
    def r(ctx, eqn, a, *rest):
        axes = tuple(eqn.params["axes"])
        shp = out_shape(ctx, eqn)
        ok = out_kind(eqn)
        red_ext = [a.shape[x] for x in axes]
        concrete = all(isinstance(d, int) for d in red_ext)

        def full_index(idx, ridx):
            it_o, it_r = iter(idx), iter(ridx)
            return tuple(next(it_r) if k in axes else next(it_o) for k in range(a.ndim))

        if concrete:
            def fn(idx):
                vals = [a.at(full_index(idx, r)) for r in itertools.product(*[range(d) for d in red_ext])]
                return fold(kind, vals, ok)
            return [SArr(shp, ok, fn, eqn.outvars[0].aval.dtype)]
        sym_pos = [k for k, d in enumerate(red_ext) if not isinstance(d, int)]
        if len(sym_pos) != 1:
            raise Unsupported("reduction over several symbolic axes")
        sp = sym_pos[0]
        ext = red_ext[sp]
        conc = [d for k, d in enumerate(red_ext) if k != sp]

        def fn_sym(idx):
            rid = len(ctx.reductions)
            sym = z3.Const(ctx.fresh(f"red_{kind}"), sort_of_kind(ok))

            def body(j):
                vals = []
                for c in itertools.product(*[range(d) for d in conc]):
                    ridx = list(c)
                    ridx.insert(sp, j)
                    vals.append(a.at(full_index(idx, tuple(ridx))))
                return fold(kind, vals, ok)
            ctx.reductions.append(Reduction(rid, kind, ext, body, sym))
            return sym
        return [SArr(shp, ok, fn_sym, eqn.outvars[0].aval.dtype)]
    return r


def fold(kind, vals, ok):
    if not vals:
        return {"sum": 0, "max": -INF, "min": INF, "and": True, "or": False, "prod": 1}[kind]
    out = vals[0]
    for v in vals[1:]:
        if kind == "sum":
            out = sadd(out, v)
        elif kind == "prod":
            out = smul(out, v)
        elif kind == "max":
            out = sor(out, v) if ok == "b" else smax(out, v)
        elif kind == "min":
            out = sand(out, v) if ok == "b" else smin(out, v)
        elif kind == "and":
            out = sand(out, v)
        elif kind == "or":
            out = sor(out, v)
    return out


RULES["reduce_sum"] = _reduce("sum")
RULES["reduce_prod"] = _reduce("prod")
RULES["reduce_max"] = _reduce("max")
RULES["reduce_min"] = _reduce("min")
RULES["reduce_and"] = _reduce("and")
RULES["reduce_or"] = _reduce("or")


@rule("argmax", "argmin")
def _argmax(ctx, eqn, a):
    axes = eqn.params["axes"]
    if len(axes) != 1:
        raise Unsupported("argmax over several axes")
    ax = axes[0]
    n = a.shape[ax]
    shp = out_shape(ctx, eqn)
    is_max = eqn.primitive.name == "argmax"
    if not isinstance(n, int):
        raise Unsupported("argmax over symbolic extent")

    def fn(idx):
        def full(j):
            return tuple(list(idx[:ax]) + [j] + list(idx[ax:]))
        # first maximal index (lax.argmax tie-breaking); NaN handling not modelled (A-REAL)
        best_i, best_v = 0, a.at(full(0))
        for j in range(1, n):
            v = a.at(full(j))
            better = sgt(v, best_v) if is_max else slt(v, best_v)
            best_i = site(better, j, best_i)
            best_v = site(better, v, best_v)
        return best_i
    return [SArr(shp, "i", fn, eqn.outvars[0].aval.dtype)]


@rule("cumsum")
def _cumsum(ctx, eqn, a):
    ax = eqn.params["axis"]
    rev = eqn.params.get("reverse", False)
    n = a.shape[ax]
    if not isinstance(n, int):
        raise Unsupported("cumsum over symbolic extent")
    shp = out_shape(ctx, eqn)

    def fn(idx):
        i = idx[ax]
        if not is_const(i):
            # symbolic position into a concrete extent: ite chain over the positions
            if n > 64:
                raise Unsupported("cumsum at symbolic index over a large extent")
            out = None
            for c in range(n - 1, -1, -1):
                v = fn(tuple(list(idx[:ax]) + [c] + list(idx[ax + 1:])))
                out = v if out is None else site(seq(i, c), v, out)
            return out
        rng = range(i, n) if rev else range(0, i + 1)
        out = 0
        for j in rng:
            out = sadd(out, a.at(tuple(list(idx[:ax]) + [j] + list(idx[ax + 1:]))))
        return out
    return [SArr(shp, a.kind, fn, a.dtype)]


@rule("dot_general")
def _dot_general(ctx, eqn, a, b):
    (lc, rc), (lb, rb) = eqn.params["dimension_numbers"]
    shp = out_shape(ctx, eqn)
    ext = [a.shape[d] for d in lc]
    if not all(isinstance(d, int) for d in ext):
        raise Unsupported("dot_general with symbolic contraction")
    l_free = [d for d in range(a.ndim) if d not in lc and d not in lb]
    r_free = [d for d in range(b.ndim) if d not in rc and d not in rb]

    def fn(idx):
        nb = len(lb)
        bidx = idx[:nb]
        lidx = idx[nb:nb + len(l_free)]
        ridx = idx[nb + len(l_free):]
        out = 0
        for c in itertools.product(*[range(d) for d in ext]):
            ai = [None] * a.ndim
            bi = [None] * b.ndim
            for d, v in zip(lb, bidx):
                ai[d] = v
            for d, v in zip(rb, bidx):
                bi[d] = v
            for d, v in zip(l_free, lidx):
                ai[d] = v
            for d, v in zip(r_free, ridx):
                bi[d] = v
            for d, v in zip(lc, c):
                ai[d] = v
            for d, v in zip(rc, c):
                bi[d] = v
            out = sadd(out, smul(a.at(tuple(ai)), b.at(tuple(bi))))
        return out
    return [SArr(shp, out_kind(eqn), fn, eqn.outvars[0].aval.dtype)]


@rule("sort")
def _sort(ctx, eqn, *xs):
    raise Unsupported("sort")


# ---- keys -------------------------------------------------------------------------------------

@rule("random_split")
def _random_split(ctx, eqn, k):
    shp = out_shape(ctx, eqn)
    nshape = eqn.params["shape"]
    if len(nshape) != 1:
        raise Unsupported("random_split with multi-dim shape")
    n = ctx.dim(nshape[0])
    f = ctx.uf("split", [KeySort, z3.IntSort(), z3.IntSort()], KeySort)
    return [SArr(shp, "k", lambda idx: f(k.at(idx[:-1]), zint(n), zint(idx[-1])), eqn.outvars[0].aval.dtype)]


@rule("random_fold_in")
def _random_fold_in(ctx, eqn, k, d):
    shp = out_shape(ctx, eqn)
    f = ctx.uf("fold_in", [KeySort, z3.IntSort()], KeySort)
    k, d = _bcast_scalar(k, shp), _bcast_scalar(d, shp)
    return [SArr(shp, "k", lambda idx: f(k.at(idx), zint(d.at(idx))), eqn.outvars[0].aval.dtype)]


@rule("random_seed")
def _random_seed(ctx, eqn, s):
    shp = out_shape(ctx, eqn)
    f = ctx.uf("seed", [z3.IntSort()], KeySort)
    return [SArr(shp, "k", lambda idx: f(zint(s.at(idx))), eqn.outvars[0].aval.dtype)]


@rule("random_wrap")
def _random_wrap(ctx, eqn, d):
    shp = out_shape(ctx, eqn)
    f = ctx.uf("wrap", [z3.IntSort(), z3.IntSort()], KeySort)
    return [SArr(shp, "k", lambda idx: f(zint(d.at(idx + (0,))), zint(d.at(idx + (1,)))), eqn.outvars[0].aval.dtype)]


@rule("random_unwrap")
def _random_unwrap(ctx, eqn, k):
    shp = out_shape(ctx, eqn)
    f = ctx.uf("unwrap", [KeySort, z3.IntSort()], z3.IntSort())
    return [SArr(shp, "i", lambda idx: f(k.at(idx[:-1]), zint(idx[-1])), eqn.outvars[0].aval.dtype)]


@rule("random_bits")
def _random_bits(ctx, eqn, k):
    shp = out_shape(ctx, eqn)
    nk = k.ndim
    f = ctx.uf(f"bits{len(shp) - nk}", [KeySort] + [z3.IntSort()] * (len(shp) - nk), z3.IntSort())
    return [SArr(shp, "i", lambda idx: f(k.at(idx[:nk]), *[zint(i) for i in idx[nk:]]), eqn.outvars[0].aval.dtype)]


# ---- structured control flow -------------------------------------------------------------------

def _closed(j):
    if hasattr(j, "jaxpr") and hasattr(j, "consts"):
        return j.jaxpr, j.consts
    return j, ()


@rule("pjit", "jit", "closed_call", "core_call", "remat", "checkpoint", "custom_lin")
def _call(ctx, eqn, *args):
    if eqn.params.get("name") == "branched_error_if_impl":
        # eqx.error_if: identity on the success path (D2: the raising path is dropped from the functional VC; the guard
        # is recorded so that contracts can state it as a precondition)
        nvals = len(eqn.outvars) - 1
        ctx.__dict__.setdefault("error_guards", []).append(args[nvals:])
        return [const_arr(np.int32(0))] + list(args[:nvals])
    j = eqn.params.get("jaxpr") or eqn.params.get("call_jaxpr")
    jaxpr, consts = _closed(j)
    return eval_jaxpr(ctx, jaxpr, consts, args)


@rule("custom_jvp_call")
def _custom_jvp(ctx, eqn, *args):
    jaxpr, consts = _closed(eqn.params["call_jaxpr"])
    return eval_jaxpr(ctx, jaxpr, consts, args)


@rule("custom_vjp_call", "custom_vjp_call_jaxpr")
def _custom_vjp(ctx, eqn, *args):
    j = eqn.params.get("call_jaxpr") or eqn.params.get("fun_jaxpr")
    jaxpr, consts = _closed(j)
    return eval_jaxpr(ctx, jaxpr, consts, args)


@rule("cond")
def _cond(ctx, eqn, which, *ops):
    branches = eqn.params["branches"]
    w = which.at(())
    if which.kind == "b":
        w = site(w, 1, 0)
    if is_const(w):
        jaxpr, consts = _closed(branches[int(w)])
        return eval_jaxpr(ctx, jaxpr, consts, ops)
    results = []
    saved = ctx.path
    for bi, br in enumerate(branches):
        jaxpr, consts = _closed(br)
        ctx.path = sand(saved, seq(w, bi))
        results.append(eval_jaxpr(ctx, jaxpr, consts, ops))
    ctx.path = saved
    outs = []
    for j, ov in enumerate(eqn.outvars):
        shp = ctx.shape(ov.aval.shape)
        k = kind_of_dtype(ov.aval.dtype)

        def fn(idx, j=j):
            out = results[-1][j].at(idx)
            for bi in range(len(branches) - 2, -1, -1):
                out = site(seq(w, bi), results[bi][j].at(idx), out)
            return out
        outs.append(SArr(shp, k, fn, ov.aval.dtype))
    return outs


def _scan_parts(eqn, args):
    """(consts, init carry, xs, number of carry outputs) - arities come from the flat-trees in this JAX version."""
    p = eqn.params
    if "num_consts" in p:
        nc, ncar = p["num_consts"], p["num_carry"]
        return list(args[:nc]), list(args[nc:nc + ncar]), list(args[nc + ncar:]), ncar
    consts, init, xs = [list(x) for x in p["ft_in"].update(list(args)).unpack()]
    co, ys = p["ft_out"].update(list(range(len(eqn.outvars)))).unpack()
    return consts, init, xs, len(list(co))


@rule("scan")
def _scan(ctx, eqn, *args):
    p = eqn.params
    length = ctx.dim(p["length"])
    reverse = p["reverse"]
    jaxpr, jconsts = _closed(p["jaxpr"])
    consts, init, xs, ncar = _scan_parts(eqn, args)
    assert ncar == len(init), (ncar, len(init))
    n_out = len(eqn.outvars)
    n_ys = n_out - ncar

    def x_at(pos):
        return [SArr(x.shape[1:], x.kind, (lambda idx, x=x: x.at((pos,) + tuple(idx))), x.dtype) for x in xs]

    def body(carry, pos):
        outs = eval_jaxpr(ctx, jaxpr, jconsts, consts + list(carry) + x_at(pos))
        return outs[:ncar], outs[ncar:]

    if isinstance(length, int) and length <= ctx.unroll_limit:
        carry = init
        ys_rows = [None] * length
        order = range(length - 1, -1, -1) if reverse else range(length)
        for pos in order:
            carry, ys = body(carry, pos)
            ys_rows[pos] = ys
        outs = list(carry)
        for j in range(n_ys):
            ov = eqn.outvars[ncar + j]
            shp = ctx.shape(ov.aval.shape)

            def fn(idx, j=j):
                i = idx[0]
                if is_const(i):
                    return ys_rows[i][j].at(tuple(idx[1:]))
                out = ys_rows[-1][j].at(tuple(idx[1:]))
                for r in range(length - 2, -1, -1):
                    out = site(seq(i, r), ys_rows[r][j].at(tuple(idx[1:])), out)
                return out
            outs.append(SArr(shp, kind_of_dtype(ov.aval.dtype), fn, ov.aval.dtype))
        return outs
    return _scan_symbolic(ctx, eqn, length, reverse, body, init, n_ys, ncar)


def _scan_symbolic(ctx, eqn, length, reverse, body, init, n_ys, ncar):
    """Symbolic trip count.  Step number k (0-based) processes position pos(k) = k (forward) or
    length-1-k (reverse).  C_j(k, idx) is the carry BEFORE step k; C(0)=init, C(k+1)=body(C(k), xs[pos(k)]).
    The recurrence is an assumption instantiated (unfolded) at every step number at which a carry is
    requested, `ctx.unfold_depth` levels deep; contracts may request more instances via rec.unfold(k)."""
    rec = ScanRecord()
    sid = len(ctx.scans)
    rec.name = f"scan#{sid}"
    rec.length, rec.reverse = length, reverse
    ctx.scans.append(rec)
    zl = zint(length)
    carry_ufs = []
    for j, c in enumerate(init):
        srt = sort_of_kind(c.kind)
        carry_ufs.append(z3.Function(f"scan{sid}_carry{j}", z3.IntSort(), *([z3.IntSort()] * c.ndim), srt))

    def pos(k):
        return ssub(ssub(length, 1), k) if reverse else k

    def carry_at(k):
        return [SArr(c.shape, c.kind, (lambda idx, f=f: f(zint(k), *[zint(i) for i in idx])), c.dtype)
                for c, f in zip(init, carry_ufs)]

    rec.carry_at = carry_at
    rec.body = body
    rec.init = init
    rec.pos = pos
    rec.carry_ufs = carry_ufs
    rec.elem_axioms = []

    def carry_elem(j, k, idx):
        # value of carry j before step k at idx, with unfolding axioms attached lazily
        t = carry_ufs[j](zint(k), *[zint(i) for i in idx])
        _unfold(ctx, rec, j, k, idx, ctx.unfold_depth)
        return t

    def carry_sarrs(k):
        return [SArr(c.shape, c.kind, (lambda idx, j=j: carry_elem(j, k, idx)), c.dtype) for j, c in enumerate(init)]

    rec.carry_sarrs = carry_sarrs
    outs = carry_sarrs(length)
    ys_memo = {}

    def ys_at(p):
        kp = key_of(p)
        if kp not in ys_memo:
            k = ssub(ssub(length, 1), p) if reverse else p
            _, ys = body(carry_sarrs(k), p)
            ys_memo[kp] = (ys, p)
        return ys_memo[kp][0]

    rec.ys_at = ys_at
    for j in range(n_ys):
        ov = eqn.outvars[ncar + j]
        shp = ctx.shape(ov.aval.shape)
        outs.append(SArr(shp, kind_of_dtype(ov.aval.dtype), (lambda idx, j=j: ys_at(idx[0])[j].at(tuple(idx[1:]))), ov.aval.dtype))
    return outs


def _unfold(ctx, rec, j, k, idx, depth):
    """Assume  k == 0 => C_j(k)[idx] == init_j[idx]   and   k >= 1 => C_j(k)[idx] == body(C(k-1), xs[pos(k-1)])_j[idx]."""
    if depth <= 0:
        return
    tag = (j, key_of(k), tuple(key_of(i) for i in idx))
    if tag in rec.unfolded:
        return
    rec.unfolded.add(tag)
    t = rec.carry_ufs[j](zint(k), *[zint(i) for i in idx])
    is0 = seq(k, 0)
    if not (is_const(is0) and not is0):
        ctx.assume(simplies(is0, seq(t, rec.init[j].at(idx))))
    if not (is_const(is0) and is0):
        km1 = ssub(k, 1)
        prev = [SArr(c.shape, c.kind, (lambda ii, jj=jj: _carry_elem_d(ctx, rec, jj, km1, ii, depth - 1)), c.dtype)
                for jj, c in enumerate(rec.init)]
        newc, _ = rec.body(prev, rec.pos(km1))
        ctx.assume(simplies(sge(k, 1), seq(t, newc[j].at(idx))))


def _carry_elem_d(ctx, rec, j, k, idx, depth):
    t = rec.carry_ufs[j](zint(k), *[zint(i) for i in idx])
    _unfold(ctx, rec, j, k, idx, depth)
    return t


class WhileRecord:
    """A while loop: cond / body are available as functions on carries; the exit carry is a tuple of fresh
    uninterpreted values constrained only by `not cond(exit)` (partial correctness; termination is not claimed).
    Contracts state loop invariants through rec.body / rec.cond (Hoare rule: initiation, consecution, use at exit)."""

    def __init__(self):
        self.cond = self.body = self.init = self.exit = None


@rule("while")
def _while(ctx, eqn, *args):
    p = eqn.params
    cn, bn = p["cond_nconsts"], p["body_nconsts"]
    cj, cconsts = _closed(p["cond_jaxpr"])
    bj, bconsts = _closed(p["body_jaxpr"])
    cargs, bargs, init = list(args[:cn]), list(args[cn:cn + bn]), list(args[cn + bn:])
    rec = WhileRecord()
    wid = len(ctx.__dict__.setdefault("whiles", []))
    ctx.whiles.append(rec)
    rec.init = init
    rec.cond = lambda carry: eval_jaxpr(ctx, cj, cconsts, cargs + list(carry))[0]
    rec.body = lambda carry: eval_jaxpr(ctx, bj, bconsts, bargs + list(carry))
    outs = []
    for j, (c, ov) in enumerate(zip(init, eqn.outvars)):
        shp = ctx.shape(ov.aval.shape)
        outs.append(fresh_input(f"while{wid}_exit{j}", shp, c.kind, ov.aval.dtype))
    rec.exit = outs
    ctx.assume(snot(rec.cond(outs).at(())))
    return outs


# ---- effects ----------------------------------------------------------------------------------

@rule("debug_callback")
def _debug_callback(ctx, eqn, *args):
    ctx.effects.append(("debug_callback", eqn.params, args, ctx.path))
    return []


@rule("io_callback", "pure_callback")
def _io_callback(ctx, eqn, *args):
    ctx.effects.append((eqn.primitive.name, eqn.params, args, ctx.path))
    raise Unsupported(eqn.primitive.name)


# ---- opaque -----------------------------------------------------------------------------------

ArrSort = z3.DeclareSort("Arr")


@rule("opaque")
def _opaque(ctx, eqn, *args):
    """Uninterpreted function application.  Operands with concrete core shape are passed element by element;
    an operand whose core shape is symbolic is passed as an abstract array identity (one constant of sort Arr per
    SArr object: equal only to itself - a sound over-approximation).  Results with symbolic core shape take their
    core index as extra integer arguments."""
    name = eqn.params["name"]
    levels = eqn.params["levels"]
    nlev = len(levels)
    out_avals = eqn.params["out_avals"]
    core_shapes, abstract = [], []
    ids = ctx.__dict__.setdefault("_arr_ids", {})
    for p, a in enumerate(args):
        nb = sum(1 for L in range(nlev) if levels[L][p])
        cs = a.shape[nb:]
        if not all(isinstance(d, int) for d in cs) or (cs and int(np.prod(cs)) > 256):
            if nb:
                raise Unsupported(f"batched opaque operand with symbolic core shape {a.shape}")
            if id(a) not in ids:
                ids[id(a)] = (z3.Const(f"arr!{len(ids)}", ArrSort), a)
            abstract.append(ids[id(a)][0])
            core_shapes.append(None)
        else:
            abstract.append(None)
            core_shapes.append(cs)

    def operand_terms(bidx):
        terms = []
        for p, a in enumerate(args):
            if abstract[p] is not None:
                terms.append(abstract[p])
                continue
            sub = []
            for L in range(nlev - 1, -1, -1):
                if levels[L][p]:
                    sub.append(bidx[nlev - 1 - L])
            for cidx in itertools.product(*[range(d) for d in core_shapes[p]]):
                terms.append(z_of(a.at(tuple(sub) + cidx), a.kind))
        return terms

    arg_sorts = []
    for p, a in enumerate(args):
        if abstract[p] is not None:
            arg_sorts.append(ArrSort)
        else:
            n = int(np.prod(core_shapes[p])) if core_shapes[p] else 1
            arg_sorts += [sort_of_kind(a.kind)] * n

    outs = []
    for j, (oshape, odt) in enumerate(out_avals):
        shp = ctx.shape(oshape)
        k = kind_of_dtype(odt)
        core = shp[nlev:]
        sym_core = not all(isinstance(d, int) for d in core)

        def fn(idx, j=j, k=k, shp=shp, sym_core=sym_core):
            bidx, cidx = idx[:nlev], idx[nlev:]
            if sym_core:
                f = ctx.uf(f"{name}.{j}", arg_sorts + [z3.IntSort()] * len(cidx), sort_of_kind(k))
                return f(*(operand_terms(bidx) + [zint(c) for c in cidx]))
            if not all(is_const(c) for c in cidx):
                # symbolic core index: ite over the concrete core
                out = None
                for cc in itertools.product(*[range(d) for d in shp[nlev:]]):
                    v = fn(tuple(bidx) + cc)
                    cond = sand(*[seq(i, c) for i, c in zip(cidx, cc)])
                    out = v if out is None else site(cond, v, out)
                return out
            f = ctx.uf(f"{name}.{j}" + ("".join(f"[{c}]" for c in cidx)), arg_sorts, sort_of_kind(k))
            ts = operand_terms(bidx)
            return f(*ts) if ts else f()
        outs.append(SArr(shp, k, fn, odt))
    call = OpaqueCall(name, levels, list(args), outs, ctx.path)
    ctx.calls.append(call)
    hook = ctx.callee_contracts.get(name)
    if hook is not None:
        hook(ctx, call)
    return outs


RULES["optimization_barrier"] = lambda ctx, eqn, *xs: list(xs)


# ----------------------------------------------------------------------------------------------
# interpreter
# ----------------------------------------------------------------------------------------------

def literal_arr(lit):
    kind = kind_of_dtype(lit.aval.dtype)
    val = lit.val
    if kind == "f":
        # weak-typed Python floats are rounded to the aval's dtype by XLA: the literal's VALUE is the rounded one
        try:
            val = np.asarray(val).astype(np.dtype(lit.aval.dtype))
        except Exception:
            val = np.asarray(val)
    return const_arr(np.asarray(val), kind)


def eval_jaxpr(ctx, jaxpr, consts, args):
    env = {}

    def read(v):
        if type(v).__name__ == "Literal":
            return literal_arr(v)
        return env[v]

    assert len(jaxpr.invars) == len(args), (len(jaxpr.invars), len(args))
    for v, c in zip(jaxpr.constvars, consts):
        env[v] = c if isinstance(c, SArr) else const_arr(np.asarray(c))
    for v, a in zip(jaxpr.invars, args):
        env[v] = a
    for eqn in jaxpr.eqns:
        nm = eqn.primitive.name
        r = RULES.get(nm)
        if r is None:
            raise Unsupported(f"primitive {nm}")
        ins = [read(v) for v in eqn.invars]
        outs = r(ctx, eqn, *ins)
        for v, o in zip(eqn.outvars, outs):
            env[v] = o
    return [read(v) for v in jaxpr.outvars]


@rule("unstack")
def _unstack(ctx, eqn, a):
    ax = eqn.params.get("axis", 0)
    outs = []
    for j, ov in enumerate(eqn.outvars):
        shp = ctx.shape(ov.aval.shape)
        outs.append(SArr(shp, a.kind, (lambda idx, j=j: a.at(tuple(idx[:ax]) + (j,) + tuple(idx[ax:]))), a.dtype))
    return outs


@rule("split")
def _split(ctx, eqn, a):
    ax = eqn.params["axis"]
    sizes = [ctx.dim(s) for s in eqn.params["sizes"]]
    outs, off = [], 0
    for j, ov in enumerate(eqn.outvars):
        shp = ctx.shape(ov.aval.shape)
        outs.append(SArr(shp, a.kind, (lambda idx, off=off: a.at(tuple(idx[:ax]) + (sadd(idx[ax], off),) + tuple(idx[ax + 1:]))), a.dtype))
        off = sadd(off, sizes[j])
    return outs


@rule("tile")
def _tile(ctx, eqn, a):
    shp = out_shape(ctx, eqn)
    off = len(shp) - a.ndim

    def fn(idx):
        sub = []
        for k, d in enumerate(a.shape):
            i = idx[off + k]
            if is_const(i) and is_const(d):
                sub.append(i % d)
            elif isinstance(d, int) and d == 1:
                sub.append(0)
            else:
                sub.append(zint(i) % zint(d))
        return a.at(tuple(sub))
    return [SArr(shp, a.kind, fn, a.dtype)]


@rule("empty")
def _empty(ctx, eqn):
    # jnp.empty: arbitrary (unspecified) contents
    shp = out_shape(ctx, eqn)
    return [fresh_input(ctx.fresh("empty"), shp, out_kind(eqn), eqn.outvars[0].aval.dtype)]


@rule("stack")
def _stack(ctx, eqn, *xs):
    ax = eqn.params.get("axis", 0)
    shp = out_shape(ctx, eqn)

    def fn(idx):
        i = idx[ax]
        sub = tuple(idx[:ax]) + tuple(idx[ax + 1:])
        if is_const(i):
            return xs[i].at(sub)
        out = xs[-1].at(sub)
        for j in range(len(xs) - 2, -1, -1):
            out = site(seq(i, j), xs[j].at(sub), out)
        return out
    return [SArr(shp, xs[0].kind, fn, xs[0].dtype)]
